From Coq Require Import List Arith Lia Bool.
Import ListNotations.
(* First graph walk of fill_labeled_holes_loop: which regions are "not holes".
   Nodes are regions; isobj v = region is an object (label <= lcount), otherwise background. *)
Section Walk.
Variable adj : nat -> list nat.
Variable isobj : nat -> bool.
Variable border : nat -> Prop.          (* regions touching the image border: the initial to-do list *)

(* the specification: least set closed under the rules *)
Inductive U : nat -> Prop :=
| U_border v : border v -> U v
| U_obj_next_to_bg i j : U i -> isobj i = false -> In j (adj i) -> isobj j = true -> U j
| U_two_objects i1 i2 j : U i1 -> U i2 -> isobj i1 = true -> isobj i2 = true -> i1 <> i2 ->
                          In j (adj i1) -> In j (adj i2) -> U j.

Record st := {
  nh : nat -> bool;                      (* is_not_hole *)
  anh : nat -> option nat;               (* adjacent_non_hole, None = 0 *)
  todo : list nat;                       (* the stack *)
  cur : option (nat * list nat * list nat);   (* node being scanned, neighbours done (ghost), neighbours left *)
  proc : nat -> bool                     (* ghost: completely scanned *)
}.
Definition upd {A} (f : nat -> A) (k : nat) (x : A) : nat -> A := fun i => if Nat.eqb i k then x else f i.
Lemma upd_same {A} (f : nat -> A) k x : upd f k x k = x. Proof. unfold upd; rewrite Nat.eqb_refl; auto. Qed.
Lemma upd_other {A} (f : nat -> A) k x i : i <> k -> upd f k x i = f i.
Proof. unfold upd; intros; destruct (Nat.eqb_spec i k); congruence. Qed.

Definition mark (s : st) (jj : nat) (c : option (nat * list nat * list nat)) : st :=
  {| nh := upd (nh s) jj true; anh := anh s; todo := jj :: todo s; cur := c; proc := proc s |}.

Definition step (s : st) : st :=
  match cur s with
  | Some (ii, pre, jj :: rest) =>
      let c := Some (ii, pre ++ [jj], rest) in
      if nh s jj then {| nh := nh s; anh := anh s; todo := todo s; cur := c; proc := proc s |}
      else if isobj ii then
        match anh s jj with
        | None => {| nh := nh s; anh := upd (anh s) jj (Some ii); todo := todo s; cur := c; proc := proc s |}
        | Some k => if Nat.eqb k ii then {| nh := nh s; anh := anh s; todo := todo s; cur := c; proc := proc s |}
                    else mark s jj c
        end
      else if isobj jj then mark s jj c
      else {| nh := nh s; anh := anh s; todo := todo s; cur := c; proc := proc s |}
  | Some (ii, pre, []) => {| nh := nh s; anh := anh s; todo := todo s; cur := None; proc := upd (proc s) ii true |}
  | None =>
      match todo s with
      | ii :: t => {| nh := nh s; anh := anh s; todo := t; cur := Some (ii, [], adj ii); proc := proc s |}
      | [] => s
      end
  end.
Definition finished (s : st) : Prop := cur s = None /\ todo s = [].

(* a neighbour jj of a scanned object ii has been dealt with *)
Definition handled_obj (s : st) (ii jj : nat) : Prop := nh s jj = true \/ anh s jj = Some ii.
Definition handled_bg (s : st) (jj : nat) : Prop := isobj jj = true -> nh s jj = true.
Definition handled (s : st) (ii jj : nat) : Prop :=
  if isobj ii then handled_obj s ii jj else handled_bg s jj.

Record Inv (s : st) : Prop := {
  v_sound : forall v, nh s v = true -> U v;
  v_anh : forall v k, anh s v = Some k -> isobj k = true /\ nh s k = true /\ In v (adj k);
  v_todo : forall v, In v (todo s) -> nh s v = true;
  v_cur : forall ii pre rest, cur s = Some (ii, pre, rest) -> nh s ii = true /\ adj ii = pre ++ rest /\
                                                          forall jj, In jj pre -> handled s ii jj;
  v_proc : forall ii, proc s ii = true -> nh s ii = true /\ forall jj, In jj (adj ii) -> handled s ii jj;
  v_cover : forall v, nh s v = true -> In v (todo s) \/ proc s v = true \/ (exists pre rest, cur s = Some (v, pre, rest));
  v_border : forall v, border v -> nh s v = true
}.

Lemma handled_mono s s' ii jj :
  (forall v, nh s v = true -> nh s' v = true) -> (forall v k, anh s v = Some k -> anh s' v = Some k) ->
  handled s ii jj -> handled s' ii jj.
Proof.
  intros Hn Ha. unfold handled, handled_obj, handled_bg. destruct (isobj ii).
  - intros [H|H]; [left; auto|right; auto].
  - intros H Hj. auto.
Qed.

(* exit: the marked set is closed under both rules, hence contains U *)
Theorem walk_complete s : Inv s -> finished s -> forall v, U v -> nh s v = true.
Proof.
  intros I [Ec Et] v Hv.
  assert (P : forall x, nh s x = true -> proc s x = true).
  { intros x Hx. destruct (v_cover s I x Hx) as [H|[H|[pre [rest H]]]]; auto; [rewrite Et in H; destruct H|congruence]. }
  induction Hv as [v Hb|i j Hi IHi Bi Hj Oj|i1 i2 j H1 IH1 H2 IH2 O1 O2 Ne J1 J2].
  - apply (v_border s I); auto.
  - destruct (v_proc s I i (P i IHi)) as [_ Hh]. specialize (Hh j Hj). unfold handled in Hh. rewrite Bi in Hh. apply Hh; auto.
  - destruct (v_proc s I i1 (P i1 IH1)) as [_ Hh1]. destruct (v_proc s I i2 (P i2 IH2)) as [_ Hh2].
    specialize (Hh1 j J1). specialize (Hh2 j J2). unfold handled in Hh1, Hh2. rewrite O1 in Hh1. rewrite O2 in Hh2.
    destruct Hh1 as [A|A]; auto. destruct Hh2 as [B|B]; auto. congruence.
Qed.
Theorem walk_sound s : Inv s -> forall v, nh s v = true -> U v.
Proof. intros I. apply (v_sound s I). Qed.

(* generic preservation for scanning one neighbour jj of ii *)
Lemma scan_generic s ii pre jj rest nh' anh' todo' :
  Inv s -> cur s = Some (ii, pre, jj :: rest) ->
  (forall v, nh s v = true -> nh' v = true) ->
  (forall v k, anh s v = Some k -> anh' v = Some k) ->
  (forall v, In v (todo s) -> In v todo') ->
  (forall v, nh' v = true -> nh s v = true \/ (In v todo' /\ U v)) ->
  (forall v, In v todo' -> nh' v = true) ->
  (forall v k, anh' v = Some k -> isobj k = true /\ nh' k = true /\ In v (adj k)) ->
  (if isobj ii then nh' jj = true \/ anh' jj = Some ii else isobj jj = true -> nh' jj = true) ->
  Inv {| nh := nh'; anh := anh'; todo := todo'; cur := Some (ii, pre ++ [jj], rest); proc := proc s |}.
Proof.
  intros I C Mn Ma Mt New Td An Hj.
  destruct (v_cur s I ii pre (jj :: rest) C) as [Nii [Eadj Hpre]].
  set (s' := {| nh := nh'; anh := anh'; todo := todo'; cur := Some (ii, pre ++ [jj], rest); proc := proc s |}).
  assert (HM : forall a b, handled s a b -> handled s' a b) by (intros a b; apply handled_mono; auto).
  constructor; cbn [nh anh todo cur proc].
  - intros v Hv. destruct (New v Hv) as [H|[_ H]]; auto. apply (v_sound s I); auto.
  - exact An.
  - exact Td.
  - intros i0 p0 r0 E. inversion E; subst i0 p0 r0. split; [auto|]. split; [rewrite Eadj, <- app_assoc; reflexivity|].
    intros x Hx. apply in_app_or in Hx as [Hx|[<-|[]]]; [apply HM; auto|].
    unfold handled, handled_obj, handled_bg. cbn [nh anh]. destruct (isobj ii); exact Hj.
  - intros i0 Hp. destruct (v_proc s I i0 Hp) as [Hn Hh]. split; [auto|intros x Hx; apply HM; auto].
  - intros v Hv. destruct (New v Hv) as [H|[H _]]; [|left; auto].
    destruct (v_cover s I v H) as [H1|[H1|[p0 [r0 H1]]]]; [left; auto|right; left; auto|].
    right; right. rewrite C in H1. inversion H1; subst. exists (p0 ++ [jj]), rest. reflexivity.
  - intros v Hb. apply Mn. apply (v_border s I); auto.
Qed.

Lemma scan_same s ii pre jj rest :
  Inv s -> cur s = Some (ii, pre, jj :: rest) ->
  (if isobj ii then nh s jj = true \/ anh s jj = Some ii else isobj jj = true -> nh s jj = true) ->
  Inv {| nh := nh s; anh := anh s; todo := todo s; cur := Some (ii, pre ++ [jj], rest); proc := proc s |}.
Proof.
  intros I C H. apply (scan_generic s ii pre jj rest (nh s) (anh s) (todo s) I C); auto.
  - apply (v_todo s I).
  - apply (v_anh s I).
Qed.

Lemma inv_step s : Inv s -> Inv (step s).
Proof.
  intros I. unfold step. destruct (cur s) as [[[ii pre] [|jj rest]]|] eqn:C.
  - (* scan of ii finished *)
    destruct (v_cur s I ii pre [] C) as [Nii [Eadj Hpre]]. rewrite app_nil_r in Eadj.
    constructor; cbn [nh anh todo cur proc]; try apply I.
    + intros i0 p0 r0 E; discriminate.
    + intros i0 Hp. destruct (Nat.eq_dec i0 ii) as [->|N].
      * split; [auto|intros x Hx; rewrite Eadj in Hx; apply (handled_mono s); auto].
      * rewrite upd_other in Hp by auto. destruct (v_proc s I i0 Hp) as [Hn Hh].
        split; [auto|intros x Hx; apply (handled_mono s); auto].
    + intros v Hv. destruct (v_cover s I v Hv) as [H|[H|[p0 [r0 H]]]]; [left; auto| |].
      * right; left. destruct (Nat.eq_dec v ii) as [->|N]; [apply upd_same|rewrite upd_other; auto].
      * rewrite C in H. inversion H; subst. right; left. apply upd_same.
  - (* scan neighbour jj *)
    destruct (v_cur s I ii pre (jj :: rest) C) as [Nii [Eadj Hpre]].
    assert (Ijj : In jj (adj ii)) by (rewrite Eadj; apply in_or_app; right; left; auto).
    destruct (nh s jj) eqn:Njj.
    + apply scan_same; auto. destruct (isobj ii); auto.
    + destruct (isobj ii) eqn:Oii.
      * destruct (anh s jj) as [k|] eqn:Ajj.
        -- destruct (Nat.eqb_spec k ii) as [->|Nk].
           ++ apply scan_same; auto. rewrite Oii. right; auto.
           ++ (* two different unchanged objects touch jj: it is not a hole *)
              destruct (v_anh s I jj k Ajj) as [Ok [Nk' Ik]].
              assert (Ujj : U jj).
              { apply (U_two_objects k ii jj); auto; apply (v_sound s I); auto. }
              unfold mark. apply (scan_generic s ii pre jj rest (upd (nh s) jj true) (anh s) (jj :: todo s) I C); auto.
              ** intros v Hv. destruct (Nat.eq_dec v jj) as [->|N]; [apply upd_same|rewrite upd_other; auto].
              ** intros v Hv. right; auto.
              ** intros v Hv. destruct (Nat.eq_dec v jj) as [->|N]; [right; split; [left; auto|auto]|].
                 rewrite upd_other in Hv by auto. left; auto.
              ** intros v [<-|Hv]; [apply upd_same|]. destruct (Nat.eq_dec v jj) as [->|N]; [apply upd_same|].
                 rewrite upd_other by auto. apply (v_todo s I); auto.
              ** intros v k0 Hk. destruct (v_anh s I v k0 Hk) as [A [B D]]. repeat split; auto.
                 destruct (Nat.eq_dec k0 jj) as [->|N]; [apply upd_same|rewrite upd_other; auto].
              ** rewrite Oii. left. apply upd_same.
        -- (* first unchanged object seen next to jj *)
           apply (scan_generic s ii pre jj rest (nh s) (upd (anh s) jj (Some ii)) (todo s) I C); auto.
           ** intros v k Hk. destruct (Nat.eq_dec v jj) as [->|N]; [congruence|rewrite upd_other; auto].
           ** apply (v_todo s I).
           ** intros v k Hk. destruct (Nat.eq_dec v jj) as [->|N].
              --- rewrite upd_same in Hk. inversion Hk; subst. auto.
              --- rewrite upd_other in Hk by auto. apply (v_anh s I); auto.
           ** rewrite Oii. right. apply upd_same.
      * destruct (isobj jj) eqn:Ojj.
        -- (* object next to an unchanged background region *)
           assert (Ujj : U jj) by (apply (U_obj_next_to_bg ii jj); auto; apply (v_sound s I); auto).
           unfold mark. apply (scan_generic s ii pre jj rest (upd (nh s) jj true) (anh s) (jj :: todo s) I C); auto.
           ** intros v Hv. destruct (Nat.eq_dec v jj) as [->|N]; [apply upd_same|rewrite upd_other; auto].
           ** intros v Hv. right; auto.
           ** intros v Hv. destruct (Nat.eq_dec v jj) as [->|N]; [right; split; [left; auto|auto]|].
              rewrite upd_other in Hv by auto. left; auto.
           ** intros v [<-|Hv]; [apply upd_same|]. destruct (Nat.eq_dec v jj) as [->|N]; [apply upd_same|].
              rewrite upd_other by auto. apply (v_todo s I); auto.
           ** intros v k0 Hk. destruct (v_anh s I v k0 Hk) as [A [B D]]. repeat split; auto.
              destruct (Nat.eq_dec k0 jj) as [->|N]; [apply upd_same|rewrite upd_other; auto].
           ** rewrite Oii. intros _. apply upd_same.
        -- apply scan_same; auto. rewrite Oii. intros; congruence.
  - (* take the next node from the stack *)
    destruct (todo s) as [|ii t] eqn:T; [exact I|].
    constructor; cbn [nh anh todo cur proc]; try apply I.
    + intros v Hv. apply (v_todo s I). rewrite T. right; auto.
    + intros i0 p0 r0 E. inversion E; subst. split; [apply (v_todo s I); rewrite T; left; auto|].
      split; [reflexivity|intros x []].
    + intros v Hv. destruct (v_cover s I v Hv) as [H|[H|[p0 [r0 H]]]]; [|right; left; auto|congruence].
      rewrite T in H. destruct H as [<-|H]; [right; right; eauto|left; auto].
Qed.

Fixpoint iter (n : nat) (s : st) : st := match n with O => s | S k => iter k (step s) end.
Lemma inv_iter n : forall s, Inv s -> Inv (iter n s).
Proof. induction n; intros s I; cbn [iter]; auto. apply IHn, inv_step, I. Qed.

(* the property of the first walk: when it stops, exactly the rule-closed set is marked *)
Theorem walk1_lfp n s0 : Inv s0 -> finished (iter n s0) -> forall v, nh (iter n s0) v = true <-> U v.
Proof.
  intros I F v. pose proof (inv_iter n s0 I) as In. split; [apply (walk_sound _ In)|apply (walk_complete _ In F)].
Qed.
End Walk.

Print Assumptions walk1_lfp.
