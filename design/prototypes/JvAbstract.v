From Coq Require Import ZArith List Bool Lia.
Import ListNotations.
Open Scope Z_scope.
(* Abstract form of the invariant the Jonker-Volgenant phases must keep, stated in v only
   (the code re-derives u at the end): every assigned row sits on a column of minimal reduced cost. *)
Section JV.
Variable cost : nat -> nat -> option Z.                 (* None = pair not listed *)
Definition red (v : nat -> Z) (i j : nat) (c : Z) : Z := c - v j.
Definition slack_row (v : nat -> Z) (x : nat -> option nat) (i : nat) : Prop :=
  forall j, x i = Some j -> exists c, cost i j = Some c /\
    forall j' c', cost i j' = Some c' -> red v i j c <= red v i j' c'.
Definition SlackV (v : nat -> Z) (x : nat -> option nat) : Prop := forall i, slack_row v x i.
Definition injective (x : nat -> option nat) : Prop := forall i i' j, x i = Some j -> x i' = Some j -> i = i'.

Definition updv (v : nat -> Z) (j : nat) (d : Z) : nat -> Z := fun k => if Nat.eqb k j then v k - d else v k.

(* lowering the price of column j1 by d >= 0 cannot hurt rows assigned elsewhere *)
Lemma lower_other v x i j1 d : 0 <= d -> slack_row v x i -> x i <> Some j1 -> slack_row (updv v j1 d) x i.
Proof.
  intros Hd S N j Hj. destruct (S j Hj) as [c [Hc Hmin]]. exists c; split; auto.
  intros j' c' Hc'. specialize (Hmin j' c' Hc'). unfold red, updv in *.
  assert (j <> j1) by congruence. destruct (Nat.eqb_spec j j1); [congruence|].
  destruct (Nat.eqb_spec j' j1); lia.
Qed.

(* reduction transfer with the row's OWN candidate list (the Fixed variant):
   mu = minimum reduced cost over the other listed columns of row i *)
Theorem reduction_transfer_fixed v x i j1 c1 mu :
  injective x -> SlackV v x -> x i = Some j1 -> cost i j1 = Some c1 ->
  (forall j' c', cost i j' = Some c' -> j' <> j1 -> mu <= red v i j' c') ->   (* mu is a lower bound of the others *)
  red v i j1 c1 <= mu ->                                                        (* holds because j1 was minimal *)
  SlackV (updv v j1 (mu - red v i j1 c1)) x.
Proof.
  intros Inj S Hx Hc1 Hmu Hle i'. destruct (Nat.eq_dec i' i) as [->|Ni].
  - intros j Hj. rewrite Hx in Hj. inversion Hj; subst j. exists c1; split; auto.
    intros j' c' Hc'. unfold red, updv. rewrite Nat.eqb_refl.
    destruct (Nat.eqb_spec j' j1) as [->|Nj].
    + rewrite Hc1 in Hc'. inversion Hc'; subst. lia.
    + specialize (Hmu j' c' Hc' Nj). unfold red in *. lia.
  - apply lower_other; [unfold red in *; lia|apply S|]. intros E. apply Ni. eapply Inj; eauto.
Qed.

(* what the as-is code does: mu is computed against ANOTHER row's column list, so it need not bound
   row i's other candidates; then the conclusion can fail -- see lapjv_asis_refuted / finding F1. *)

(* augmenting row reduction, one step for a free row i: u1 <= u2 are the two smallest reduced costs, at j1, j2 *)
Theorem arr_step_strict v x i j1 c1 u2 :
  SlackV v x -> x i = None -> cost i j1 = Some c1 ->
  (forall j' c', cost i j' = Some c' -> j' <> j1 -> u2 <= red v i j' c') ->   (* u2 bounds all other candidates *)
  red v i j1 c1 <= u2 ->
  (* the row that held j1 (if any) is unassigned, i takes j1, v[j1] is lowered by u2 - u1 *)
  forall x', (forall k, k <> i -> (x' k = x k /\ x k <> Some j1) \/ (x k = Some j1 /\ x' k = None)) -> x' i = Some j1 ->
  SlackV (updv v j1 (u2 - red v i j1 c1)) x'.
Proof.
  intros S Hfree Hc1 Hu2 Hle x' Hx' Hi i'. destruct (Nat.eq_dec i' i) as [->|Ni].
  - intros j Hj. rewrite Hi in Hj. inversion Hj; subst j. exists c1; split; auto.
    intros j' c' Hc'. unfold red, updv. rewrite Nat.eqb_refl.
    destruct (Nat.eqb_spec j' j1) as [->|Nj].
    + rewrite Hc1 in Hc'. inversion Hc'; subst. lia.
    + specialize (Hu2 j' c' Hc' Nj). unfold red in *. lia.
  - destruct (Hx' i' Ni) as [[E N]|[E1 E2]].
    + intros j Hj. rewrite E in Hj.
      assert (SR : slack_row (updv v j1 (u2 - red v i j1 c1)) x i').
      { apply lower_other; [unfold red in *; lia|apply S|exact N]. }
      apply SR; auto.
    + intros j Hj. rewrite E2 in Hj. discriminate.
Qed.
End JV.
Print Assumptions reduction_transfer_fixed.
Print Assumptions arr_step_strict.
