From Coq Require Import List Arith Lia Bool.
Import ListNotations.
(* Explicit-stack depth-first labelling of _all_connected_components, abstracted from arrays:
   adj v = the neighbour list of v (j[indexes[v] .. +counts[v]]); lab = label array (None = UNDEFINED);
   cur = per-vertex edge cursor v_idx. *)
Section DFS.
Variable adj : nat -> list nat.
Hypothesis adj_sym : forall u v, In v (adj u) -> In u (adj v).

Inductive conn : nat -> nat -> Prop :=
| conn_refl u : conn u u
| conn_step u v w : In v (adj u) -> conn v w -> conn u w.
Lemma conn_trans u v w : conn u v -> conn v w -> conn u w.
Proof. induction 1; auto. intros; econstructor; eauto. Qed.
Lemma conn_sym u v : conn u v -> conn v u.
Proof. induction 1; [constructor|]. eapply conn_trans; [exact IHconn|]. econstructor; [apply adj_sym; eauto|constructor]. Qed.

Record st := { lab : nat -> option nat; cur : nat -> nat; stack : list nat }.
Definition upd {A} (f : nat -> A) (k : nat) (x : A) : nat -> A := fun i => if Nat.eqb i k then x else f i.

(* one iteration of the inner while loop for component index c *)
Definition step (c : nat) (s : st) : st :=
  match stack s with
  | [] => s
  | vv :: rest =>
      let lab1 := match lab s vv with None => upd (lab s) vv (Some c) | Some _ => lab s end in
      let cur1 := match lab s vv with None => upd (cur s) vv 0 | Some _ => cur s end in
      if Nat.ltb (cur1 vv) (length (adj vv)) then
        let v1 := nth (cur1 vv) (adj vv) 0 in
        let cur2 := upd cur1 vv (S (cur1 vv)) in
        match lab1 v1 with
        | None => {| lab := lab1; cur := cur2; stack := v1 :: vv :: rest |}
        | Some _ => {| lab := lab1; cur := cur2; stack := vv :: rest |}
        end
      else {| lab := lab1; cur := cur1; stack := rest |}
  end.
Fixpoint run (c fuel : nat) (s : st) : option st :=
  match stack s with
  | [] => Some s
  | _ => match fuel with O => None | S f => run c f (step c s) end
  end.

(* ---- invariant for one component: root r, index c, labelling lab0 before ---- *)
Variables (lab0 : nat -> option nat) (r c : nat).
Hypothesis lab0_r : lab0 r = None.
Hypothesis lab0_lt : forall v k, lab0 v = Some k -> k <> c.
(* previously labelled vertices form a union of components *)
Hypothesis lab0_closed : forall u v, lab0 u <> None -> In v (adj u) -> lab0 v <> None.

Definition labelled (s : st) v := lab s v <> None.
Record Inv (s : st) : Prop := {
  i_ext : forall v k, lab0 v = Some k -> lab s v = Some k;
  i_new : forall v k, lab s v = Some k -> lab0 v = Some k \/ (k = c /\ lab0 v = None);
  i_reach : forall v, lab s v = Some c -> conn r v;
  i_stack_reach : forall v, In v (stack s) -> conn r v /\ lab0 v = None;
  i_below : forall v rest, stack s = v :: rest -> forall w, In w rest -> lab s w = Some c;
  i_cursor : forall v, lab s v = Some c -> cur s v <= length (adj v);
  (* neighbours before the cursor are labelled, except the freshly pushed top *)
  i_seen : forall v, lab s v = Some c -> forall k, k < cur s v ->
           labelled s (nth k (adj v) 0) \/ (exists rest, stack s = nth k (adj v) 0 :: rest);
  (* a c-labelled vertex that is not on the stack is finished *)
  i_done : forall v, lab s v = Some c -> ~ In v (stack s) -> cur s v = length (adj v);
  (* the root is the first vertex labelled and the last one popped *)
  i_root : stack s = [r] \/ lab s r = Some c
}.

Lemma upd_same {A} (f : nat -> A) k x : upd f k x k = x.
Proof. unfold upd. rewrite Nat.eqb_refl. reflexivity. Qed.
Lemma upd_other {A} (f : nat -> A) k x i : i <> k -> upd f k x i = f i.
Proof. unfold upd. intros H. destruct (Nat.eqb_spec i k); congruence. Qed.

(* exit: the c-labelled set is exactly the component of r *)
Lemma closed_at_exit s : Inv s -> stack s = [] ->
  forall u v, lab s u = Some c -> In v (adj u) -> lab s v = Some c.
Proof.
  intros I E u v Hu Hv.
  assert (D : cur s u = length (adj u)) by (apply (i_done s I u Hu); rewrite E; auto).
  destruct (In_nth (adj u) v 0 Hv) as [k [Hk Hn]].
  destruct (i_seen s I u Hu k ltac:(lia)) as [L|[rest R]]; [|rewrite E in R; discriminate].
  rewrite Hn in L. unfold labelled in L. destruct (lab s v) as [kv|] eqn:Lv; [|congruence].
  destruct (i_new s I v kv Lv) as [Old|[-> _]]; auto.
  exfalso. (* v old => u old, contradiction *)
  assert (lab0 u <> None). { apply (lab0_closed v u); [congruence|apply adj_sym; auto]. }
  destruct (i_new s I u c Hu) as [O|[_ N]]; [eapply lab0_lt; eauto|congruence].
Qed.

Lemma closure_conn s : Inv s -> stack s = [] -> forall u v, conn u v -> lab s u = Some c -> lab s v = Some c.
Proof.
  intros I E u v H. induction H as [u|u w x Huw Hwx IH]; auto.
  intros Hu. apply IH. eapply closed_at_exit; eauto.
Qed.
Theorem component_at_exit s : Inv s -> stack s = [] -> forall v, lab s v = Some c <-> conn r v.
Proof.
  intros I E v. split; [apply (i_reach s I)|].
  intros H. eapply closure_conn; eauto. destruct (i_root s I) as [R|R]; [rewrite E in R; discriminate|exact R].
Qed.

Definition init (cur0 : nat -> nat) : st := {| lab := lab0; cur := cur0; stack := [r] |}.
Lemma inv_init cur0 : Inv (init cur0).
Proof.
  constructor; cbn [lab cur stack init]; intros.
  - auto.
  - auto.
  - exfalso. eapply lab0_lt; eauto.
  - destruct H as [<-|[]]. split; [constructor|exact lab0_r].
  - inversion H; subst. destruct H0.
  - exfalso. eapply lab0_lt; eauto.
  - exfalso. eapply lab0_lt; eauto.
  - exfalso. eapply lab0_lt; eauto.
  - left; reflexivity.
Qed.

Lemma inv_step s : Inv s -> Inv (step c s).
Proof.
  intros I. unfold step. destruct (stack s) as [|vv rest] eqn:ES; [exact I|].
  assert (SR : conn r vv /\ lab0 vv = None) by (apply (i_stack_reach s I); rewrite ES; left; auto).
  destruct SR as [Rvv Ovv].
  set (lab1 := match lab s vv with None => upd (lab s) vv (Some c) | Some _ => lab s end).
  set (cur1 := match lab s vv with None => upd (cur s) vv 0 | Some _ => cur s end).
  assert (L1 : lab1 vv = Some c).
  { unfold lab1. destruct (lab s vv) as [k|] eqn:E; [|apply upd_same].
    destruct (i_new s I vv k E) as [O|[-> _]]; [congruence|exact E]. }
  assert (L2 : forall v, v <> vv -> lab1 v = lab s v).
  { intros v Hv. unfold lab1. destruct (lab s vv); auto. apply upd_other; auto. }
  assert (L3 : forall v k, lab s v = Some k -> lab1 v = Some k).
  { intros v k Hk. destruct (Nat.eq_dec v vv) as [->|N]; [|rewrite L2; auto].
    unfold lab1. rewrite Hk. exact Hk. }
  assert (L4 : forall v, lab1 v = Some c -> v = vv \/ lab s v = Some c).
  { intros v Hv. destruct (Nat.eq_dec v vv) as [->|N]; auto. right. rewrite <- L2; auto. }
  assert (C1 : forall v, v <> vv -> cur1 v = cur s v).
  { intros v Hv. unfold cur1. destruct (lab s vv); auto. apply upd_other; auto. }
  assert (C2 : cur1 vv <= length (adj vv)).
  { unfold cur1. destruct (lab s vv) as [k|] eqn:E; [|rewrite upd_same; lia].
    destruct (i_new s I vv k E) as [O|[-> _]]; [congruence|]. apply (i_cursor s I); auto. }
  (* neighbours before cur1 vv are labelled in lab1 *)
  assert (S1 : forall k, k < cur1 vv -> lab1 (nth k (adj vv) 0) <> None).
  { intros k Hk. unfold cur1 in Hk. destruct (lab s vv) as [kk|] eqn:E; [|rewrite upd_same in Hk; lia].
    destruct (i_new s I vv kk E) as [O|[-> _]]; [congruence|].
    destruct (i_seen s I vv E k Hk) as [Lb|[rest0 R]].
    - unfold labelled in Lb. destruct (lab s (nth k (adj vv) 0)) as [q|] eqn:Q; [|congruence]. rewrite (L3 _ _ Q). discriminate.
    - assert (X : nth k (adj vv) 0 = vv) by congruence. rewrite X, L1. discriminate. }
  (* same for every other c-labelled vertex *)
  assert (S2 : forall v, v <> vv -> lab s v = Some c -> forall k, k < cur s v -> lab1 (nth k (adj v) 0) <> None).
  { intros v Nv Hv k Hk. destruct (i_seen s I v Hv k Hk) as [Lb|[rest0 R]].
    - unfold labelled in Lb. destruct (lab s (nth k (adj v) 0)) as [q|] eqn:Q; [|congruence]. rewrite (L3 _ _ Q). discriminate.
    - assert (X : nth k (adj v) 0 = vv) by congruence. rewrite X, L1. discriminate. }
  assert (EXT : forall v k, lab0 v = Some k -> lab1 v = Some k) by (intros; apply L3; apply (i_ext s I); auto).
  assert (NEW : forall v k, lab1 v = Some k -> lab0 v = Some k \/ (k = c /\ lab0 v = None)).
  { intros v k Hk. destruct (Nat.eq_dec v vv) as [->|N].
    - rewrite L1 in Hk. inversion Hk; subst. right; auto.
    - rewrite L2 in Hk by auto. apply (i_new s I); auto. }
  assert (REACH : forall v, lab1 v = Some c -> conn r v).
  { intros v Hv. destruct (L4 v Hv) as [->|Hs]; auto. apply (i_reach s I); auto. }
  assert (BELOW : forall w, In w rest -> lab1 w = Some c).
  { intros w Hw. apply L3. eapply (i_below s I); eauto. }
  assert (ROOT : lab1 r = Some c).
  { destruct (i_root s I) as [R|R]; [|apply L3; auto]. rewrite ES in R. inversion R; subst. exact L1. }
  destruct (Nat.ltb (cur1 vv) (length (adj vv))) eqn:LT.
  - apply Nat.ltb_lt in LT.
    set (v1 := nth (cur1 vv) (adj vv) 0).
    assert (Iv1 : In v1 (adj vv)) by (apply nth_In; exact LT).
    set (cur2 := upd cur1 vv (S (cur1 vv))).
    assert (C3 : forall v, v <> vv -> cur2 v = cur s v) by (intros; unfold cur2; rewrite upd_other; auto).
    assert (C4 : cur2 vv = S (cur1 vv)) by (unfold cur2; apply upd_same).
    destruct (lab1 v1) as [q|] eqn:Q.
    + (* neighbour already labelled: stack unchanged *)
      constructor; cbn [lab cur stack]; auto.
      * intros v Hv. apply (i_stack_reach s I). rewrite ES. exact Hv.
      * intros v rest0 E w Hw. inversion E; subst. auto.
      * intros v Hv. destruct (Nat.eq_dec v vv) as [->|N]; [rewrite C4; lia|]. rewrite C3 by auto.
        apply (i_cursor s I). rewrite <- L2; auto.
      * intros v Hv k Hk. left. unfold labelled; cbn [lab].
        destruct (Nat.eq_dec v vv) as [->|N].
        -- rewrite C4 in Hk. destruct (Nat.eq_dec k (cur1 vv)) as [->|Nk]; [fold v1; rewrite Q; discriminate|].
           apply S1; lia.
        -- rewrite C3 in Hk by auto. apply S2; auto. rewrite <- L2; auto.
      * intros v Hv Hn. destruct (Nat.eq_dec v vv) as [->|N]; [exfalso; apply Hn; left; auto|].
        rewrite C3 by auto. apply (i_done s I); [rewrite <- L2; auto|]. rewrite ES. exact Hn.
    + (* push the unlabelled neighbour *)
      constructor; cbn [lab cur stack]; auto.
      * intros v [<-|Hv].
        -- split; [eapply conn_trans; [exact Rvv|econstructor; [exact Iv1|constructor]]|].
           destruct (lab0 v1) as [q0|] eqn:Q0; auto. rewrite (EXT _ _ Q0) in Q. discriminate.
        -- apply (i_stack_reach s I). rewrite ES. exact Hv.
      * intros v rest0 E w Hw. inversion E; subst. destruct Hw as [<-|Hw]; auto.
      * intros v Hv. destruct (Nat.eq_dec v vv) as [->|N]; [rewrite C4; lia|]. rewrite C3 by auto.
        apply (i_cursor s I). rewrite <- L2; auto.
      * intros v Hv k Hk. unfold labelled; cbn [lab stack].
        destruct (Nat.eq_dec v vv) as [->|N].
        -- rewrite C4 in Hk. destruct (Nat.eq_dec k (cur1 vv)) as [->|Nk]; [right; eexists; reflexivity|].
           left. apply S1; lia.
        -- left. rewrite C3 in Hk by auto. apply S2; auto. rewrite <- L2; auto.
      * intros v Hv Hn. destruct (Nat.eq_dec v vv) as [->|N]; [exfalso; apply Hn; right; left; auto|].
        rewrite C3 by auto. apply (i_done s I); [rewrite <- L2; auto|]. rewrite ES. intros Hin. apply Hn. right. exact Hin.
  - (* all edges of vv processed: pop *)
    apply Nat.ltb_ge in LT.
    constructor; cbn [lab cur stack]; auto.
    + intros v Hv. apply (i_stack_reach s I). rewrite ES. right. exact Hv.
    + intros v rest0 E w Hw. apply BELOW. rewrite E. right. exact Hw.
    + intros v Hv. destruct (Nat.eq_dec v vv) as [->|N]; [exact C2|]. rewrite C1 by auto.
      apply (i_cursor s I). rewrite <- L2; auto.
    + intros v Hv k Hk. left. unfold labelled; cbn [lab].
      destruct (Nat.eq_dec v vv) as [->|N]; [apply S1; auto|].
      rewrite C1 in Hk by auto. apply S2; auto. rewrite <- L2; auto.
    + intros v Hv Hn. destruct (Nat.eq_dec v vv) as [->|N]; [lia|].
      rewrite C1 by auto. apply (i_done s I); [rewrite <- L2; auto|]. rewrite ES. intros [E|Hin]; [congruence|auto].
Qed.

Lemma inv_run fuel : forall s s', Inv s -> run c fuel s = Some s' -> Inv s' /\ stack s' = [].
Proof.
  induction fuel as [|f IH]; intros s s' I H; cbn [run] in H.
  - destruct (stack s) eqn:E; [inversion H; subst; auto|discriminate].
  - destruct (stack s) eqn:E; [inversion H; subst; auto|]. eapply IH; [|exact H]. apply inv_step; auto.
Qed.

(* one component: whenever the inner loop returns, exactly the component of r carries the new label *)
Theorem dfs_component cur0 fuel s' : run c fuel (init cur0) = Some s' ->
  (forall v, lab s' v = Some c <-> conn r v) /\
  (forall v k, lab0 v = Some k -> lab s' v = Some k) /\
  (forall v k, lab s' v = Some k -> k <> c -> lab0 v = Some k).
Proof.
  intros H. destruct (inv_run fuel _ _ (inv_init cur0) H) as [I E]. split; [|split].
  - apply component_at_exit; auto.
  - apply (i_ext s' I).
  - intros v k Hk Nk. destruct (i_new s' I v k Hk) as [O|[-> _]]; [auto|congruence].
Qed.
End DFS.

Print Assumptions dfs_component.

(* ---- outer loop: every vertex in turn, new component index each time the vertex is unlabelled ---- *)
Section Outer.
Variable adj : nat -> list nat.
Hypothesis adj_sym : forall u v, In v (adj u) -> In u (adj v).
Variable fuel : nat.

Definition outer_step (acc : option ((nat -> option nat) * (nat -> nat) * nat)) (v : nat) :=
  match acc with
  | None => None
  | Some (lb, cu, c) =>
      match lb v with
      | Some _ => Some (lb, cu, c)
      | None => match run adj c fuel {| lab := lb; cur := cu; stack := [v] |} with
                | Some s' => Some (lab s', cur s', S c)
                | None => None
                end
      end
  end.
Definition outer (vs : list nat) (lb : nat -> option nat) (cu : nat -> nat) (c : nat) :=
  fold_left outer_step vs (Some (lb, cu, c)).

Record OInv (lb : nat -> option nat) (c : nat) : Prop := {
  o_lt : forall v k, lb v = Some k -> k < c;
  o_closed : forall u v, lb u <> None -> In v (adj u) -> lb v <> None;
  o_part : forall u w ku kw, lb u = Some ku -> lb w = Some kw -> (ku = kw <-> conn adj u w)
}.

Lemma closed_conn lb c : OInv lb c -> forall u w, conn adj u w -> lb u <> None -> lb w <> None.
Proof. intros O u w H. induction H; auto. intros Hu. apply IHconn. eapply (o_closed lb c O); eauto. Qed.

Lemma outer_step_inv lb cu c v lb' cu' c' :
  OInv lb c -> outer_step (Some (lb, cu, c)) v = Some (lb', cu', c') ->
  OInv lb' c' /\ lb' v <> None /\ (forall x, lb x <> None -> lb' x <> None).
Proof.
  intros O H. cbn [outer_step] in H. destruct (lb v) as [kv0|] eqn:E.
  - inversion H; subst lb' cu' c'. split; [exact O|split; [rewrite E; discriminate|auto]].
  - destruct (run adj c fuel _) as [s'|] eqn:R; [|discriminate]. inversion H; subst. clear H.
    assert (LT : forall x k, lb x = Some k -> k <> c) by (intros x k Hk; apply (o_lt lb c O) in Hk; lia).
    destruct (dfs_component adj adj_sym lb v c E LT (o_closed lb c O) cu fuel s' R) as [Hc [Hext Hold]].
    assert (Old : forall x k, lab s' x = Some k -> lb x = Some k \/ (k = c /\ conn adj v x)).
    { intros x k Hk. destruct (Nat.eq_dec k c) as [->|N]; [right; split; auto; apply Hc; auto|left; apply Hold; auto]. }
    split; [|split].
    + constructor.
      * intros x kk Hk. destruct (Old x kk Hk) as [L|[-> _]]; [apply (o_lt lb c O) in L; lia|lia].
      * intros u w Hu Hw. destruct (lab s' u) as [ku|] eqn:Eu; [|congruence].
        destruct (Old u ku Eu) as [L|[-> Cu]].
        -- assert (lb w <> None) by (eapply (o_closed lb c O); eauto; congruence).
           destruct (lb w) as [kw|] eqn:Ew; [|congruence]. rewrite (Hext _ _ Ew). discriminate.
        -- assert (conn adj v w) by (eapply conn_trans; [exact Cu|econstructor; [exact Hw|constructor]]).
           apply Hc in H. rewrite H. discriminate.
      * intros u w ku kw Eu Ew.
        destruct (Old u ku Eu) as [Lu|[-> Cu]], (Old w kw Ew) as [Lw|[-> Cw]].
        -- apply (o_part lb c O); auto.
        -- split; [intros ->; apply (o_lt lb c O) in Lu; lia|].
           intros Huw. exfalso. assert (lb w <> None) by (eapply closed_conn; eauto; congruence).
           destruct (lb w) as [k2|] eqn:E2; [|congruence]. rewrite (Hext _ _ E2) in Ew. inversion Ew; subst.
           apply (o_lt lb c O) in E2. lia.
        -- split; [intros <-; apply (o_lt lb c O) in Lw; lia|].
           intros Huw. exfalso. assert (lb u <> None) by (eapply closed_conn; [eauto|apply conn_sym; eauto|congruence]).
           destruct (lb u) as [k2|] eqn:E2; [|congruence]. rewrite (Hext _ _ E2) in Eu. inversion Eu; subst.
           apply (o_lt lb c O) in E2. lia.
        -- split; auto. intros _. eapply conn_trans; [apply conn_sym; eauto|exact Cw].
    + assert (lab s' v = Some c) by (apply Hc; constructor). congruence.
    + intros x Hx. destruct (lb x) as [k|] eqn:Ex; [|congruence]. rewrite (Hext _ _ Ex). discriminate.
Qed.

Theorem dfs_partition vs : forall lb cu c lb' cu' c', OInv lb c -> outer vs lb cu c = Some (lb', cu', c') ->
  OInv lb' c' /\ (forall v, In v vs -> lb' v <> None) /\ (forall x, lb x <> None -> lb' x <> None).
Proof.
  unfold outer. induction vs as [|v vs IH]; intros lb cu c lb' cu' c' O H; cbn [fold_left] in H.
  - inversion H; subst lb' cu' c'. split; [exact O|split; [intros v []|auto]].
  - destruct (outer_step (Some (lb, cu, c)) v) as [[[lb1 cu1] c1]|] eqn:E.
    + destruct (outer_step_inv _ _ _ _ _ _ _ O E) as [O1 [Lv Mono]].
      destruct (IH _ _ _ _ _ _ O1 H) as [O2 [All Mono2]]. split; [exact O2|split; [|auto]].
      intros x [<-|Hx]; auto.
    + exfalso. clear - H. induction vs; cbn in H; [discriminate|auto].
Qed.

(* the property: starting from the all-undefined array, labels coincide exactly on connected vertices *)
Corollary all_connected_components_spec n cu lb' cu' c' :
  outer (seq 0 n) (fun _ => None) cu 0 = Some (lb', cu', c') ->
  (forall v, v < n -> lb' v <> None) /\
  (forall u w ku kw, lb' u = Some ku -> lb' w = Some kw -> (ku = kw <-> conn adj u w)).
Proof.
  intros H. assert (O0 : OInv (fun _ => None) 0) by (constructor; intros; congruence).
  destruct (dfs_partition _ _ _ _ _ _ _ O0 H) as [O [All _]]. split.
  - intros v Hv. apply All. apply in_seq. lia.
  - apply (o_part lb' c' O).
Qed.
End Outer.
Print Assumptions all_connected_components_spec.
