From Coq Require Import List Bool Lia Arith.
Import ListNotations.
(* is_local_maximum keeps three parallel index lists and shrinks them once per footprint offset.
   The surviving indexes are exactly those that pass the test for every offset. *)
Section Shrink.
Variables (P O : Type).
Variable ok : O -> P -> bool.        (* offset o does not dominate pixel p (different label, or not larger) *)
Definition shrink (offs : list O) (l0 : list P) : list P := fold_left (fun l o => filter (ok o) l) offs l0.
Lemma filter_true (l : list P) : filter (fun _ => true) l = l.
Proof. induction l; cbn; auto. f_equal; auto. Qed.
Lemma filter_filter (f g : P -> bool) l : filter g (filter f l) = filter (fun p => f p && g p) l.
Proof.
  induction l as [|p l IH]; cbn [filter]; auto.
  destruct (f p) eqn:F; cbn [filter andb].
  - destruct (g p); rewrite IH; reflexivity.
  - exact IH.
Qed.
Theorem shrink_spec offs : forall l0, shrink offs l0 = filter (fun p => forallb (fun o => ok o p) offs) l0.
Proof.
  unfold shrink. induction offs as [|o r IH]; intros l0; cbn [fold_left forallb].
  - symmetry. apply filter_true.
  - rewrite IH. apply filter_filter.
Qed.
(* the order in which the offsets are visited (the code sorts them by distance) does not matter *)
Corollary shrink_perm offs offs' l0 : (forall o, In o offs <-> In o offs') -> shrink offs l0 = shrink offs' l0.
Proof.
  intros H. rewrite !shrink_spec. apply filter_ext. intros p.
  destruct (forallb (fun o => ok o p) offs) eqn:A, (forallb (fun o => ok o p) offs') eqn:B; auto.
  - rewrite forallb_forall in A. assert (forallb (fun o => ok o p) offs' = true) by (apply forallb_forall; intros; apply A, H; auto). congruence.
  - rewrite forallb_forall in B. assert (forallb (fun o => ok o p) offs = true) by (apply forallb_forall; intros; apply B, H; auto). congruence.
Qed.
End Shrink.

(* C19 in miniature: reads through a bounds-checked accessor on a zero-padded array never fail *)
Definition get {A} (l : list A) (k : nat) : option A := nth_error l k.
Definition padded {A} (pad : nat) (z : A) (l : list A) : list A := repeat z pad ++ l ++ repeat z pad.
Theorem padded_read_safe {A} (pad : nat) (z : A) l k d :
  k < length l -> d <= 2 * pad -> get (padded pad z l) (k + d) <> None.
Proof.
  intros Hk Hd. unfold get, padded. apply nth_error_Some. rewrite !app_length, !repeat_length. lia.
Qed.
Print Assumptions shrink_perm.
Print Assumptions padded_read_safe.
