From Coq Require Import ZArith List Bool Lia.
Import ListNotations.
Open Scope Z_scope.
(* Lock-step vectorised Bresenham of get_line_pts (one of its two passes) versus the scalar loop. *)
Record rec := { rem : Z; ci : Z; cj : Z; idx : Z; cnt : Z; di : Z; dj : Z; si : Z; sj : Z }.
(* one iteration for one line, major axis i: remainder_mask step on j, always step on i *)
Definition step1 (r : rec) : rec :=
  let take := 0 <=? rem r in
  {| rem := (if take then rem r - 2 * di r else rem r) + 2 * dj r;
     ci := ci r + si r; cj := (if take then cj r + sj r else cj r);
     idx := idx r; cnt := cnt r; di := di r; dj := dj r; si := si r; sj := sj r |}.
Fixpoint iter (n : nat) (r : rec) : rec := match n with O => r | S k => step1 (iter k r) end.
Lemma iter_cnt n r : cnt (iter n r) = cnt r. Proof. induction n; cbn; auto. Qed.
Lemma iter_idx n r : idx (iter n r) = idx r. Proof. induction n; cbn; auto. Qed.

Definition alive (n : Z) (r : rec) : bool := n <? cnt r.
(* state of the eight parallel arrays after iteration n (n >= 1), and the writes of that iteration *)
Fixpoint lock (n : nat) (recs : list rec) : list rec :=
  match n with
  | O => recs
  | S k => map step1 (filter (alive (Z.of_nat (S k))) (lock k recs))
  end.
Definition writes (n : nat) (recs : list rec) : list (Z * (Z * Z)) :=
  map (fun r => (idx r + Z.of_nat n, (ci r, cj r))) (lock n recs).

Lemma filter_map_commute {A} (f : A -> A) (p : A -> bool) l : (forall x, p (f x) = p x) ->
  filter p (map f l) = map f (filter p l).
Proof. intros H. induction l as [|a l IH]; cbn; auto. rewrite H. destruct (p a); cbn; rewrite IH; auto. Qed.
Lemma filter_filter_le (n : nat) (l : list rec) :
  filter (alive (Z.of_nat (S n))) (filter (alive (Z.of_nat n)) l) = filter (alive (Z.of_nat (S n))) l.
Proof.
  induction l as [|a l IH]; cbn [filter]; auto.
  destruct (alive (Z.of_nat n) a) eqn:E1; cbn [filter]; rewrite IH; auto.
  destruct (alive (Z.of_nat (S n)) a) eqn:E2; auto. unfold alive in *. apply Z.ltb_lt in E2. apply Z.ltb_ge in E1. lia.
Qed.

(* the compaction invariant: after n iterations the arrays hold exactly the n-fold scalar step of the lines still alive *)
Theorem lock_spec n recs : lock n recs = map (iter n) (filter (alive (Z.of_nat n)) recs) \/ n = O.
Proof.
  induction n as [|n IH]; [right; auto|left].
  cbn [lock]. destruct IH as [IH| ->].
  - rewrite IH. rewrite (filter_map_commute (iter n)) by (intros; unfold alive; rewrite iter_cnt; auto).
    rewrite filter_filter_le. rewrite map_map. reflexivity.
  - cbn [lock]. apply map_ext. intros r. reflexivity.
Qed.

(* lines in a batch are independent: the writes of iteration n are, line by line, the scalar sequence *)
Corollary writes_spec n recs : (0 < n)%nat ->
  writes n recs = map (fun r => (idx r + Z.of_nat n, (ci (iter n r), cj (iter n r)))) (filter (alive (Z.of_nat n)) recs).
Proof.
  intros Hn. unfold writes. destruct (lock_spec n recs) as [E| ->]; [|lia].
  rewrite E, map_map. apply map_ext. intros r. rewrite iter_idx. reflexivity.
Qed.
Print Assumptions writes_spec.
