"""Line-level Python transcription of centrosome.propagate (propagate.py + _propagate.pyx + heap.pxd)."""
import numpy as np, struct, math
def most_sig(value):
    b=struct.unpack("<Q",struct.pack("<d",value))[0]; hi=b>>32
    return -(hi&0x7FFFFFFF) if hi&0x80000000 else (hi&0x7FFFFFFF)
def least_sig(value,key="dropped"):
    b=struct.unpack("<Q",struct.pack("<d",value))[0]; hi=b>>32; lo=b&0xFFFFFFFF
    if key=="dropped": lo>>=1
    return -lo if hi&0x80000000 else lo
class Heap:
    def __init__(self,rows):
        self.rows=[list(r) for r in rows]   # ptrs -> rows
        self.items=len(rows)
    def smaller(self,a,b):
        ap=self.rows[a]; bp=self.rows[b]
        if ap[0]==bp[0]:
            for k in range(1,len(ap)):
                if ap[k]==bp[k]: continue
                if ap[k]<bp[k]: return True
                break
            return False
        return ap[0]<bp[0]
    def pop(self):
        dest=list(self.rows[0]); self.items-=1
        if self.items==0: return dest
        self.rows[0],self.rows[self.items]=self.rows[self.items],self.rows[0]
        i=0; smallest=0
        while True:
            l=i*2+1; r=i*2+2
            if l<self.items:
                if self.smaller(l,i): smallest=l
                if r<self.items and self.smaller(r,smallest): smallest=r
            else: break
            if smallest==i: break
            self.rows[i],self.rows[smallest]=self.rows[smallest],self.rows[i]; i=smallest
        return dest
    def push(self,e):
        child=self.items
        if child<len(self.rows): self.rows[child]=list(e)
        else: self.rows.append(list(e))
        self.items+=1
        while child>0:
            parent=(child+1)//2-1
            if self.smaller(child,parent):
                self.rows[parent],self.rows[child]=self.rows[child],self.rows[parent]; child=parent
            else: break
def cf(img,i,j,m,n):
    i=0 if i<0 else (m-1 if i>=m else i); j=0 if j<0 else (n-1 if j>=n else j)
    return img[i][j]
def dist(img,i1,j1,i2,j2,m,n,weight):
    pd=0.0
    for di in (-1,0,1):
        for dj in (-1,0,1):
            v1=cf(img,i1+di,j1+dj,m,n); v2=cf(img,i2+di,j2+dj,m,n)
            pd+= (v1-v2) if v1>v2 else (v2-v1)
    md=float(i1-i2 if i1>i2 else i2-i1); md+= float(j1-j2 if j1>j2 else j2-j1)
    return math.sqrt(pd*pd+md*weight*weight)
def propagate_model(image,labels,mask,weight,key="dropped"):
    m,n=len(image),len(image[0])
    labels_out=[[0]*n for _ in range(m)]
    distances=[[0.0 if labels[i][j]>0 else -1.0 for j in range(n)] for i in range(m)]
    rows=[[most_sig(0.0),least_sig(0.0,key),labels[i][j],i,j] for i in range(m) for j in range(n) if labels[i][j]!=0 and mask[i][j]]
    hp=Heap(rows)
    DI=(-1,-1,-1,0,0,1,1,1); DJ=(-1,0,1,-1,1,-1,0,1)
    while hp.items>0:
        e=hp.pop(); i1,j1=e[3],e[4]
        if labels_out[i1][j1]==0:
            label=e[2]; labels_out[i1][j1]=label; d0=distances[i1][j1]
            for t in range(8):
                i2=i1+DI[t]; j2=j1+DJ[t]
                if i2<0 or i2>=m or j2<0 or j2>=n: continue
                if labels_out[i2][j2]>0: continue
                if not mask[i2][j2]: continue
                d=dist(image,i1,j1,i2,j2,m,n,weight)+d0
                if distances[i2][j2]==-1 or distances[i2][j2]>d:
                    distances[i2][j2]=d
                    hp.push([most_sig(d),least_sig(d,key),label,i2,j2])
    for i in range(m):
        for j in range(n):
            if labels[i][j]>0: labels_out[i][j]=labels[i][j]
    return labels_out,distances
