From Coq Require Import List Relations.
Import ListNotations.
(* Generalised shortest paths over a monotone cost algebra (instances: Z, Q, binary64 add on non-negatives) *)
Section Algebra.
Variable K : Type.
Variable le : K -> K -> Prop.
Variable plus : K -> K -> K.
Variable zero : K.
Hypothesis le_refl : forall a, le a a.
Hypothesis le_trans : forall a b c, le a b -> le b c -> le a c.
Hypothesis plus_mono : forall a b w, le a b -> le (plus a w) (plus b w).   (* isotone *)

Variable V : Type.                     (* pixels *)
Variable edge : V -> V -> Prop.        (* admissible steps (8-adjacent, target in mask, target not a seed) *)
Variable w : V -> V -> K.              (* step cost *)
Variable seed : V -> Prop.

(* cost of a path given as the list of vertices after the start, folded from the left *)
Fixpoint pcost (acc : K) (s : V) (p : list V) : K :=
  match p with [] => acc | x :: r => pcost (plus acc (w s x)) x r end.
Fixpoint is_path (s : V) (p : list V) : Prop :=
  match p with [] => True | x :: r => edge s x /\ is_path x r end.
Fixpoint last_of (s : V) (p : list V) : V := match p with [] => s | x :: r => last_of x r end.

Variable d : V -> K.
Hypothesis seed_zero : forall s, seed s -> d s = zero.
Hypothesis no_relaxable : forall a b, edge a b -> le (d b) (plus (d a) (w a b)).

Lemma potential_step : forall p s acc, le (d s) acc -> is_path s p -> le (d (last_of s p)) (pcost acc s p).
Proof.
  induction p as [|x r IH]; intros s acc Hacc Hp; cbn [pcost is_path] in *.
  - exact Hacc.
  - destruct Hp as [He Hr].
    change (last_of s (x :: r)) with (last_of x r). apply IH; auto.
    eapply le_trans; [apply no_relaxable; exact He|]. apply plus_mono; exact Hacc.
Qed.

(* every reported distance is a lower bound of every path cost from every seed *)
Theorem potential_sound : forall s p, seed s -> is_path s p -> le (d (last_of s p)) (pcost zero s p).
Proof. intros s p Hs Hp. apply potential_step; auto. rewrite (seed_zero s Hs). apply le_refl. Qed.
End Algebra.
Print Assumptions potential_sound.
