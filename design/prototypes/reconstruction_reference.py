"""Line-level transcription of cpmorphology.grey_reconstruction + grey_reconstruction_loop (2-D)."""
import numpy as np
def recon_model(image,mask,footprint=None):
    image=np.asarray(image); mask=np.asarray(mask)
    fp=np.ones((3,3),bool) if footprint is None else np.array(footprint,bool).copy()
    off=[d//2 for d in fp.shape]; fp[off[0],off[1]]=False
    pad=[d//2 for d in fp.shape]
    H,W=image.shape; PH,PW=H+2*pad[0],W+2*pad[1]
    S=PH*PW                                   # image_stride
    vals=[float(image.min())]*(2*S)
    for i in range(H):
        for j in range(W):
            vals[(i+pad[0])*PW+(j+pad[1])]=float(image[i,j]); vals[S+(i+pad[0])*PW+(j+pad[1])]=float(mask[i,j])
    strides=[(a-off[0])*PW+(b-off[1]) for a in range(fp.shape[0]) for b in range(fp.shape[1]) if fp[a,b]]
    order=sorted(range(2*S),key=lambda k:(-vals[k],k))       # np.lexsort([-values]) is stable
    prev=[-1]*(2*S); nxt=[-1]*(2*S)
    for a,b in zip(order[:-1],order[1:]): prev[b]=a; nxt[a]=b
    distinct=sorted(set(vals)); rank={v:r for r,v in enumerate(distinct)}
    values=[rank[v] for v in vals]
    cur=order[0]; oob=False
    while cur!=-1:
        if cur<S:
            cv=values[cur]
            if cv==0: break
            for s in strides:
                nb=cur+s
                if nb<0 or nb>=2*S: oob=True; raise IndexError("oob")
                nv=values[nb]
                if nv<cv:
                    mv=values[nb+S]
                    if nv<mv:
                        if mv<cv: link=nb+S; values[nb]=mv
                        else: link=cur; values[nb]=cv
                        np_=prev[nb]; nn=nxt[nb]
                        nxt[np_]=nn
                        if nn!=-1: prev[nn]=np_
                        nn=nxt[link]; nxt[nb]=nn; prev[nb]=link
                        if nn>=0: prev[nn]=nb; nxt[link]=nb
                        else: raise AssertionError("link is the tail: node dropped")
        cur=nxt[cur]
    out=np.array([distinct[values[k]] for k in range(S)]).reshape(PH,PW)
    return out[pad[0]:PH-pad[0],pad[1]:PW-pad[1]]
