From Coq Require Import QArith Lqa.
Open Scope Q_scope.
(* squared distance *)
Definition d2 (px py cx cy : Q) : Q := (px - cx) * (px - cx) + (py - cy) * (py - cy).

(* Weighted-sum identity: if c is the a-weighted barycentre of P1,P2,P3 then for every c'
   sum a_i |P_i - c'|^2 = sum a_i |P_i - c|^2 + (sum a_i) |c - c'|^2 *)
Lemma weighted_identity x1 y1 x2 y2 x3 y3 a1 a2 a3 cx cy ex ey :
  a1 * (x1 - cx) + a2 * (x2 - cx) + a3 * (x3 - cx) == 0 ->
  a1 * (y1 - cy) + a2 * (y2 - cy) + a3 * (y3 - cy) == 0 ->
  a1 * d2 x1 y1 ex ey + a2 * d2 x2 y2 ex ey + a3 * d2 x3 y3 ex ey ==
  a1 * d2 x1 y1 cx cy + a2 * d2 x2 y2 cx cy + a3 * d2 x3 y3 cx cy + (a1 + a2 + a3) * d2 cx cy ex ey.
Proof.
  intros Hx Hy. unfold d2.
  assert (E : forall px py, d2 px py ex ey == d2 px py cx cy + 2 * ((px - cx) * (cx - ex) + (py - cy) * (cy - ey)) + d2 cx cy ex ey)
    by (intros; unfold d2; ring).
  unfold d2 in E. rewrite (E x1 y1), (E x2 y2), (E x3 y3).
  setoid_replace (a1 * ((x1 - cx) * (x1 - cx) + (y1 - cy) * (y1 - cy) + 2 * ((x1 - cx) * (cx - ex) + (y1 - cy) * (cy - ey)) + ((cx - ex) * (cx - ex) + (cy - ey) * (cy - ey))) +
     a2 * ((x2 - cx) * (x2 - cx) + (y2 - cy) * (y2 - cy) + 2 * ((x2 - cx) * (cx - ex) + (y2 - cy) * (cy - ey)) + ((cx - ex) * (cx - ex) + (cy - ey) * (cy - ey))) +
     a3 * ((x3 - cx) * (x3 - cx) + (y3 - cy) * (y3 - cy) + 2 * ((x3 - cx) * (cx - ex) + (y3 - cy) * (cy - ey)) + ((cx - ex) * (cx - ex) + (cy - ey) * (cy - ey))))
  with (a1 * ((x1 - cx) * (x1 - cx) + (y1 - cy) * (y1 - cy)) + a2 * ((x2 - cx) * (x2 - cx) + (y2 - cy) * (y2 - cy)) + a3 * ((x3 - cx) * (x3 - cx) + (y3 - cy) * (y3 - cy))
        + 2 * (cx - ex) * (a1 * (x1 - cx) + a2 * (x2 - cx) + a3 * (x3 - cx))
        + 2 * (cy - ey) * (a1 * (y1 - cy) + a2 * (y2 - cy) + a3 * (y3 - cy))
        + (a1 + a2 + a3) * ((cx - ex) * (cx - ex) + (cy - ey) * (cy - ey))) by ring.
  rewrite Hx, Hy. ring.
Qed.

Lemma sq_nonneg (t : Q) : 0 <= t * t.
Proof.
  destruct (Qlt_le_dec t 0) as [L|L].
  - setoid_replace (t * t) with ((- t) * (- t)) by ring. apply Qmult_le_0_compat; lra.
  - apply Qmult_le_0_compat; lra.
Qed.

(* Certificate => minimality. Covers the diameter case with a3 = 0. *)
Theorem mec_certificate x1 y1 x2 y2 x3 y3 a1 a2 a3 cx cy R :
  0 <= a1 -> 0 <= a2 -> 0 <= a3 -> 0 < a1 + a2 + a3 ->
  a1 * (x1 - cx) + a2 * (x2 - cx) + a3 * (x3 - cx) == 0 ->
  a1 * (y1 - cy) + a2 * (y2 - cy) + a3 * (y3 - cy) == 0 ->
  (0 < a1 -> d2 x1 y1 cx cy == R) -> (0 < a2 -> d2 x2 y2 cx cy == R) -> (0 < a3 -> d2 x3 y3 cx cy == R) ->
  forall ex ey rho,
    d2 x1 y1 ex ey <= rho -> d2 x2 y2 ex ey <= rho -> d2 x3 y3 ex ey <= rho -> R <= rho.
Proof.
  intros H1 H2 H3 Hs Hx Hy R1 R2 R3 ex ey rho B1 B2 B3.
  pose proof (weighted_identity x1 y1 x2 y2 x3 y3 a1 a2 a3 cx cy ex ey Hx Hy) as Id.
  assert (N : 0 <= d2 cx cy ex ey) by (unfold d2; pose proof (sq_nonneg (cx - ex)); pose proof (sq_nonneg (cy - ey)); lra).
  assert (T1 : a1 * d2 x1 y1 cx cy == a1 * R).
  { destruct (Qlt_le_dec 0 a1) as [L|L]; [rewrite (R1 L); reflexivity|]. assert (a1 == 0) by lra. rewrite H; ring. }
  assert (T2 : a2 * d2 x2 y2 cx cy == a2 * R).
  { destruct (Qlt_le_dec 0 a2) as [L|L]; [rewrite (R2 L); reflexivity|]. assert (a2 == 0) by lra. rewrite H; ring. }
  assert (T3 : a3 * d2 x3 y3 cx cy == a3 * R).
  { destruct (Qlt_le_dec 0 a3) as [L|L]; [rewrite (R3 L); reflexivity|]. assert (a3 == 0) by lra. rewrite H; ring. }
  rewrite T1, T2, T3 in Id.
  set (S := a1 + a2 + a3) in *.
  assert (U : a1 * d2 x1 y1 ex ey + a2 * d2 x2 y2 ex ey + a3 * d2 x3 y3 ex ey <= S * rho) by (unfold S; nra).
  assert (L : S * R <= S * rho) by (unfold S in *; nra).
  nra.
Qed.
Print Assumptions mec_certificate.
