From Coq Require Import List Arith Lia Bool.
Require Import Dfs.
Import ListNotations.
(* Termination of the explicit-stack DFS: a potential that drops at every iteration. *)
Section Fuel.
Variable adj : nat -> list nat.
Variable vs : list nat.                       (* the vertex universe 0..n-1 *)
Hypothesis vs_nodup : NoDup vs.
Hypothesis adj_in : forall u v, In u vs -> In v (adj u) -> In v vs.
Variable c : nat.

Definition wt (s : st) (v : nat) : nat :=
  match lab s v with
  | None => 2 * length (adj v) + 1
  | Some k => if Nat.eqb k c then 2 * (length (adj v) - cur s v) else 0
  end.
Fixpoint sumw (f : nat -> nat) (l : list nat) : nat := match l with [] => 0 | x :: r => f x + sumw f r end.
Definition mu (s : st) : nat := sumw (wt s) vs + length (stack s).

Lemma sumw_ext f g l : (forall x, In x l -> f x = g x) -> sumw f l = sumw g l.
Proof.
  induction l as [|a l IH]; cbn [sumw]; intros H; auto.
  rewrite (H a) by (left; auto). rewrite IH; [reflexivity|]. intros x Hx. apply H. right; auto.
Qed.
(* changing the weight of one vertex of a duplicate-free list *)
Lemma sumw_change f g l x : NoDup l -> In x l -> (forall y, y <> x -> f y = g y) ->
  sumw f l + g x = sumw g l + f x.
Proof.
  induction 1 as [|a r Ha ND IH]; intros Hx Hfg; [destruct Hx|]. cbn [sumw].
  destruct Hx as [->|Hx].
  - rewrite (sumw_ext f g r); [lia|]. intros y Hy. apply Hfg. intros ->. contradiction.
  - specialize (IH Hx Hfg). rewrite (Hfg a) by (intros ->; contradiction). lia.
Qed.

(* the step only changes lab/cur at the top of the stack *)
Lemma step_decreases s : stack s <> [] -> (forall v, In v (stack s) -> In v vs) ->
  (forall v, In v (stack s) -> lab s v = None \/ lab s v = Some c) ->
  (forall v, lab s v = Some c -> cur s v <= length (adj v)) ->
  mu (step adj c s) < mu s /\ (forall v, In v (stack (step adj c s)) -> In v vs).
Proof.
  intros NE Hin Hst Hcur. unfold step. destruct (stack s) as [|vv rest] eqn:ES; [congruence|]. clear NE.
  assert (Ivv : In vv vs) by (apply Hin; left; auto).
  assert (Lvv : lab s vv = None \/ lab s vv = Some c) by (apply Hst; left; auto).
  set (lab1 := match lab s vv with None => upd (lab s) vv (Some c) | Some _ => lab s end).
  set (cur1 := match lab s vv with None => upd (cur s) vv 0 | Some _ => cur s end).
  assert (L1 : lab1 vv = Some c).
  { unfold lab1. destruct Lvv as [E|E]; rewrite E; [apply upd_same|exact E]. }
  assert (L2 : forall y, y <> vv -> lab1 y = lab s y).
  { intros y Hy. unfold lab1. destruct (lab s vv); auto. apply upd_other; auto. }
  assert (C2 : forall y, y <> vv -> cur1 y = cur s y).
  { intros y Hy. unfold cur1. destruct (lab s vv); auto. apply upd_other; auto. }
  assert (C1 : cur1 vv <= length (adj vv) /\ (lab s vv = None -> cur1 vv = 0) /\ (lab s vv = Some c -> cur1 vv = cur s vv)).
  { unfold cur1. destruct Lvv as [E|E]; rewrite E.
    - rewrite upd_same. split; [lia|]. split; [auto|intros; discriminate].
    - split; [apply Hcur; auto|]. split; [intros; discriminate|auto]. }
  destruct C1 as [C1 [C1a C1b]].
  (* weight of vv before the step, in terms of cur1 *)
  assert (Wvv : wt s vv >= 2 * (length (adj vv) - cur1 vv)).
  { unfold wt. destruct Lvv as [E|E]; rewrite E; [lia|]. rewrite Nat.eqb_refl, (C1b E). lia. }
  (* generic comparison for a successor state that differs from s only at vv *)
  assert (G : forall s', lab s' = lab1 -> (forall y, y <> vv -> cur s' y = cur s y) ->
              sumw (wt s') vs + wt s vv = sumw (wt s) vs + wt s' vv).
  { intros s' E1 E2. apply sumw_change; auto. intros y Hy. unfold wt. rewrite E1, (L2 y Hy).
    destruct (lab s y) as [k|]; [|reflexivity]. destruct (Nat.eqb k c); [rewrite (E2 y Hy)|]; reflexivity. }
  unfold mu. rewrite ES. destruct (Nat.ltb (cur1 vv) (length (adj vv))) eqn:LT.
  - apply Nat.ltb_lt in LT. set (v1 := nth (cur1 vv) (adj vv) 0).
    assert (Iv1 : In v1 vs) by (apply (adj_in vv); auto; apply nth_In; auto).
    set (cur2 := upd cur1 vv (S (cur1 vv))).
    assert (E2 : forall y, y <> vv -> cur2 y = cur s y) by (intros; unfold cur2; rewrite upd_other; auto).
    assert (Wn : forall s', lab s' = lab1 -> cur s' = cur2 -> wt s' vv = 2 * (length (adj vv) - S (cur1 vv))).
    { intros s' A B. unfold wt. rewrite A, L1, Nat.eqb_refl, B. unfold cur2. rewrite upd_same. reflexivity. }
    destruct (lab1 v1) eqn:Q; cbn [stack lab cur].
    + set (s' := {| lab := lab1; cur := cur2; stack := vv :: rest |}).
      pose proof (G s' eq_refl E2) as Gs. pose proof (Wn s' eq_refl eq_refl) as Ws.
      split; [cbn [length] in *; lia|]. intros v Hv. apply Hin. exact Hv.
    + set (s' := {| lab := lab1; cur := cur2; stack := v1 :: vv :: rest |}).
      pose proof (G s' eq_refl E2) as Gs. pose proof (Wn s' eq_refl eq_refl) as Ws.
      split; [cbn [length] in *; lia|]. intros v [<-|Hv]; auto.
  - apply Nat.ltb_ge in LT. cbn [stack lab cur].
    set (s' := {| lab := lab1; cur := cur1; stack := rest |}).
    pose proof (G s' eq_refl C2) as Gs.
    assert (Ws : wt s' vv = 2 * (length (adj vv) - cur1 vv)).
    { unfold wt, s'. cbn [lab cur]. rewrite L1, Nat.eqb_refl. reflexivity. }
    split; [cbn [length] in *; lia|]. intros v Hv. apply Hin. right; exact Hv.
Qed.
End Fuel.
Print Assumptions step_decreases.
