From Coq Require Import ZArith List Arith Lia.
Import ListNotations.
Open Scope Z_scope.
(* NumPy grouping idioms used by the per-object measurements *)
Fixpoint zsum (l : list Z) : Z := match l with [] => 0 | x :: r => x + zsum r end.
(* np.bincount(labels, weights): entry l is the sum of the weights of the positions labelled l *)
Definition bincount_at (pairs : list (nat * Z)) (l : nat) : Z :=
  zsum (map snd (filter (fun p => Nat.eqb (fst p) l) pairs)).

(* per-group independence: changing positions whose label is not l (to labels that are not l) does not change entry l *)
Theorem bincount_group pairs pairs' l :
  filter (fun p => Nat.eqb (fst p) l) pairs = filter (fun p => Nat.eqb (fst p) l) pairs' ->
  bincount_at pairs l = bincount_at pairs' l.
Proof. unfold bincount_at. intros ->. reflexivity. Qed.

Lemma filter_other_removed l (pairs : list (nat * Z)) (keep : nat * Z -> bool) :
  (forall p, fst p = l -> keep p = true) ->
  filter (fun p => Nat.eqb (fst p) l) (filter keep pairs) = filter (fun p => Nat.eqb (fst p) l) pairs.
Proof.
  intros H. induction pairs as [|p r IH]; cbn [filter]; auto.
  destruct (keep p) eqn:K; cbn [filter]; rewrite IH; auto.
  destruct (Nat.eqb_spec (fst p) l) as [E|N]; auto. rewrite (H p E) in K. discriminate.
Qed.
(* removing every other object leaves the measurement of l unchanged *)
Corollary bincount_alone pairs l : bincount_at (filter (fun p => Nat.eqb (fst p) l) pairs) l = bincount_at pairs l.
Proof. apply bincount_group. apply filter_other_removed. intros p E. apply Nat.eqb_eq; auto. Qed.

(* renumbering labels by an injective map moves the entry with the label *)
Theorem bincount_relabel (f : nat -> nat) pairs l : (forall a b, f a = f b -> a = b) ->
  bincount_at (map (fun p => (f (fst p), snd p)) pairs) (f l) = bincount_at pairs l.
Proof.
  intros Inj. unfold bincount_at. induction pairs as [|p r IH]; cbn [map filter fst snd]; auto.
  destruct (Nat.eqb_spec (f (fst p)) (f l)) as [E|N], (Nat.eqb_spec (fst p) l) as [E'|N']; cbn [map zsum snd].
  - rewrite IH; auto.
  - apply Inj in E. contradiction.
  - subst. contradiction.
  - auto.
Qed.

(* anti-index table: anti[indexes[k]] = k for a duplicate-free request list *)
Fixpoint pos_of (x : nat) (l : list nat) : option nat :=
  match l with [] => None | y :: r => if Nat.eqb x y then Some O else option_map S (pos_of x r) end.
Theorem anti_index_correct idxs k d : NoDup idxs -> (k < length idxs)%nat -> pos_of (nth k idxs d) idxs = Some k.
Proof.
  intros ND. revert k. induction ND as [|y r Hy ND IH]; intros k Hk; cbn [length] in Hk; [lia|].
  destruct k as [|k]; cbn [nth pos_of]; [rewrite Nat.eqb_refl; auto|].
  destruct (Nat.eqb_spec (nth k r d) y) as [E|N].
  - exfalso. apply Hy. rewrite <- E. apply nth_In. lia.
  - rewrite IH by lia. reflexivity.
Qed.
Print Assumptions bincount_relabel.
Print Assumptions anti_index_correct.
