import itertools, sys
def CONVEX(a,b,c):
    ab_i=b[0]-a[0]; ab_j=b[1]-a[1]; bc_i=c[0]-b[0]; bc_j=c[1]-b[1]
    cross=ab_j*bc_i-bc_j*ab_i
    if cross>0: return 1
    if cross<0: return 0
    return 1 if (b[1]>a[1] and b[1]>c[1]) else 0
def hull_label(pts, slack, max_i):
    # pts sorted by (j,i); returns emitted list; slack = start_idx - outidx
    nv=len(pts); start_j=pts[0][1]; end_j=pts[-1][1]
    upper={j:-1 for j in range(start_j,end_j+1)}; lower={j:max_i+1 for j in range(start_j,end_j+1)}
    for (i,j) in pts:
        if upper[j]<i: upper[j]=i
        if lower[j]>i: lower[j]=i
    out=[]; cap=slack+nv   # pixidx-outidx
    need_last=(lower[start_j]!=upper[start_j])
    blocked=0
    for j in range(start_j,end_j+1):
        if lower[j]<max_i+1:
            while len(out)>=2 and not CONVEX(out[-2],out[-1],(lower[j],j)): out.pop()
            out.append((lower[j],j))
    for j in range(end_j,start_j,-1):
        if upper[j]>-1:
            while len(out)>=2 and not CONVEX(out[-2],out[-1],(upper[j],j)): out.pop()
            if cap>len(out): out.append((upper[j],j))
            else: blocked+=1
    while len(out)>=2 and not CONVEX(out[-2],out[-1],(upper[start_j],start_j)): out.pop()
    if need_last: out.append((upper[start_j],start_j))
    return out,blocked
if __name__=="__main__":
    H,W=int(sys.argv[1]),int(sys.argv[2])
    cells=[(i,j) for j in range(W) for i in range(H)]  # sorted by j then i
    diff=0; nblocked=0; tot=0; over=0
    for bits in range(1,1<<(H*W)):
        pts=[cells[k] for k in range(H*W) if (bits>>k)&1]
        a,b0=hull_label(pts,0,H-1); b,b1=hull_label(pts,1000,H-1)
        tot+=1
        if b0: nblocked+=1
        if a!=b: diff+=1; 
        if len(a)>len(pts): over+=1
    print(H,W,"sets",tot,"guard fired (slack 0)",nblocked,"results differ",diff,"overflow",over)
