From Coq Require Import ZArith List Bool Lia.
Open Scope Z_scope.

Definition px := (Z * Z)%type.
Definition image := px -> Z.
Definition truthy (z : Z) : bool := negb (z =? 0).
Definition dist (p q : px) : Z := Z.max (Z.abs (fst p - fst q)) (Z.abs (snd p - snd q)).

(* array programs over one input image and one mask *)
Inductive expr :=
| Img | MaskE | Const (c : Z)
| Erode (r : nat) (m : expr)                 (* 1 where every pixel within r is truthy in m *)
| Pw1 (f : nat) (e : expr) | Pw2 (f : nat) (e1 e2 : expr)
| Loc (r : nat) (f : nat) (e : expr)         (* library op, local with radius r *)
| Glob1 (f : nat) (e : expr) | Glob2 (f : nat) (e1 e2 : expr)  (* arbitrary pure library op *)
| Select (e1 m e2 : expr).                   (* e1 where m truthy else e2 *)

Record interp := {
  pw1 : nat -> Z -> Z; pw2 : nat -> Z -> Z -> Z;
  loc : nat -> nat -> image -> image;
  glob1 : nat -> image -> image; glob2 : nat -> image -> image -> image;
  erode : nat -> image -> image;
  (* declared behaviour of the library symbols *)
  loc_local : forall r f a b p, (forall q, dist p q <= Z.of_nat r -> a q = b q) -> loc r f a p = loc r f b p;
  glob1_ext : forall f a b, (forall q, a q = b q) -> forall p, glob1 f a p = glob1 f b p;
  glob2_ext : forall f a b a' b', (forall q, a q = b q) -> (forall q, a' q = b' q) -> forall p, glob2 f a a' p = glob2 f b b' p;
  erode_local : forall r a b p, (forall q, dist p q <= Z.of_nat r -> a q = b q) -> erode r a p = erode r b p;
  erode_guarantee : forall r a p, truthy (erode r a p) = true -> forall q, dist p q <= Z.of_nat r -> truthy (a q) = true }.

Section Sem.
Variable I : interp.
Variable mask : px -> bool.
Fixpoint eval (e : expr) (img : image) : image :=
  match e with
  | Img => img
  | MaskE => fun p => if mask p then 1 else 0
  | Const c => fun _ => c
  | Erode r m => erode I r (eval m img)
  | Pw1 f e => fun p => pw1 I f (eval e img p)
  | Pw2 f e1 e2 => fun p => pw2 I f (eval e1 img p) (eval e2 img p)
  | Loc r f e => loc I r f (eval e img)
  | Glob1 f e => glob1 I f (eval e img)
  | Glob2 f e1 e2 => glob2 I f (eval e1 img) (eval e2 img)
  | Select e1 m e2 => fun p => if truthy (eval m img p) then eval e1 img p else eval e2 img p
  end.

(* radius lattice: None = clean (no dependence on pixels outside the mask) *)
Definition rad := option nat.
Definition rmax (a b : rad) : rad :=
  match a, b with None, x | x, None => x | Some x, Some y => Some (Nat.max x y) end.
Definition rle (a : rad) (n : nat) : bool := match a with None => true | Some x => Nat.leb x n end.

(* guarantee of a selector: truthy at p => every pixel within g of p is inside the mask *)
Fixpoint guar (m : expr) : option nat :=
  match m with
  | MaskE => Some 0%nat
  | Erode r m' => match guar m' with Some g => Some (g + r)%nat | None => None end
  | _ => None
  end.

(* the checker: Some r = depends on img outside the mask only within radius r; None (outer) = reject *)
Fixpoint rb (e : expr) : option rad :=
  match e with
  | Img => Some (Some 0%nat)
  | MaskE | Const _ => Some None
  | Erode r m => match rb m with Some None => Some None | Some (Some k) => Some (Some (k + r)%nat) | None => None end
  | Pw1 _ e => rb e
  | Pw2 _ e1 e2 => match rb e1, rb e2 with Some a, Some b => Some (rmax a b) | _, _ => None end
  | Loc r _ e => match rb e with Some None => Some None | Some (Some k) => Some (Some (k + r)%nat) | None => None end
  | Glob1 _ e => match rb e with Some None => Some None | _ => None end
  | Glob2 _ e1 e2 => match rb e1, rb e2 with Some None, Some None => Some None | _, _ => None end
  | Select e1 m e2 =>
      match rb e1, rb m, rb e2 with
      | Some a, Some b, Some c =>
          let a' := match guar m with
                    | Some g => if rle a g then None else a
                    | None => a end in
          Some (rmax a' (rmax b c))
      | _, _, _ => None
      end
  end.

Definition agree_on_mask (a b : image) : Prop := forall q, mask q = true -> a q = b q.
Definition dep (r : rad) (e : expr) : Prop :=
  forall a b, agree_on_mask a b -> forall p,
    match r with None => True | Some k => forall q, dist p q <= Z.of_nat k -> a q = b q end ->
    eval e a p = eval e b p.

Definition rsub (a b : rad) : Prop :=
  match a with None => True | Some x => match b with Some y => (x <= y)%nat | None => False end end.
Lemma dep_weaken r r' e : dep r e -> rsub r r' -> dep r' e.
Proof.
  unfold dep, rsub; intros H L a b Hab p Hp. apply H; auto.
  destruct r as [x|]; auto. destruct r' as [y|]; [|contradiction]. intros q Hq; apply Hp; lia.
Qed.
Lemma rmax_l a b : rsub a (rmax a b).
Proof. destruct a, b; cbn; auto; lia. Qed.
Lemma rmax_r a b : rsub b (rmax a b).
Proof. destruct a, b; cbn; auto; lia. Qed.
Lemma rsub_trans a b c : rsub a b -> rsub b c -> rsub a c.
Proof. destruct a, b, c; cbn; auto; try lia; tauto. Qed.

Lemma guar_sound m g : guar m = Some g -> forall a p, truthy (eval m a p) = true ->
  forall q, dist p q <= Z.of_nat g -> mask q = true.
Proof.
  revert g; induction m; cbn [guar]; intros g Hg; try discriminate.
  - inversion Hg; subst. intros a p Hp q Hq. cbn [eval] in Hp.
    assert (q = p). { unfold dist in Hq. destruct p, q; cbn [fst snd] in *. f_equal; lia. }
    subst. destruct (mask p); auto.
  - destruct (guar m) as [g0|] eqn:E; [|discriminate]. inversion Hg; subst.
    intros a p Hp q Hq. cbn [eval] in Hp.
    (* pick the intermediate pixel: clamp q towards p by r *)
    set (qi := (fst p + Z.max (- Z.of_nat r) (Z.min (Z.of_nat r) (fst q - fst p)),
                snd p + Z.max (- Z.of_nat r) (Z.min (Z.of_nat r) (snd q - snd p)))).
    assert (D1 : dist p qi <= Z.of_nat r) by (unfold dist, qi in *; cbn [fst snd]; lia).
    assert (D2 : dist qi q <= Z.of_nat g0) by (unfold dist, qi in *; cbn [fst snd] in *; lia).
    eapply (IHm g0 eq_refl a qi); [|exact D2].
    eapply erode_guarantee; eauto.
Qed.

Theorem rb_sound e : forall r, rb e = Some r -> dep r e.
Proof.
  induction e; cbn [rb]; intros rr H.
  - inversion H; subst. intros a b Hab p Hp. cbn. apply Hp. unfold dist; destruct p; cbn; lia.
  - inversion H; subst. intros a b Hab p Hp. reflexivity.
  - inversion H; subst. intros a b Hab p Hp. reflexivity.
  - (* Erode *) destruct (rb e) as [[k|]|] eqn:E; inversion H; subst; intros a b Hab p Hp; cbn [eval].
    + apply erode_local. intros q Hq. apply (IHe _ eq_refl a b Hab q). intros q' Hq'. apply Hp.
      unfold dist in *; lia.
    + apply erode_local. intros q Hq. apply (IHe _ eq_refl a b Hab q). exact Logic.I.
  - (* Pw1 *) intros a b Hab p Hp. cbn [eval]. f_equal. apply (IHe _ H a b Hab p Hp).
  - (* Pw2 *) destruct (rb e1) as [x|] eqn:E1; [|discriminate]. destruct (rb e2) as [y|] eqn:E2; [|discriminate].
    inversion H; subst. intros a b Hab p Hp. cbn [eval]. f_equal.
    + apply (dep_weaken x (rmax x y) e1 (IHe1 _ eq_refl) (rmax_l x y) a b Hab p Hp).
    + apply (dep_weaken y (rmax x y) e2 (IHe2 _ eq_refl) (rmax_r x y) a b Hab p Hp).
  - (* Loc *) destruct (rb e) as [[k|]|] eqn:E; inversion H; subst; intros a b Hab p Hp; cbn [eval].
    + apply loc_local. intros q Hq. apply (IHe _ eq_refl a b Hab q). intros q' Hq'. apply Hp. unfold dist in *; lia.
    + apply loc_local. intros q Hq. apply (IHe _ eq_refl a b Hab q). exact Logic.I.
  - (* Glob1 *) destruct (rb e) as [[k|]|] eqn:E; inversion H; subst. intros a b Hab p Hp; cbn [eval].
    apply glob1_ext. intros q. apply (IHe _ eq_refl a b Hab q). exact Logic.I.
  - (* Glob2 *) destruct (rb e1) as [[k|]|] eqn:E1; try discriminate. destruct (rb e2) as [[k|]|] eqn:E2; try discriminate.
    inversion H; subst. intros a b Hab p Hp; cbn [eval].
    apply glob2_ext; intros q; [apply (IHe1 _ eq_refl a b Hab q) | apply (IHe2 _ eq_refl a b Hab q)]; exact Logic.I.
  - (* Select *)
    destruct (rb e1) as [x|] eqn:E1; [|discriminate]. destruct (rb e2) as [y|] eqn:E2; [|discriminate].
    destruct (rb e3) as [z|] eqn:E3; [|discriminate]. inversion H; subst; clear H.
    set (x' := match guar e2 with Some g => if rle x g then None else x | None => x end).
    set (R := rmax x' (rmax y z)).
    intros a b Hab p Hp. cbn [eval].
    assert (Sy : rsub y R) by (eapply rsub_trans; [apply rmax_l | apply rmax_r]).
    assert (Sz : rsub z R) by (eapply rsub_trans; [apply rmax_r | apply rmax_r]).
    assert (Sx' : rsub x' R) by apply rmax_l.
    assert (Hm : eval e2 a p = eval e2 b p) by (apply (dep_weaken y R e2 (IHe2 _ eq_refl) Sy a b Hab p Hp)).
    rewrite <- Hm. destruct (truthy (eval e2 a p)) eqn:Tm.
    + unfold x' in Sx'. destruct (guar e2) as [g|] eqn:G.
      * destruct (rle x g) eqn:RL.
        -- apply (IHe1 _ eq_refl a b Hab p). destruct x as [k|]; auto.
           intros q Hq. apply Hab. eapply (guar_sound e2 g G a p Tm). cbn [rle] in RL. apply Nat.leb_le in RL. lia.
        -- apply (dep_weaken x R e1 (IHe1 _ eq_refl) Sx' a b Hab p Hp).
      * apply (dep_weaken x R e1 (IHe1 _ eq_refl) Sx' a b Hab p Hp).
    + apply (dep_weaken z R e3 (IHe3 _ eq_refl) Sz a b Hab p Hp).
Qed.

(* the property: a program accepted at radius <= 0 is non-interfering inside the mask *)
Theorem maskflow_sound e r : rb e = Some r -> rle r 0 = true ->
  forall a b, agree_on_mask a b -> forall p, mask p = true -> eval e a p = eval e b p.
Proof.
  intros H L a b Hab p Hp. apply (rb_sound e r H a b Hab p).
  destruct r as [k|]; auto. cbn [rle] in L. apply Nat.leb_le in L.
  intros q Hq. assert (q = p). { unfold dist in Hq. destruct p, q; cbn [fst snd] in *. f_equal; lia. }
  subst; auto.
Qed.
End Sem.

(* examples: the grey-morphology idiom and the gradient idiom type-check; a leaky program does not *)
Example grey_idiom : rb (Select (Glob1 0 (Select Img MaskE (Const 1))) MaskE Img) = Some (Some 0%nat).
Proof. reflexivity. Qed.
Example sobel_idiom : rb (Select (Pw1 0 (Loc 1 0 Img)) (Erode 1 MaskE) (Const 0)) = Some None.
Proof. reflexivity. Qed.
Example leaky : rb (Select (Glob1 0 Img) MaskE Img) = None.
Proof. reflexivity. Qed.
Example leaky2 : rb (Select (Loc 2 0 Img) (Erode 1 MaskE) (Const 0)) = Some (Some 2%nat).
Proof. reflexivity. Qed.
Print Assumptions maskflow_sound.
