"""Prototype: translate centrosome functions (Python ast) to the mask-flow DSL of design/prototypes/MaskFlow.v.
Symbolic evaluation of the function body on the branch `mask is not None`; fail-closed."""
import ast, inspect, sys, textwrap
class Unsupported(Exception): pass
# DSL terms as tuples
Img=("Img",); MaskE=("MaskE",)
def Const(c): return ("Const",c)
def Pw(f,*es): return ("Pw",f)+tuple(es)
def Loc(r,f,e): return ("Loc",r,f,e)
def Glob(f,*es): return ("Glob",f)+tuple(es)
def Erode(r,m): return ("Erode",r,m)
def Select(e1,m,e2): return ("Select",e1,m,e2)
def Not(m): return ("Not",m)
POINTWISE={"abs","sqrt","logical_not","logical_and","logical_or","astype","copy","array","ascontiguousarray","minimum","maximum","clip","exp2","log2","isnan","where","real","float","bool"}
LOCAL={"convolve":None}  # radius from kernel literal
GLOBAL={"table_lookup","grey_erosion","grey_dilation","gaussian_filter","label","distance_transform_edt","median_filter","rank_order","lstsq","sum","max","min","any","all","mean"}
class Interp(ast.NodeVisitor):
    def __init__(self, src_globals, params):
        self.env={}; self.g=src_globals; self.params=params; self.ret=None
    def name_of_call(self,f):
        if isinstance(f,ast.Name): return f.id
        if isinstance(f,ast.Attribute): return f.attr
        raise Unsupported(ast.dump(f))
    def is_scalar(self,t): return isinstance(t,tuple) and t and t[0]=="Const"
    def ev(self,n):
        if isinstance(n,ast.Name):
            if n.id in self.env: return self.env[n.id]
            if n.id in ("True","False","None"): return Const(n.id)
            return Const("$"+n.id)            # module constant / table
        if isinstance(n,ast.Constant): return Const(repr(n.value))
        if isinstance(n,ast.UnaryOp):
            t=self.ev(n.operand)
            if isinstance(n.op,ast.Invert) or isinstance(n.op,ast.Not): return Not(t) if not self.is_scalar(t) else Const("~")
            return Pw("neg",t) if not self.is_scalar(t) else Const("-")
        if isinstance(n,(ast.BinOp,ast.Compare,ast.BoolOp)):
            parts=[n.left,n.right] if isinstance(n,ast.BinOp) else ([n.left]+n.comparators if isinstance(n,ast.Compare) else n.values)
            ts=[self.ev(p) for p in parts]
            arr=[t for t in ts if not self.is_scalar(t)]
            if not arr: return Const("expr")
            # comparison of a mask-valued term with False: treat as Not
            if isinstance(n,ast.Compare) and len(arr)==1 and isinstance(n.ops[0],ast.Eq) and ts[1]==Const("False"): return Not(arr[0])
            return Pw(type(n.op if isinstance(n,ast.BinOp) else (n.ops[0] if isinstance(n,ast.Compare) else n.op)).__name__.lower(),*arr)
        if isinstance(n,ast.Subscript):
            base=self.ev(n.value)
            if self.is_scalar(base): return Const("idx")
            sl=n.slice
            if isinstance(sl,(ast.Slice,ast.Tuple)) and all(isinstance(e,ast.Slice) for e in (sl.elts if isinstance(sl,ast.Tuple) else [sl])):
                return ("Crop",base)          # coordinate shift; handled as pointwise with tracked offset in the real translator
            idx=self.ev(sl)
            return ("Gather",base,idx)        # x[m]: values of x where m
        if isinstance(n,ast.Call):
            f=self.name_of_call(n.func)
            args=[self.ev(a) for a in n.args]
            if isinstance(n.func,ast.Attribute) and not (isinstance(n.func.value,ast.Name) and n.func.value.id in ("np","numpy","scind","scipy")):
                args=[self.ev(n.func.value)]+args       # method call: receiver first
            kws={k.arg:self.ev(k.value) for k in n.keywords}
            arr=[t for t in args if not self.is_scalar(t)]
            if f in ("zeros","ones","zeros_like","ones_like","generate_binary_structure","mgrid","arange"): return Const(f)
            if f=="binary_erosion":
                if kws.get("border_value")!=Const("0"): raise Unsupported("binary_erosion without border_value=0")
                return Erode(1,arr[0])
            if f in POINTWISE: return Pw(f,*arr) if arr else Const(f)
            if f=="convolve": return Loc(1,"convolve3x3",arr[0])   # radius read from the kernel literal in the real translator
            if f in GLOBAL: return Glob(f,*arr) if arr else Const(f)
            raise Unsupported("call "+f)
        if isinstance(n,ast.Attribute):
            if n.attr in ("shape","dtype","ndim"): return Const(n.attr)
            raise Unsupported("attr "+n.attr)
        if isinstance(n,(ast.Tuple,ast.List)): return Const("seq")
        raise Unsupported(type(n).__name__)
    def assign_sub(self,target,value):
        # x[sel] = value
        name=target.value.id; cur=self.env.get(name)
        if cur is None: raise Unsupported("store into unknown "+name)
        sel=self.ev(target.slice); v=self.ev(value)
        if isinstance(v,tuple) and v[0]=="Gather" and v[2]==sel: v=v[1]      # x[sel] = y[sel]
        if sel[0]=="Not": self.env[name]=Select(cur,sel[1],v)
        else: self.env[name]=Select(v,sel,cur)
    def run(self,body):
        for st in body:
            if isinstance(st,ast.Expr) and isinstance(st.value,ast.Constant): continue   # docstring
            if isinstance(st,ast.Global): continue
            if isinstance(st,ast.Assign):
                t=st.targets[0]
                if isinstance(t,ast.Name): self.env[t.id]=self.ev(st.value)
                elif isinstance(t,ast.Subscript) and isinstance(t.value,ast.Name): self.assign_sub(t,st.value)
                else: raise Unsupported("assign target")
                continue
            if isinstance(st,ast.If):
                test=ast.unparse(st.test).replace(" ","")
                if test in ("maskisNone",): self.run(st.orelse); continue
                if test in ("notmaskisNone","maskisnotNone"): self.run(st.body); continue
                raise Unsupported("if "+test)
            if isinstance(st,ast.Return): self.ret=self.ev(st.value); return
            raise Unsupported(type(st).__name__)
def translate(fn):
    src=textwrap.dedent(inspect.getsource(fn)); tree=ast.parse(src).body[0]
    it=Interp(fn.__globals__,[a.arg for a in tree.args.args])
    for a in tree.args.args: it.env[a.arg]=Const("$"+a.arg)
    it.env["image"]=Img; it.env["mask"]=MaskE
    it.run(tree.body); return it.ret
# --- the radius checker of MaskFlow.v, in Python, for the prototype ---
def rmax(a,b):
    if a is None: return b
    if b is None: return a
    return max(a,b)
def guar(m):
    if m==MaskE: return 0
    if m[0]=="Erode":
        g=guar(m[2]); return None if g is None else g+m[1]
    return None
class Reject(Exception): pass
def rb(e):
    k=e[0]
    if k=="Img": return 0
    if k in ("MaskE","Const"): return None
    if k=="Erode":
        r=rb(e[2]); return None if r is None else r+e[1]
    if k=="Not": return rb(e[1])
    if k=="Pw":
        r=None
        for x in e[2:]: r=rmax(r,rb(x))
        return r
    if k=="Loc":
        r=rb(e[3]); return None if r is None else r+e[1]
    if k=="Glob":
        for x in e[2:]:
            if rb(x) is not None: raise Reject("global op %s on tainted argument"%e[1])
        return None
    if k=="Select":
        a,b,c=rb(e[1]),rb(e[2]),rb(e[3]); g=guar(e[2])
        if g is not None and (a is None or a<=g): a=None
        return rmax(a,rmax(b,c))
    raise Reject("no rule for "+k)
if __name__=="__main__":
    import centrosome.cpmorphology as M, centrosome.filter as F
    for fn in (M.bridge,M.endpoints,M.clean,M.thin,F.hsobel,F.vprewitt,F.laplacian_of_gaussian):
        try:
            t=translate(fn)
            try: r=rb(t); verdict="radius=%s -> %s"%(r,"ACCEPT" if (r is None or r<=0) else "REJECT")
            except Reject as ex: verdict="REJECT: %s"%ex
            top_restore = t[0]=="Select" and t[2]==MaskE and t[3]==Img
            print("%-24s %s; restores input outside mask: %s"%(fn.__name__,verdict,top_restore)); print("    ",t)
        except Unsupported as ex: print("%-24s UNSUPPORTED: %s"%(fn.__name__,ex))
