From Coq Require Import ZArith List Bool Lia.
Import ListNotations.
Open Scope Z_scope.
(* Gallina transcription of the per-label part of _convex_hull.convex_hull_ijv
   (design/prototypes/hull_reference.py). Points are (i,j); input sorted by (j,i). *)
Definition pt := (Z * Z)%type.
Definition CONVEX (a b c : pt) : bool :=
  let ab_i := fst b - fst a in let ab_j := snd b - snd a in
  let bc_i := fst c - fst b in let bc_j := snd c - snd b in
  let cross := ab_j * bc_i - bc_j * ab_i in
  if 0 <? cross then true else if cross <? 0 then false
  else (snd a <? snd b) && (snd c <? snd b).

(* output stack, top first *)
Fixpoint prune (st : list pt) (p : pt) : list pt :=
  match st with
  | b :: ((a :: _) as rest) => if CONVEX a b p then st else prune rest p
  | _ => st
  end.

Definition env := Z -> option Z.      (* per-column envelope, None = sentinel *)
Definition upd (e : env) (j v : Z) : env := fun k => if k =? j then Some v else e k.
Definition build_env (better : Z -> Z -> bool) (pts : list pt) : env :=
  fold_left (fun e p => match e (snd p) with
                        | Some v => if better (fst p) v then upd e (snd p) (fst p) else e
                        | None => upd e (snd p) (fst p) end) pts (fun _ => None).

Definition cols_up (s e : Z) : list Z := map (fun k => s + Z.of_nat k) (seq 0 (Z.to_nat (e - s + 1))).

Definition hull_label (pts : list pt) (slack : Z) : list pt :=
  match pts with
  | [] => []
  | p0 :: _ =>
      let nv := Z.of_nat (length pts) in
      let start_j := snd p0 in let end_j := snd (last pts p0) in
      let lower := build_env Z.ltb pts in      (* smaller i wins *)
      let upper := build_env (fun a b => b <? a) pts in
      let cap := slack + nv in
      let st1 := fold_left (fun st j => match lower j with
                                        | Some i => (i, j) :: prune st (i, j)
                                        | None => st end) (cols_up start_j end_j) [] in
      let st2 := fold_left (fun st j => match upper j with
                                        | Some i => let st' := prune st (i, j) in
                                                    if Z.of_nat (length st') <? cap then (i, j) :: st' else st'
                                        | None => st end) (rev (cols_up (start_j + 1) end_j)) st1 in
      match upper start_j, lower start_j with
      | Some ui, Some li =>
          let st3 := prune st2 (ui, start_j) in
          rev (if negb (li =? ui) then (ui, start_j) :: st3 else st3)
      | _, _ => rev st2
      end
  end.

(* a few evaluations to compare with hull_reference.py *)
Eval vm_compute in hull_label [(0,0);(1,0);(2,0);(0,1);(2,1);(0,2);(1,2);(2,2)] 0.
Eval vm_compute in hull_label [(1,0);(1,1);(1,2)] 0.
Eval vm_compute in hull_label [(0,0);(1,1);(2,2)] 0.
Eval vm_compute in hull_label [(0,0);(3,0);(1,1);(0,3);(3,3);(2,2)] 0.
Eval vm_compute in hull_label [(2,0);(0,1);(3,1);(1,2)] 1000.

(* loop invariant of EMIT: every consecutive triple on the stack is CONVEX *)
Fixpoint chain_ok (st : list pt) : Prop :=
  match st with
  | c :: ((b :: a :: _) as rest) => CONVEX a b c = true /\ chain_ok rest
  | _ => True
  end.
Lemma chain_ok_tail x st : chain_ok (x :: st) -> chain_ok st.
Proof. destruct st as [|b [|a r]]; cbn; tauto. Qed.
Lemma prune_ok st p : chain_ok st -> chain_ok (prune st p) /\ chain_ok (p :: prune st p).
Proof.
  induction st as [|b rest IH]; intros H; [cbn; auto|].
  destruct rest as [|a r]; [cbn; auto|].
  cbn [prune]. destruct (CONVEX a b p) eqn:E.
  - split; auto. cbn [chain_ok]. split; auto.
  - apply IH. eapply chain_ok_tail; eauto.
Qed.
Lemma prune_subset st p x : In x (prune st p) -> In x st.
Proof.
  induction st as [|b rest IH]; cbn [prune]; auto. destruct rest as [|a r]; auto.
  destruct (CONVEX a b p); auto. intros H. right. apply IH; auto.
Qed.
Print Assumptions prune_ok.
