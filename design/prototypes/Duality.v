From Coq Require Import ZArith List Lia Permutation.
Import ListNotations.
Open Scope Z_scope.

(* sums *)
Fixpoint zsum (l : list Z) : Z := match l with [] => 0 | x :: r => x + zsum r end.
Lemma zsum_app a b : zsum (a ++ b) = zsum a + zsum b.
Proof. induction a; cbn [app zsum] in *; lia. Qed.
Lemma zsum_perm a b : Permutation a b -> zsum a = zsum b.
Proof. induction 1; cbn [zsum] in *; lia. Qed.
Lemma zsum_map_add {A} (f g : A -> Z) l :
  zsum (map (fun x => f x + g x) l) = zsum (map f l) + zsum (map g l).
Proof. induction l; cbn [map zsum] in *; lia. Qed.
Lemma zsum_map_nonneg {A} (f : A -> Z) l : (forall x, In x l -> 0 <= f x) -> 0 <= zsum (map f l).
Proof. induction l; cbn [map zsum]; intros H; [lia|]. 
  assert (0 <= f a) by (apply H; left; auto). assert (0 <= zsum (map f l)) by (apply IHl; intros; apply H; right; auto). lia. Qed.
Lemma zsum_map_zero {A} (f : A -> Z) l : (forall x, In x l -> f x = 0) -> zsum (map f l) = 0.
Proof. induction l; cbn [map zsum]; intros H; [lia|].
  rewrite (H a), IHl; auto; [intros; apply H; right; auto | left; auto]. Qed.

Section Assignment.
Variable n : nat.
Variable cost : nat -> nat -> option Z.     (* None = pair not listed = infinite *)
Variables u v : nat -> Z.

Definition rows := seq 0 n.
(* a matching is a function row -> column given as a list sigma with sigma_i = nth i sigma *)
Definition col (sigma : list nat) (i : nat) : nat := nth i sigma 0%nat.
Definition PM (sigma : list nat) : Prop :=
  Permutation sigma rows /\ forall i, In i rows -> cost i (col sigma i) <> None.
Definition c (i j : nat) : Z := match cost i j with Some z => z | None => 0 end.
Definition total (sigma : list nat) : Z := zsum (map (fun i => c i (col sigma i)) rows).

Definition dual_feasible : Prop := forall i j z, cost i j = Some z -> 0 <= z - u i - v j.
Definition slack (x : list nat) : Prop := forall i, In i rows -> c i (col x i) - u i - v (col x i) = 0.

Lemma map_col_perm sigma : Permutation sigma rows -> Permutation (map (col sigma) rows) rows.
Proof.
  intros H. assert (L : length sigma = n) by (rewrite (Permutation_length H); apply seq_length).
  replace (map (col sigma) rows) with sigma; auto.
  unfold rows, col. rewrite <- L. clear. 
  induction sigma as [|a s IH] using rev_ind; [reflexivity|].
  rewrite app_length; cbn [length]. rewrite Nat.add_1_r, seq_S, map_app; cbn [map Nat.add].
  rewrite app_nth2, Nat.sub_diag by lia; cbn [nth]. f_equal.
  rewrite IH at 1. apply map_ext_in; intros i Hi; apply in_seq in Hi. rewrite app_nth1; auto; lia.
Qed.

Lemma total_decomp sigma : Permutation sigma rows ->
  total sigma = zsum (map (fun i => c i (col sigma i) - u i - v (col sigma i)) rows)
                + zsum (map u rows) + zsum (map v rows).
Proof.
  intros H. unfold total.
  assert (E : zsum (map v rows) = zsum (map (fun i => v (col sigma i)) rows)).
  { rewrite <- (map_map (col sigma) v). apply zsum_perm, Permutation_map, Permutation_sym, map_col_perm, H. }
  rewrite E. rewrite <- !zsum_map_add. f_equal. apply map_ext; intros; lia.
Qed.

Theorem cert_optimal x : PM x -> dual_feasible -> slack x ->
  forall sigma, PM sigma -> total x <= total sigma.
Proof.
  intros [Px _] DF SL sigma [Ps Ls].
  rewrite (total_decomp x Px), (total_decomp sigma Ps).
  rewrite (zsum_map_zero _ rows SL).
  assert (0 <= zsum (map (fun i => c i (col sigma i) - u i - v (col sigma i)) rows)); [|lia].
  apply zsum_map_nonneg; intros i Hi. specialize (Ls i Hi). unfold c.
  destruct (cost i (col sigma i)) eqn:E; [|congruence]. eapply DF; eauto.
Qed.
End Assignment.
Print Assumptions cert_optimal.
