From Coq Require Import List Bool Arith.
Import ListNotations.
(* State machine for C20: lazily filled module-level tables and the global RNG *)
Section Hist.
Variables (fname gname args val res seedT : Type).
Variable gname_eqb : gname -> gname -> bool.
Hypothesis gname_eqb_spec : forall a b, reflect (a = b) (gname_eqb a b).

(* generated effect signature of every public function *)
Record sig := {
  fills : list gname;            (* caches the function may assign, each with a ConstExpr value *)
  draws_global : bool;           (* uses the global np.random stream *)
  seed_lit : option seedT        (* literal seed that dominates every draw, if any *)
}.
Variable S : fname -> sig.
Variable const : gname -> val.                     (* value of a ConstExpr table *)
Variable stream : seedT -> nat -> val.              (* draws after seeding with a literal *)
Variable stream_state : nat -> nat -> val.          (* draws from an arbitrary incoming RNG state *)
(* pure body: arguments, value of every cache it reads, the draws it sees *)
Variable body : fname -> args -> (gname -> val) -> (nat -> val) -> res.

Record world := { cache : gname -> option val; rng : nat }.
Definition init : world := {| cache := fun _ => None; rng := 0 |}.

Definition fill (c : gname -> option val) (gs : list gname) : gname -> option val :=
  fun g => match c g with Some v => Some v
                        | None => if existsb (gname_eqb g) gs then Some (const g) else None end.
Definition read (c : gname -> option val) (g : gname) : val :=
  match c g with Some v => v | None => const g end.

Definition step (w : world) (call : fname * args) : res * world :=
  let '(f, a) := call in
  let c1 := fill (cache w) (fills (S f)) in
  let dr := match seed_lit (S f) with
            | Some s => stream s
            | None => stream_state (rng w) end in
  let rng1 := if draws_global (S f) then Datatypes.S (rng w) else rng w in   (* the call leaves the RNG changed *)
  (body f a (read c1) dr, {| cache := c1; rng := rng1 |}).

Definition run (h : list (fname * args)) : world := fold_left (fun w c => snd (step w c)) h init.
Definition result_after (h : list (fname * args)) (c : fname * args) : res := fst (step (run h) c).

Definition Inv (w : world) : Prop := forall g v, cache w g = Some v -> v = const g.

Lemma inv_init : Inv init. Proof. intros g v H; discriminate. Qed.
Lemma inv_step w c : Inv w -> Inv (snd (step w c)).
Proof.
  destruct c as [f a]; intros I g v; cbn. unfold fill.
  destruct (cache w g) eqn:E; [intros H; inversion H; subst; apply I; auto|].
  destruct (existsb (gname_eqb g) (fills (S f))); [intros H; inversion H; reflexivity|discriminate].
Qed.
Lemma inv_run h : Inv (run h).
Proof.
  unfold run. assert (G : forall w, Inv w -> Inv (fold_left (fun w c => snd (step w c)) h w)).
  { induction h as [|c h IH]; intros w Hw; cbn [fold_left]; auto. apply IH, inv_step, Hw. }
  apply G, inv_init.
Qed.

Lemma read_const w gs : Inv w -> forall g, read (fill (cache w) gs) g = const g.
Proof.
  intros I g. unfold read, fill. destruct (cache w g) eqn:E; [apply I; auto|].
  destruct (existsb (gname_eqb g) gs); reflexivity.
Qed.

(* premise, discharged by computation on the generated signature list *)
Definition seed_dominated : Prop := forall f, draws_global (S f) = true -> seed_lit (S f) <> None.
(* body uses the draws only if the function draws at all *)
Hypothesis body_ignores_draws : forall f a c d d', draws_global (S f) = false -> body f a c d = body f a c d'.
Hypothesis body_cache_ext : forall f a c c' d, (forall g, c g = c' g) -> body f a c d = body f a c' d.

Theorem history_independent : seed_dominated ->
  forall h c, result_after h c = result_after [] c.
Proof.
  intros SD h [f a]. unfold result_after. cbn [step fst].
  pose proof (inv_run h) as Ih. pose proof (inv_run []) as I0.
  transitivity (body f a const (match seed_lit (S f) with Some s => stream s | None => stream_state (rng (run h)) end)).
  - apply body_cache_ext. intros g. apply read_const; auto.
  - transitivity (body f a const (match seed_lit (S f) with Some s => stream s | None => stream_state (rng (run [])) end)).
    + destruct (seed_lit (S f)) eqn:E; [reflexivity|].
      destruct (draws_global (S f)) eqn:D; [exfalso; apply (SD f D E)|]. apply body_ignores_draws; auto.
    + symmetry. apply body_cache_ext. intros g. apply read_const; auto.
Qed.
End Hist.
Print Assumptions history_independent.
