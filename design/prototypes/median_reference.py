"""Line-level Python transcription of _filter.pyx c_median_filter (Perreault octagon).
variant 'asis': sweeps use the caller's radius; 'fixed': sweeps and stripe use the bumped radius."""
M16=0xFFFF
class Piece:
    __slots__=("coarse","fine")
    def __init__(s): s.coarse=[0]*16; s.fine=[0]*256
    def clear(s):
        for k in range(16): s.coarse[k]=0
        for k in range(256): s.fine[k]=0
NAMES=("top_left","top_right","edge","bottom_left","bottom_right")
def median_model(data,mask,radius,percent,variant="asis"):
    rows=len(data); columns=len(data[0])
    a=int(radius*2.0/2.414213); a_2=a//2
    if a_2==0: a_2=1
    R=radius
    if R<=a_2: R=a_2+1
    sweep = radius if variant=="asis" else R
    SL=columns+2*sweep+1
    hist=[{nm:Piece() for nm in NAMES} for _ in range(SL)]
    pc=[{nm:0 for nm in NAMES} for _ in range(SL)]
    SC=dict(last_top_left=(-a_2,-R-1), top_left=(-R,-a_2-1), last_top_right=(a_2-1,-R-1), top_right=(R-1,-a_2-1),
            last_leading_edge=(R,-a_2-1), leading_edge=(R,a_2), last_bottom_right=(R,a_2), bottom_right=(a_2,R),
            last_bottom_left=(-R-1,a_2), bottom_left=(-a_2-1,R))
    st=dict(current_row=0,current_column=-radius)
    acc=Piece(); accn=[0]; last_update=[0]*16
    out=[[0]*columns for _ in range(rows)]
    def mod(x):
        assert x>=0, "negative modulus operand"
        return x%SL
    tl_br=lambda c: mod(c+3*R+st["current_row"])
    tr_bl=lambda c: mod(c+3*R+rows-st["current_row"])
    lead=lambda c: mod(c+5*R)
    trail=lambda c: mod(c+3*R-1)
    def add16(dst,src,o=0):
        for k in range(16): dst[o+k]=(dst[o+k]+src[o+k])&M16
    def sub16(dst,src,o=0):
        for k in range(16): dst[o+k]=(dst[o+k]-src[o+k])&M16
    def acc_coarse(c):
        o=tr_bl(c)
        if pc[o]["top_right"]>0: add16(acc.coarse,hist[o]["top_right"].coarse); accn[0]=(accn[0]+pc[o]["top_right"])&0xFFFFFFFF
        o=lead(c)
        if pc[o]["edge"]>0: add16(acc.coarse,hist[o]["edge"].coarse); accn[0]=(accn[0]+pc[o]["edge"])&0xFFFFFFFF
        o=tl_br(c)
        if pc[o]["bottom_right"]>0: add16(acc.coarse,hist[o]["bottom_right"].coarse); accn[0]=(accn[0]+pc[o]["bottom_right"])&0xFFFFFFFF
    def deacc_coarse(c):
        if c<=a_2: return
        o=tl_br(c)
        if pc[o]["top_left"]>0: sub16(acc.coarse,hist[o]["top_left"].coarse); accn[0]=(accn[0]-pc[o]["top_left"])&0xFFFFFFFF
        if c>R:
            o=trail(c)
            if pc[o]["edge"]>0: sub16(acc.coarse,hist[o]["edge"].coarse); accn[0]=(accn[0]-pc[o]["edge"])&0xFFFFFFFF
        o=tr_bl(c)
        if pc[o]["bottom_left"]>0: sub16(acc.coarse,hist[o]["bottom_left"].coarse); accn[0]=(accn[0]-pc[o]["bottom_left"])&0xFFFFFFFF
    def acc_fine(c,f):
        fo=f*16
        add16(acc.fine,hist[tr_bl(c)]["top_right"].fine,fo); add16(acc.fine,hist[lead(c)]["edge"].fine,fo); add16(acc.fine,hist[tl_br(c)]["bottom_right"].fine,fo)
    def deacc_fine(c,f):
        fo=f*16
        if c<a_2: return
        sub16(acc.fine,hist[tl_br(c)]["top_left"].fine,fo)
        if c>=R: sub16(acc.fine,hist[trail(c)]["edge"].fine,fo)
        sub16(acc.fine,hist[tr_bl(c)]["bottom_left"].fine,fo)
    def update_fine(f):
        for c in range(last_update[f]+1, st["current_column"]+1):
            acc_fine(c,f); deacc_fine(c,f)
        last_update[f]=st["current_column"]
    def upd(o,nm,lastc,newc):
        cc=st["current_column"]; cr=st["current_row"]
        x=SC[lastc][0]+cc; y=SC[lastc][1]+cr
        if 0<=x<columns and 0<=y<rows and mask[y][x]:
            v=data[y][x]; pc[o][nm]=(pc[o][nm]-1)&M16; h=hist[o][nm]; h.fine[v]=(h.fine[v]-1)&M16; h.coarse[v//16]=(h.coarse[v//16]-1)&M16
        x=SC[newc][0]+cc; y=SC[newc][1]+cr
        if 0<=x<columns and 0<=y<rows and mask[y][x]:
            v=data[y][x]; pc[o][nm]=(pc[o][nm]+1)&M16; h=hist[o][nm]; h.fine[v]=(h.fine[v]+1)&M16; h.coarse[v//16]=(h.coarse[v//16]+1)&M16
    def update_loc():
        c=st["current_column"]
        upd(tl_br(c),"top_left","last_top_left","top_left")
        upd(tr_bl(c),"top_right","last_top_right","top_right")
        upd(tr_bl(c),"bottom_left","last_bottom_left","bottom_left")
        upd(tl_br(c),"bottom_right","last_bottom_right","bottom_right")
        upd(lead(c),"edge","last_leading_edge","leading_edge")
    def find_median():
        if accn[0]==0: return 0
        below=(accn[0]*percent+50)//100
        if below>0: below-=1
        a_=0; i=0
        for i in range(16):
            a_+=acc.coarse[i]
            if a_>below: break
        a_-=acc.coarse[i]
        update_fine(i)
        for j in range(i*16,(i+1)*16):
            a_+=acc.fine[j]
            if a_>below: return j
        return 0
    for row in range(-sweep,rows):
        o1=tl_br(-sweep); o2=tr_bl(columns+sweep-1)
        hist[o1]["top_left"].clear(); hist[o1]["bottom_right"].clear(); hist[o2]["top_right"].clear(); hist[o2]["bottom_left"].clear()
        pc[o1]["top_left"]=0; pc[o1]["bottom_right"]=0; pc[o2]["top_right"]=0; pc[o2]["bottom_left"]=0
        acc.clear(); accn[0]=0
        for k in range(16): last_update[k]=-sweep-1
        st["current_row"]=row
        for col in range(-sweep, 0 if row>=0 else columns+sweep):
            st["current_column"]=col; update_loc(); acc_coarse(col); deacc_coarse(col)
        if row>=0:
            for col in range(0,columns):
                st["current_column"]=col; update_loc(); acc_coarse(col); deacc_coarse(col)
                out[row][col]=find_median()
            for col in range(columns,columns+sweep):
                st["current_column"]=col; update_loc()
    return out
