From Coq Require Import List Arith Lia.
Import ListNotations.
(* Rank selection on a histogram (find_median of _filter.pyx) versus the sorted window. *)
Fixpoint lsum (l : list nat) : nat := match l with [] => 0 | x :: r => x + lsum r end.
(* bins start at value b0; expand lists the window's values in increasing order *)
Fixpoint expand (b0 : nat) (h : list nat) : list nat :=
  match h with [] => [] | c :: r => repeat b0 c ++ expand (S b0) r end.
(* scan: first bin whose cumulative count exceeds `below` *)
Fixpoint select (b0 : nat) (h : list nat) (acc below : nat) : option nat :=
  match h with
  | [] => None
  | c :: r => if Nat.ltb below (acc + c) then Some b0 else select (S b0) r (acc + c) below
  end.

Lemma nth_repeat_in (x n k : nat) : k < n -> nth k (repeat x n) 0 = x.
Proof. revert k; induction n as [|n IH]; intros k H; [lia|]. destruct k; cbn; auto. apply IH; lia. Qed.
Lemma expand_length b0 h : length (expand b0 h) = lsum h.
Proof. revert b0; induction h as [|c r IH]; intros b0; cbn; auto. rewrite app_length, repeat_length, IH. lia. Qed.

Theorem select_is_rank h : forall b0 acc below, acc <= below -> below < acc + lsum h ->
  select b0 h acc below = Some (nth (below - acc) (expand b0 h) 0).
Proof.
  induction h as [|c r IH]; intros b0 acc below H1 H2; cbn [lsum] in *; [lia|].
  cbn [select expand]. destruct (Nat.ltb_spec below (acc + c)) as [L|L].
  - rewrite app_nth1 by (rewrite repeat_length; lia). f_equal. symmetry. apply nth_repeat_in. lia.
  - rewrite app_nth2 by (rewrite repeat_length; lia). rewrite repeat_length.
    rewrite (IH (S b0) (acc + c) below) by lia. do 2 f_equal. lia.
Qed.

(* two-level search: find the coarse block of 16 first, then scan inside it -- equals the flat scan *)
Fixpoint chunks (k : nat) (h : list nat) (n : nat) : list (list nat) :=
  match n with O => [] | S m => firstn k h :: chunks k (skipn k h) m end.
Fixpoint select2 (k b0 : nat) (cs : list (list nat)) (acc below : nat) : option nat :=
  match cs with
  | [] => None
  | blk :: r => if Nat.ltb below (acc + lsum blk) then select b0 blk acc below
                else select2 k (b0 + k) r (acc + lsum blk) below
  end.
Lemma select_app h1 h2 b0 acc below : acc <= below ->
  select b0 (h1 ++ h2) acc below =
  if Nat.ltb below (acc + lsum h1) then select b0 h1 acc below else select (b0 + length h1) h2 (acc + lsum h1) below.
Proof.
  revert b0 acc; induction h1 as [|c r IH]; intros b0 acc Hle; cbn [app lsum length select].
  - rewrite !Nat.add_0_r. destruct (Nat.ltb_spec below acc); [lia|reflexivity].
  - destruct (Nat.ltb_spec below (acc + c)) as [L|L].
    + destruct (Nat.ltb_spec below (acc + (c + lsum r))); [reflexivity|lia].
    + rewrite IH by lia. replace (acc + c + lsum r) with (acc + (c + lsum r)) by lia.
      replace (S b0 + length r) with (b0 + S (length r)) by lia. reflexivity.
Qed.
Theorem select2_flat k n : forall h b0 acc below, acc <= below -> length h = n * k ->
  select2 k b0 (chunks k h n) acc below = select b0 h acc below.
Proof.
  induction n as [|n IH]; intros h b0 acc below Hle Hlen; cbn [chunks select2].
  - destruct h; [reflexivity|cbn in Hlen; lia].
  - transitivity (select b0 (firstn k h ++ skipn k h) acc below); [|rewrite firstn_skipn; reflexivity].
    rewrite select_app by lia.
    destruct (Nat.ltb_spec below (acc + lsum (firstn k h))); [reflexivity|].
    rewrite IH; [|lia|rewrite skipn_length; cbn in Hlen; lia].
    rewrite firstn_length_le by (cbn in Hlen; lia). reflexivity.
Qed.
Print Assumptions select_is_rank.
Print Assumptions select2_flat.
