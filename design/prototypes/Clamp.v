From Coq Require Import QArith Lqa.
Open Scope Q_scope.
(* get_threshold's range and band logic (threshold.py:72-179), over Q; constants as in the source *)
Definition qmax (a b : Q) : Q := if Qlt_le_dec a b then b else a.
Definition qmin (a b : Q) : Q := if Qlt_le_dec a b then a else b.
Lemma qmax_spec a b : a <= qmax a b /\ b <= qmax a b /\ (qmax a b == a \/ qmax a b == b).
Proof. unfold qmax. destruct (Qlt_le_dec a b); (split; [lra|split; [lra|]]); [right|left]; reflexivity. Qed.
Lemma qmin_spec a b : qmin a b <= a /\ qmin a b <= b /\ (qmin a b == a \/ qmin a b == b).
Proof. unfold qmin. destruct (Qlt_le_dec a b); (split; [lra|split; [lra|]]); [left|right]; reflexivity. Qed.

Definition band_lo : Q := 7 # 10.
Definition band_hi : Q := 3 # 2.
(* global threshold: raw * cf, then max lo, then min hi *)
Definition global_thr (raw cf lo hi : Q) : Q := qmin (qmax (raw * cf) lo) hi.
(* local threshold at one pixel: raw * cf, then clamp below by max lo (0.7 g), then above by min hi (1.5 g) *)
Definition local_thr (raw cf lo hi g : Q) : Q :=
  let rmin := qmax lo (g * band_lo) in let rmax := qmin hi (g * band_hi) in
  let t := raw * cf in
  let t1 := if Qlt_le_dec t rmin then rmin else t in
  if Qlt_le_dec rmax t1 then rmax else t1.

Theorem global_in_range raw cf lo hi : lo <= hi -> lo <= global_thr raw cf lo hi <= hi.
Proof.
  intros H. unfold global_thr.
  destruct (qmax_spec (raw * cf) lo) as [A [B _]]. destruct (qmin_spec (qmax (raw * cf) lo) hi) as [C [D [E|E]]]; split; lra.
Qed.

Theorem local_in_band raw cf lo hi g : 0 <= lo -> lo <= g -> g <= hi ->
  let t := local_thr raw cf lo hi g in
  lo <= t <= hi /\ g * band_lo <= t <= g * band_hi.
Proof.
  intros H0 H1 H2. unfold local_thr, band_lo, band_hi.
  destruct (qmax_spec lo (g * (7 # 10))) as [A [B _]]. destruct (qmin_spec hi (g * (3 # 2))) as [C [D _]].
  set (rmin := qmax lo (g * (7 # 10))) in *. set (rmax := qmin hi (g * (3 # 2))) in *.
  assert (R : rmin <= rmax).
  { unfold rmin, rmax, qmax, qmin. destruct (Qlt_le_dec lo (g * (7 # 10))), (Qlt_le_dec hi (g * (3 # 2))); lra. }
  cbn zeta. destruct (Qlt_le_dec (raw * cf) rmin); destruct (Qlt_le_dec rmax _); repeat split; lra.
Qed.
Print Assumptions local_in_band.

(* 2x2 cofactor inverse used by inv_n for two observed coordinates *)
Definition det2 (a b c d : Q) : Q := a * d - b * c.
Theorem inv2_correct a b c d : ~ det2 a b c d == 0 ->
  let k := / det2 a b c d in
  a * (d * k) + b * (- c * k) == 1 /\ a * (- b * k) + b * (a * k) == 0 /\
  c * (d * k) + d * (- c * k) == 0 /\ c * (- b * k) + d * (a * k) == 1.
Proof. intros H. unfold det2 in *. cbn zeta. repeat split; field; exact H. Qed.
Print Assumptions inv2_correct.
