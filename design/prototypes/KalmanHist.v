From Coq Require Import List Arith Lia Bool.
Import ListNotations.
(* The correction history of kalman_filter: rows (feature index, correction) that are renumbered when
   features are permuted / dropped (map_frames) or scattered into a larger frame (add_features). *)
Section Hist.
Variable V : Type.
Definition rows := list (nat * V).
Definition history (k : nat) (r : rows) : list V := map snd (filter (fun p => Nat.eqb (fst p) k) r).
(* state_noise_idx = reverse_indices[state_noise_idx]; rows mapped to -1 are dropped *)
Fixpoint renumber (f : nat -> option nat) (r : rows) : rows :=
  match r with
  | [] => []
  | (i, v) :: t => match f i with Some i' => (i', v) :: renumber f t | None => renumber f t end
  end.

(* each kept feature keeps exactly its own past corrections, in order *)
Theorem history_renumber f k o r : (forall i, f i = Some k <-> i = o) ->
  history k (renumber f r) = history o r.
Proof.
  intros H. unfold history. induction r as [|[i v] t IH]; cbn [renumber filter map fst snd]; auto.
  destruct (f i) as [i'|] eqn:E.
  - cbn [filter fst]. destruct (Nat.eqb_spec i' k) as [->|N], (Nat.eqb_spec i o) as [->|N'];
      cbn [map snd]; try (rewrite IH; reflexivity).
    + apply H in E. contradiction.
    + exfalso. apply N. assert (f o = Some k) by (apply H; auto). congruence.
  - destruct (Nat.eqb_spec i o) as [->|N']; [|exact IH].
    assert (f o = Some k) by (apply H; auto). congruence.
Qed.

Lemma filter_none (x : nat) : forall (t : list V) s, x < s ->
  filter (fun p : nat * V => Nat.eqb (fst p) x) (combine (seq s (length t)) t) = [].
Proof.
  induction t as [|c t IH]; intros s Hs; cbn [length seq combine filter fst]; auto.
  destruct (Nat.eqb_spec s x); [lia|]. apply IH. lia.
Qed.
Lemma filter_one d : forall (corr : list V) s k, k < length corr ->
  map snd (filter (fun p : nat * V => Nat.eqb (fst p) (s + k)) (combine (seq s (length corr)) corr)) = [nth k corr d].
Proof.
  induction corr as [|c t IH]; intros s k Hk; cbn [length] in Hk; [lia|].
  cbn [length seq combine filter fst]. destruct k as [|k].
  - rewrite Nat.add_0_r, Nat.eqb_refl. cbn [map snd nth]. rewrite filter_none by lia. reflexivity.
  - destruct (Nat.eqb_spec s (s + S k)); [lia|]. cbn [nth].
    replace (s + S k) with (S s + k) by lia. apply IH. lia.
Qed.
(* appending this frame's corrections (idx = arange) extends feature k's history by its own correction only *)
Theorem history_append k r (corr : list V) d : k < length corr ->
  history k (r ++ combine (seq 0 (length corr)) corr) = history k r ++ [nth k corr d].
Proof.
  intros Hk. unfold history. rewrite filter_app, map_app. f_equal.
  apply (filter_one d corr 0 k Hk).
Qed.
End Hist.
Print Assumptions history_renumber.
Print Assumptions history_append.
