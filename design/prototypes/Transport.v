From Coq Require Import ZArith List Lia.
Import ListNotations.
Open Scope Z_scope.

Fixpoint zsum (l : list Z) : Z := match l with [] => 0 | x :: r => x + zsum r end.
Definition sumf (n : nat) (f : nat -> Z) : Z := zsum (map f (seq 0 n)).

Lemma zsum_map_add {A} (f g : A -> Z) l : zsum (map (fun x => f x + g x) l) = zsum (map f l) + zsum (map g l).
Proof. induction l; cbn [map zsum] in *; lia. Qed.
Lemma zsum_map_scale {A} (c : Z) (f : A -> Z) l : zsum (map (fun x => c * f x) l) = c * zsum (map f l).
Proof. induction l; cbn [map zsum] in *; lia. Qed.
Lemma zsum_map_le {A} (f g : A -> Z) l : (forall x, In x l -> f x <= g x) -> zsum (map f l) <= zsum (map g l).
Proof. induction l; cbn [map zsum]; intros H; [lia|].
  assert (f a <= g a) by (apply H; left; auto). assert (zsum (map f l) <= zsum (map g l)) by (apply IHl; intros; apply H; right; auto). lia. Qed.
Lemma zsum_map_ext {A} (f g : A -> Z) l : (forall x, In x l -> f x = g x) -> zsum (map f l) = zsum (map g l).
Proof. intros H. f_equal. apply map_ext_in; auto. Qed.
Lemma zsum_swap {A B} (g : A -> B -> Z) la lb :
  zsum (map (fun a => zsum (map (fun b => g a b) lb)) la) = zsum (map (fun b => zsum (map (fun a => g a b) la)) lb).
Proof.
  induction la as [|a la IH]; cbn [map zsum].
  - induction lb; cbn [map zsum]; lia.
  - rewrite IH. rewrite <- zsum_map_add. reflexivity.
Qed.

Section Transport.
Variables n m : nat.
Variable P : nat -> Z.            (* supplies, i < n *)
Variable Q : nat -> Z.            (* demands,  j < m *)
Variable C : nat -> nat -> Z.     (* ground distance *)
Variable T : Z.                   (* mass to move = min (sum P) (sum Q) *)

Definition rows := seq 0 n.
Definition cols := seq 0 m.
Definition cost (f : nat -> nat -> Z) : Z := zsum (map (fun i => zsum (map (fun j => C i j * f i j) cols)) rows).
Definition rowsum (f : nat -> nat -> Z) i := zsum (map (fun j => f i j) cols).
Definition colsum (f : nat -> nat -> Z) j := zsum (map (fun i => f i j) rows).
Definition feasible (f : nat -> nat -> Z) : Prop :=
  (forall i j, In i rows -> In j cols -> 0 <= f i j) /\
  (forall i, In i rows -> rowsum f i <= P i) /\ (forall j, In j cols -> colsum f j <= Q j) /\
  zsum (map (rowsum f) rows) = T.

(* dual point: alpha, beta >= 0, gamma free, gamma - alpha_i - beta_j <= C i j *)
Variables alpha beta : nat -> Z.
Variable gamma : Z.
Definition dual_feasible : Prop :=
  (forall i, In i rows -> 0 <= alpha i) /\ (forall j, In j cols -> 0 <= beta j) /\
  (forall i j, In i rows -> In j cols -> gamma - alpha i - beta j <= C i j).
Definition dual_value : Z := gamma * T - zsum (map (fun i => alpha i * P i) rows) - zsum (map (fun j => beta j * Q j) cols).

Theorem weak_duality f : feasible f -> dual_feasible -> dual_value <= cost f.
Proof.
  intros [Hpos [Hr [Hc Ht]]] [Ha [Hb Hd]]. unfold dual_value, cost.
  (* cost f >= sum_ij (gamma - alpha_i - beta_j) f_ij *)
  assert (L1 : zsum (map (fun i => zsum (map (fun j => (gamma - alpha i - beta j) * f i j) cols)) rows)
               <= zsum (map (fun i => zsum (map (fun j => C i j * f i j) cols)) rows)).
  { apply zsum_map_le; intros i Hi. apply zsum_map_le; intros j Hj.
    specialize (Hd i j Hi Hj). specialize (Hpos i j Hi Hj). nia. }
  (* expand the left side *)
  assert (E : zsum (map (fun i => zsum (map (fun j => (gamma - alpha i - beta j) * f i j) cols)) rows)
              = gamma * T - zsum (map (fun i => alpha i * rowsum f i) rows) - zsum (map (fun j => beta j * colsum f j) cols)).
  { transitivity (zsum (map (fun i => gamma * rowsum f i + (- (alpha i * rowsum f i)) + (- zsum (map (fun j => beta j * f i j) cols))) rows)).
    - apply zsum_map_ext; intros i Hi. unfold rowsum.
      rewrite <- (zsum_map_scale gamma), <- (zsum_map_scale (alpha i)).
      assert (X : forall l, zsum (map (fun j => (gamma - alpha i - beta j) * f i j) l) =
                  zsum (map (fun j => gamma * f i j) l) + - zsum (map (fun j => alpha i * f i j) l) + - zsum (map (fun j => beta j * f i j) l)).
      { induction l; cbn [map zsum]; lia. }
      apply X.
    - rewrite !zsum_map_add. rewrite zsum_map_scale, Ht.
      assert (N : forall (g : nat -> Z) l, zsum (map (fun i => - g i) l) = - zsum (map g l)) by (induction l; cbn [map zsum]; lia).
      rewrite (N (fun i => alpha i * rowsum f i)), (N (fun i => zsum (map (fun j => beta j * f i j) cols))).
      rewrite (zsum_swap (fun i j => beta j * f i j) rows cols).
      assert (S : zsum (map (fun j => zsum (map (fun i => beta j * f i j) rows)) cols) = zsum (map (fun j => beta j * colsum f j) cols)).
      { apply zsum_map_ext; intros j Hj. unfold colsum. rewrite <- zsum_map_scale. reflexivity. }
      rewrite S. lia. }
  assert (L2 : zsum (map (fun i => alpha i * rowsum f i) rows) <= zsum (map (fun i => alpha i * P i) rows)).
  { apply zsum_map_le; intros i Hi. specialize (Ha i Hi). specialize (Hr i Hi). nia. }
  assert (L3 : zsum (map (fun j => beta j * colsum f j) cols) <= zsum (map (fun j => beta j * Q j) cols)).
  { apply zsum_map_le; intros j Hj. specialize (Hb j Hj). specialize (Hc j Hj). nia. }
  lia.
Qed.

(* certificate: a feasible flow whose cost equals the value of a feasible dual point is optimal *)
Theorem transport_cert_optimal f : feasible f -> dual_feasible -> cost f = dual_value ->
  forall g, feasible g -> cost f <= cost g.
Proof. intros Hf Hd E g Hg. rewrite E. apply weak_duality; auto. Qed.
End Transport.
Print Assumptions transport_cert_optimal.
