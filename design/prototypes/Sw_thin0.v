
From Coq Require Import ZArith NArith List Bool Sorted.
Require Import Topo Skel Par Sweep.
Definition T : N := 13250276009876333600788582833630768291468560915735718217949251042820408915133531090740061038818029801454634802147622082374500874362573200086904898280423424%N.
Lemma sweep_thin0 : sweep (keepN T) = true.
Proof. vm_compute. reflexivity. Qed.
Theorem pass_topo_thin0 : forall X l, StronglySorted ltr l -> (forall q, deleted (keepN T) X q = true -> In q l) ->
  TopoEq X (par_step (keepN T) X).
Proof. intros X l. apply parallel_pass_topo. apply sweep_sound. exact sweep_thin0. Qed.
Print Assumptions pass_topo_thin0.
