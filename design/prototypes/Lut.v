From Coq Require Import ZArith List Bool Lia.
Require Import Topo Skel.
Import ListNotations.
(* table_lookup: the neighbourhood rule and the two "index trick" dispatch paths, on total images
   (pixels outside the frame carry the border value, so no separate border argument is needed) *)
Definition rule (keep : list bool -> bool) (X : img) : img := fun q => keep (pat X q).
Definition compl (X : img) : img := fun q => negb (X q).

(* path 1: tables that never turn 0 into 1 only need the set pixels *)
Definition erosive (keep : list bool -> bool) : Prop := forall bits, keep bits = true -> nth 4 bits false = true.
Theorem index_trick_erosive keep X : erosive keep -> forall q, (X q && keep (pat X q)) = rule keep X q.
Proof.
  intros E q. unfold rule. destruct (keep (pat X q)) eqn:K; [|apply andb_false_r].
  apply E in K. rewrite pat_nth in K by lia. rewrite nb_center in K. rewrite K. reflexivity.
Qed.

(* path 2: tables that keep every 1 are handled on the complemented image with the reversed, negated table *)
Definition inverted (keep : list bool -> bool) : list bool -> bool := fun bits => negb (keep (map negb bits)).
Lemma pat_compl X q : pat (compl X) q = map negb (pat X q).
Proof. unfold pat, compl. rewrite map_map. reflexivity. Qed.
Lemma map_negb_invol l : map negb (map negb l) = l.
Proof. induction l; cbn; auto. rewrite negb_involutive, IHl. reflexivity. Qed.
Theorem inverted_trick keep X q : rule keep X q = negb (rule (inverted keep) (compl X) q).
Proof. unfold rule, inverted. rewrite pat_compl, map_negb_invol, negb_involutive. reflexivity. Qed.
(* and the inverted table is erosive exactly when the original keeps every 1 *)
Definition extensive (keep : list bool -> bool) : Prop := forall bits, length bits = 9%nat -> nth 4 bits false = true -> keep bits = true.
Theorem inverted_erosive keep : extensive keep -> forall bits, length bits = 9%nat -> inverted keep bits = true -> nth 4 bits false = true.
Proof.
  intros E bits L H. unfold inverted in H. apply negb_true_iff in H.
  destruct (nth 4 bits false) eqn:B; auto. exfalso.
  assert (K : keep (map negb bits) = true).
  { apply E; [rewrite map_length; auto|].
    change false with (negb true). rewrite map_nth. rewrite (nth_indep bits true false) by lia. rewrite B. reflexivity. }
  congruence.
Qed.
Print Assumptions index_trick_erosive.
Print Assumptions inverted_trick.
