"""Line-level Python transcription of centrosome.lapjv.lapjv + _lapjv.pyx kernels.
Variants: rt in {"asis","fixed"}, eps (float). Uses Python floats (same IEEE ops)."""
import numpy as np, math
INF=float("inf")
class Undefined(Exception): pass
def lapjv_model(i,j,costs,k=2,rt="asis",eps=2.0**-26):
    i=np.atleast_1d(i).astype(int); j=np.atleast_1d(j).astype(int); costs=np.atleast_1d(costs).astype(float)
    j_count=np.bincount(j); i_count=np.bincount(i)
    assert not (j_count==0).any() and not (i_count==0).any()
    n=len(j_count); assert n==len(i_count)
    j_index=np.hstack([[0],np.cumsum(j_count[:-1])]); i_index=np.hstack([[0],np.cumsum(i_count[:-1])])
    x=[n]*n; y=[n]*n; u=[0.0]*n
    order=np.lexsort((-i,costs,j)); min_idx=order[j_index]; min_i=i[min_idx]
    v=[float(c) for c in costs[min_idx]]
    for jj in range(n): x[min_i[jj]]=jj          # last write wins
    for ii in range(n):
        if x[ii]!=n: y[x[ii]]=ii
    cnt=[0]*n
    for m in min_i: cnt[m]+=1
    free=[ii for ii in range(n) if cnt[ii]==0]; one=[ii for ii in range(n) if cnt[ii]==1]
    order=np.lexsort((j,i)); J=[int(t) for t in j[order]]; C=[float(t) for t in costs[order]]
    idx=[int(t) for t in i_index]; count=[int(t) for t in i_count]
    # reduction transfer
    for ii in one:
        min_u=INF; j1=x[ii]; at=-1
        for t in range(count[ii]):
            jt = J[t] if rt=="asis" else J[idx[ii]+t]
            if jt!=j1:
                ut=C[idx[ii]+t]-v[jt]
                if ut<min_u: min_u=ut; at=jt
        if at!=-1:
            v[j1]-=min_u-u[ii]; u[ii]=min_u
    # augmenting row reduction
    ii_list=list(free)
    if len(ii_list)>0:
        for _ in range(k):
            newfree=[]; kk=0; lst=list(ii_list); n_i=len(lst)
            j1=None; j2=None
            guard=0
            while kk<n_i:
                guard+=1
                if guard>10000000: raise RuntimeError("ARR loop")
                r=lst[kk]; kk+=1
                u1=INF; u2=INF
                for t in range(count[r]):
                    jt=J[idx[r]+t]; temp=C[idx[r]+t]-v[jt]
                    if temp<u1: u2=u1; j2=j1; u1=temp; j1=jt
                    elif temp<u2: u2=temp; j2=jt
                if j1 is None: raise Undefined("j1")
                i1=y[j1]
                if u1+eps<u2: v[j1]=v[j1]-u2+u1
                elif i1!=n:
                    if j2 is None: raise Undefined("j2")
                    j1=j2; i1=y[j1]
                if i1!=n:
                    if u1+eps<u2: kk-=1; lst[kk]=i1
                    else: newfree.append(i1)
                x[r]=j1; y[j1]=r
            ii_list=newfree
    # augment
    inf=float(np.sum(np.array(C)))+1
    d=[0.0]*n; pred=[1]*n; scan=[0]*n; to_do=[0]*n; ready=[0]*n
    done=[-1]*n; on_to_do=[-1]*n
    def bsearch(base,cntt,val):
        lo=0; hi=cntt-1
        while lo<=hi:
            mid=(lo+hi)//2
            if val==J[base+mid]: return mid
            if val>J[base+mid]: lo=mid+1
            else: hi=mid-1
        raise Undefined("bsearch")
    for r in ii_list:
        for t in range(n): d[t]=inf
        for t in range(count[r]):
            jt=J[idx[r]+t]; d[jt]=C[idx[r]+t]-v[jt]; to_do[t]=jt; on_to_do[jt]=r; pred[jt]=r
        n_to_do=count[r]; low=0; up=0; n_ready=0
        guard=0
        while True:
            guard+=1
            if guard>1000000: raise RuntimeError("augment loop")
            if up==low:
                low=0; up=0; umin=inf
                for t in range(n_to_do):
                    jt=to_do[t]
                    if done[jt]==r: continue
                    temp=d[jt]
                    if temp<=umin:
                        if temp<umin: up=0; umin=temp
                        scan[up]=jt; up+=1
                j1=n
                for t in range(low,up):
                    jt=scan[t]
                    if y[jt]==n: j1=jt; break
                    done[jt]=r
                if j1<n: break
            j1=scan[low]; low+=1; ready[n_ready]=j1; n_ready+=1
            i1=y[j1]; base=idx[i1]; n_j2=count[i1]
            jidx=bsearch(base,n_j2,j1)
            u1=C[base+jidx]-v[j1]-umin
            j1=n
            for t in range(n_j2):
                jt=J[base+t]
                if done[jt]!=r:
                    h=C[base+t]-v[jt]-u1
                    if h<d[jt]:
                        pred[jt]=i1; d[jt]=h
                        if h<=umin:
                            if y[jt]==n: j1=jt; break
                            scan[up]=jt; done[jt]=r; up+=1
                        elif on_to_do[jt]!=r:
                            to_do[n_to_do]=jt; on_to_do[jt]=r; n_to_do+=1
            if j1!=n: break
        for t in range(n_ready):
            jt=ready[t]; v[jt]+=d[jt]-umin
        while True:
            i1=pred[j1]; y[j1]=i1; j1,x[i1]=x[i1],j1
            if i1==r: break
    for r in range(n):
        jj=x[r]; jidx=bsearch(idx[r],count[r],jj); u[r]=C[idx[r]+jidx]-v[jj]
    return x,y,u,v
