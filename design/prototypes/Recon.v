From Coq Require Import ZArith List Lia Wf_nat.
Open Scope Z_scope.
(* Reconstruction by dilation on an arbitrary finite neighbourhood structure.
   preds p = the pixels whose value flows into p (p - o, o in the footprint, inside the image). *)
Section Recon.
Variable V : Type.
Variable preds : V -> list V.
Variables seed mask : V -> Z.

Definition between (R : V -> Z) : Prop := forall p, seed p <= R p <= mask p.
(* closed under one dilate-and-clip step *)
Definition closed (R : V -> Z) : Prop := forall p q, In q (preds p) -> Z.min (mask p) (R q) <= R p.
Definition post_fixed (R : V -> Z) : Prop := (forall p, seed p <= R p) /\ closed R.
(* the reconstruction: least image above the seed that the step cannot raise any more *)
Definition IsRecon (R : V -> Z) : Prop := between R /\ closed R /\ forall R', post_fixed R' -> forall p, R p <= R' p.

(* certificate checked per instance: every value above the seed is justified by a predecessor of lower level *)
Definition justified (R : V -> Z) (lvl : V -> nat) : Prop :=
  forall p, R p = seed p \/ exists q, In q (preds p) /\ (lvl q < lvl p)%nat /\ R p <= R q /\ R p <= mask p.

Theorem recon_check_sound R lvl : between R -> closed R -> justified R lvl -> IsRecon R.
Proof.
  intros HB HC HJ. split; [exact HB|]. split; [exact HC|].
  intros R' [Hs Hc]. 
  assert (G : forall n p, (lvl p < n)%nat -> R p <= R' p).
  { induction n as [|n IH]; intros p Hp; [lia|].
    destruct (HJ p) as [E|[q [Hq [Hl [H1 H2]]]]].
    - rewrite E. apply Hs.
    - assert (Rq : R q <= R' q) by (apply IH; lia).
      specialize (Hc p q Hq). lia. }
  intros p. apply (G (S (lvl p))). lia.
Qed.

(* uniqueness, hence "the" reconstruction; and idempotence: reconstructing from the result changes nothing *)
Lemma recon_unique R1 R2 : IsRecon R1 -> IsRecon R2 -> forall p, R1 p = R2 p.
Proof.
  intros [B1 [C1 L1]] [B2 [C2 L2]] p.
  assert (R1 p <= R2 p) by (apply L1; split; [intros; apply B2|exact C2]).
  assert (R2 p <= R1 p) by (apply L2; split; [intros; apply B1|exact C1]). lia.
Qed.
End Recon.

Theorem recon_idempotent V preds seed mask R :
  IsRecon V preds seed mask R -> IsRecon V preds R mask R.
Proof.
  intros [B [C L]]. split; [intros p; specialize (B p); lia|]. split; [exact C|].
  intros R' [Hs Hc] p. apply Hs.
Qed.
Print Assumptions recon_check_sound.
Print Assumptions recon_idempotent.
