import numpy as np, warnings
warnings.filterwarnings("ignore")
import centrosome.threshold as T
rng=np.random.RandomState(0)
bad={}
def note(k,info=None):
    bad.setdefault(k,[]).append(info)
for t in range(120):
    H=W=rng.choice([24,40])
    k=rng.choice(["uni","bimodal","quant","dark"])
    img = rng.rand(H,W) if k=="uni" else np.where(rng.rand(H,W)<0.3, 0.7+0.1*rng.randn(H,W), 0.2+0.05*rng.randn(H,W)).clip(0,1) if k=="bimodal" else rng.randint(0,8,(H,W))/8.0 if k=="quant" else (rng.rand(H,W)*0.05)
    mask=rng.rand(H,W)<rng.choice([0.5,0.9,1.0])
    labels=np.zeros((H,W),int); labels[2:H//2,2:W//2]=1; labels[H//2+1:H-2,W//2+1:W-2]=2
    lo,hi = (0.0,1.0) if rng.rand()<0.5 else (0.1,0.6)
    cf=float(rng.choice([0.5,1.0,2.0]))
    img2=img.copy(); img2[~mask]=rng.choice([0.0,1.0]) if rng.rand()<0.5 else rng.rand((~mask).sum())
    for meth in T.TM_METHODS:
        for mod in (T.TM_GLOBAL,T.TM_ADAPTIVE,T.TM_PER_OBJECT):
            kw=dict(mask=mask,threshold_range_min=lo,threshold_range_max=hi,threshold_correction_factor=cf,adaptive_window_size=8)
            if mod==T.TM_PER_OBJECT: kw["labels"]=labels
            try:
                l1,g1=T.get_threshold(meth,mod,img,**kw)
                l1b,g1b=T.get_threshold(meth,mod,img,**kw)
                l2,g2=T.get_threshold(meth,mod,img2,**kw)
            except Exception as ex:
                note(("EXC",meth,mod,type(ex).__name__,str(ex)[:60])); continue
            if not(lo<=g1<=hi): note(("grange",meth,mod),(g1,lo,hi))
            if g1!=g1b or not np.array_equal(np.asarray(l1),np.asarray(l1b)): note(("nondet",meth,mod))
            if g1!=g2: note(("NI-global",meth,mod),(g1,g2))
            L1=np.asarray(l1);L2=np.asarray(l2)
            if L1.ndim==2:
                sel = mask if mod==T.TM_ADAPTIVE else (mask&(labels>0))
                if not np.array_equal(L1[sel],L2[sel]): note(("NI-local",meth,mod))
                a=max(lo,0.7*g1); b=min(hi,1.5*g1)
                if ((L1[sel]<a)|(L1[sel]>b)).any(): note(("band",meth,mod),(float(L1[sel].min()),float(L1[sel].max()),a,b))
            else:
                if not(lo<=L1<=hi): note(("lrange",meth,mod))
    # bracket
    for meth in (T.TM_OTSU,T.TM_RIDLER_CALVARD,T.TM_MCT):
        g=T.get_global_threshold(meth,img,mask)
        mn,mx=img[mask].min(),img[mask].max()
        if not(mn<=g<=mx): note(("bracket",meth),(g,mn,mx))
print({k:len(v) for k,v in bad.items()})
for k,v in list(bad.items())[:8]: print(k,v[0])
