import numpy as np, warnings
warnings.filterwarnings("ignore")
import centrosome.cpmorphology as M, centrosome.filter as F, centrosome.smooth as S
from scipy.ndimage import gaussian_filter
rng=np.random.RandomState(0)
fl={}  # float-image ops: f(img,mask)
for nm in "grey_erosion grey_dilation opening closing white_tophat black_tophat".split():
    fl[nm]=lambda a,m,f=getattr(M,nm): f(a,mask=m)
    fl[nm+"-r2"]=lambda a,m,f=getattr(M,nm): f(a,radius=2,mask=m)
fl["openlines"]=lambda a,m:M.openlines(a,linelength=5,dAngle=45,mask=m)
for nm in "sobel hsobel vsobel prewitt hprewitt vprewitt roberts".split(): fl[nm]=getattr(F,nm)
fl["canny"]=lambda a,m:F.canny(a,m,1.0,0.1,0.2)
fl["log"]=lambda a,m:F.laplacian_of_gaussian(a,m,5,1.0)
fl["variance_transform"]=lambda a,m:F.variance_transform(a,1.0,m)
fl["caf"]=lambda a,m:F.circular_average_filter(a,2,m)
fl["smooth_wfm"]=lambda a,m:S.smooth_with_function_and_mask(a,lambda x:gaussian_filter(x,1.0),m)
fl["stretch"]=F.stretch
fl["fit_polynomial"]=lambda a,m:S.fit_polynomial(a,m)
fl["circular_hough"]=lambda a,m:F.circular_hough(a,3,mask=m)
fl["convex_hull_transform"]=lambda a,m:F.convex_hull_transform(a,mask=m)
fl["regional_maximum"]=lambda a,m:M.regional_maximum(a,m)
fl["regional_maximum-ties"]=lambda a,m:M.regional_maximum(a,m,None,True)
fl["median_filter"]=lambda a,m:F.median_filter(a,m,2)
bn={}
for nm in "bridge clean diag endpoints branchpoints fill fill4 hbreak vbreak majority remove spur thicken thin skeletonize".split():
    bn[nm]=getattr(M,nm)
bad={}
for t in range(40):
    H,W=rng.randint(5,14,2)
    mask=rng.rand(H,W)<rng.choice([0.5,0.8,0.95])
    if not mask.any(): continue
    img=rng.randint(0,16,(H,W))/16.0
    for name,f in fl.items():
        for rep in ("zero","one","big","noise"):
            img2=img.copy(); img2[~mask]={"zero":0.0,"one":1.0,"big":1000.0}.get(rep, None) if rep!="noise" else rng.rand((~mask).sum())
            try:
                a=np.asarray(f(img.copy(),mask.copy())); b=np.asarray(f(img2.copy(),mask.copy()))
            except Exception as ex:
                bad.setdefault(("EXC",name,type(ex).__name__,str(ex)[:50]),[]).append(1); break
            if a.shape==mask.shape:
                if not np.array_equal(a[mask],b[mask],equal_nan=True): bad.setdefault((name,rep),[]).append(float(np.nanmax(np.abs(a[mask].astype(float)-b[mask].astype(float)))))
            else:
                if not np.array_equal(a,b,equal_nan=True): bad.setdefault((name,rep,"shape"),[]).append(1)
    bimg=rng.rand(H,W)<0.6
    for name,f in bn.items():
        for rep in (False,True,None):
            b2=bimg.copy(); b2[~mask]= rep if rep is not None else (rng.rand((~mask).sum())<0.5)
            a=f(bimg.copy(),mask.copy()); b=f(b2.copy(),mask.copy())
            if not np.array_equal(a[mask],b[mask]): bad.setdefault((name,"NI"),[]).append(1)
            if not np.array_equal(b[~mask],b2[~mask]): bad.setdefault((name,"restore"),[]).append(1)
print({k:(len(v),max(v)) for k,v in bad.items()})
