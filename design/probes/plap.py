import numpy as np, sys, itertools, warnings
warnings.filterwarnings("ignore")
sys.path.insert(0,"/var/tmp/cs_scratch")
from lapmodel import lapjv_model, Undefined
from centrosome.lapjv import lapjv
rng=np.random.RandomState(int(sys.argv[1]) if len(sys.argv)>1 else 0)
N=int(sys.argv[2]) if len(sys.argv)>2 else 3000
mism=0; und=0; tot=0; nonopt_impl=0; nonopt_fixed=0; first=None; infd=0
def feq(a,b):
    return all((x==y) or (x!=x and y!=y) for x,y in zip(a,b))
for t in range(N):
    n=rng.randint(1,9)
    perm=rng.permutation(n); cost={}
    kind=rng.choice(["ties","small","big","dyadic","fine"])
    def c():
        if kind=="ties": return float(rng.randint(0,3))
        if kind=="small": return float(rng.randint(0,10))
        if kind=="big": return float(rng.randint(0,10**6))
        if kind=="dyadic": return rng.randint(0,1<<12)/float(1<<8)
        return float(rng.randint(0,3))+rng.randint(0,4)*2.0**-30
    for r in range(n): cost[(r,int(perm[r]))]=c()
    p=rng.choice([0.0,0.1,0.3,0.6,1.0])
    for r in range(n):
        for q in range(n):
            if rng.rand()<p: cost.setdefault((r,q),c())
    items=list(cost.items()); rng.shuffle(items)
    ii=[a[0] for a,_ in items]; jj=[a[1] for a,_ in items]; cc=[b for _,b in items]
    k=int(rng.randint(0,4))
    x,y,u,v=lapjv(ii,jj,cc,wants_dual_variables=True,augmenting_row_reductions=k)
    tot+=1
    try:
        mx,my,mu,mv=lapjv_model(ii,jj,cc,k,"asis")
    except Undefined as e:
        und+=1; continue
    ok = list(map(int,x))==mx and list(map(int,y))==my and feq(list(map(float,u)),mu) and feq(list(map(float,v)),mv)
    if not ok:
        mism+=1
        if first is None: first=(n,k,kind,sorted(cost.items()),list(map(int,x)),mx,list(map(float,v)),mv)
    if any(np.isinf(v)): infd+=1
    if n<=7:
        b=min(sum(cost[(r,pp[r])] for r in range(n)) for pp in itertools.permutations(range(n)) if all((r,pp[r]) in cost for r in range(n)))
        ci=sum(cost[(r,int(x[r]))] for r in range(n))
        if ci!=b: nonopt_impl+=1
        fx=lapjv_model(ii,jj,cc,k,"fixed",0.0 if kind=="fine" else 2.0**-26)[0]
        if sum(cost[(r,fx[r])] for r in range(n))!=b: nonopt_fixed+=1
print("cases",tot,"model!=impl",mism,"undefined-local raised",und,"inf duals",infd,"impl nonoptimal",nonopt_impl,"fixed-model nonoptimal",nonopt_fixed)
if first: print(first)
