import numpy as np, warnings, itertools
warnings.filterwarnings("ignore")
from scipy.optimize import linprog
from centrosome.fastemd import emd_hat_int32, EMD_NO_FLOW, EMD_WITHOUT_TRANSHIPMENT_FLOW, EMD_WITHOUT_EXTRA_MASS_FLOW
rng=np.random.RandomState(0)
def lp(P,Q,C,pen):
    n,m=len(P),len(Q); tot=min(P.sum(),Q.sum())
    c=C.astype(float).ravel()
    A=[];b=[]
    for i in range(n):
        r=np.zeros((n,m)); r[i,:]=1; A.append(r.ravel()); b.append(P[i])
    for j in range(m):
        r=np.zeros((n,m)); r[:,j]=1; A.append(r.ravel()); b.append(Q[j])
    res=linprog(c,A_ub=np.array(A),b_ub=np.array(b),A_eq=np.ones((1,n*m)),b_eq=[tot],bounds=(0,None),method="highs")
    return res.fun+pen*abs(int(P.sum())-int(Q.sum()))
bad=dict(dist=0,flow=0,metric=0,exc=0)
for t in range(600):
    n=rng.randint(1,7); m=n if rng.rand()<0.6 else rng.randint(1,7)
    P=rng.randint(0,10,n).astype(np.int32); Q=rng.randint(0,10,m).astype(np.int32)
    if rng.rand()<0.4 and n==m: Q=rng.permutation(P).astype(np.int32)
    kind=rng.choice(["metric","sym","arb"])
    if kind=="metric":
        C=np.abs(np.subtract.outer(np.arange(n),np.arange(m))).astype(np.int32)
        if rng.rand()<0.5: C=np.minimum(C,2)
    elif kind=="sym":
        k=max(n,m); A=rng.randint(0,10,(k,k)); A=(A+A.T); np.fill_diagonal(A,0); C=A[:n,:m].astype(np.int32)
    else: C=rng.randint(0,10,(n,m)).astype(np.int32)
    pen=None if rng.rand()<0.5 else int(rng.randint(0,12))
    try:
        d=emd_hat_int32(P,Q,C,extra_mass_penalty=pen)
        penv = int(C.max()) if pen is None else pen
        ref=lp(P,Q,C,penv)
        if abs(d-ref)>1e-6:
            bad["dist"]+=1
            if bad["dist"]<4: print("dist",P,Q,C.tolist(),pen,d,ref,kind)
        d2,f=emd_hat_int32(P,Q,C,extra_mass_penalty=pen,flow_type=EMD_WITHOUT_EXTRA_MASS_FLOW)
        okf = (f>=0).all() and (f.sum(1)<=P).all() and (f.sum(0)<=Q).all() and f.sum()==min(P.sum(),Q.sum()) and (f*C).sum()+penv*abs(int(P.sum())-int(Q.sum()))==d2 and d2==d
        if not okf:
            bad["flow"]+=1
            if bad["flow"]<4: print("flow",P,Q,C.tolist(),pen,d,d2,f.tolist())
        if kind=="metric" and n==m:
            d3=emd_hat_int32(P,Q,C,extra_mass_penalty=pen,gd_metric=True)
            if d3!=d: bad["metric"]+=1; print("metric",P,Q,C.tolist(),pen,d,d3)
    except Exception as ex:
        bad["exc"]+=1
        if bad["exc"]<4: print("EXC",type(ex).__name__,str(ex)[:100],P,Q,C.shape)
print("C10",bad)
