import numpy as np, scipy.ndimage as nd, itertools
import centrosome.cpmorphology as M
img=np.zeros((3,3),bool); img[1,1]=True
M.binary_shrink(img); M.thin(img)
tables = {"thin0":M.thin_table[0],"thin1":M.thin_table[1],"ulr":M.binary_shrink_ulr_table,"urb":M.binary_shrink_urb_table,"lrl":M.binary_shrink_lrl_table,"llt":M.binary_shrink_llt_table}
e8=np.ones((3,3),bool); e4=nd.generate_binary_structure(2,1)
# simple(8,4) table over 512 patterns (centre must be 1)
def simple(idx):
    p=M.pattern_of(idx).copy()
    if not p[1,1]: return False
    q=p.copy(); q[1,1]=False
    nfg=nd.label(q,e8)[1]
    bg=~q; bg[1,1]=False
    lab,n=nd.label(bg,e4)
    adj=set([lab[0,1],lab[1,0],lab[1,2],lab[2,1]])-{0}
    return nfg==1 and len(adj)==1
S=np.array([simple(i) for i in range(512)])
for name,T in tables.items():
    dele = (~T.astype(bool)) & (np.arange(512)&16>0)
    print(name,"deleted patterns",dele.sum(),"non-simple deleted:",(dele&~S).sum())
# skeletonize table fixed
tab = M.make_table(True,np.array([[0,0,0],[0,1,0],[0,0,0]],bool),np.array([[0,0,0],[0,1,0],[0,0,0]],bool)) & (np.array([nd.label(M.pattern_of(i),e8)[1]!=nd.label(M.pattern_of(i&~16),e8)[1] for i in range(512)])|np.array([np.sum(M.pattern_of(i))<3 for i in range(512)]))
dele=(~tab)&(np.arange(512)&16>0)
print("skel as-is non-simple deleted:",(dele&~S).sum(), [i for i in range(512) if dele[i] and not S[i]][:10])
tabf = tab | np.array([(i&0xAA)==0xAA for i in range(512)])
dele=(~tabf)&(np.arange(512)&16>0)
print("skel fixed non-simple deleted:",(dele&~S).sum())
np.save("/var/tmp/cs_scratch/S.npy",S)
# window test: rows -2..1, cols -2..2 ; vectorised over 2^20 configs
def window_test(T, order):
    # order: list of neighbour offsets processed before centre
    n=20; N=1<<n
    cfg=np.arange(N,dtype=np.int64)
    H,W=4,5
    def cell(r,c): # r in -2..1 , c in -2..2 ; returns bool array (0 if outside window)
        if r<-2 or r>1 or c<-2 or c>2: return None
        return ((cfg>>((r+2)*W+(c+2)))&1).astype(bool)
    def patt(r,c,getter):
        idx=np.zeros(N,np.int64); k=0
        for dr in (-1,0,1):
            for dc in (-1,0,1):
                v=getter(r+dr,c+dc)
                if v is None: return None
                idx+= v.astype(np.int64)<<k; k+=1
        return idx
    base=lambda r,c: cell(r,c)
    centre_idx=patt(0,0,base)
    Tn=T.astype(bool)
    centre_del = cell(0,0) & ~Tn[centre_idx]
    # neighbours deleted?
    nbdel={}
    for (dr,dc) in order:
        pi=patt(dr,dc,base)
        nbdel[(dr,dc)] = cell(dr,dc) & ~Tn[pi]
    def cur(r,c):
        v=cell(r,c)
        if v is None: return None
        if (r,c) in nbdel: return v & ~nbdel[(r,c)]
        return v
    cidx=patt(0,0,cur)
    bad = centre_del & ~S[cidx]
    return int(bad.sum()), int(centre_del.sum())
orders={"raster":[(-1,-1),(-1,0),(-1,1),(0,-1)]}
for name,T in tables.items():
    print(name, window_test(T, orders["raster"]))
