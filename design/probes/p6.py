import numpy as np, warnings
warnings.filterwarnings("ignore")
import centrosome.cpmorphology as M
def step(img,table,border):
    H,W=img.shape; out=np.zeros((H,W),table.dtype)
    for i in range(H):
        for j in range(W):
            idx=0;k=0
            for di in (-1,0,1):
                for dj in (-1,0,1):
                    y,x=i+di,j+dj
                    v = bool(img[y,x]) if (0<=y<H and 0<=x<W) else bool(border)
                    idx|= int(v)<<k; k+=1
            out[i,j]=table[idx]
    return out
def spec(img,table,border,iters):
    cur=img.astype(bool); n=0
    while iters is None or n<iters:
        nxt=step(cur,table,border).astype(bool); n+=1
        if np.array_equal(nxt,cur): break
        cur=nxt
    return cur
rng=np.random.RandomState(0)
bad={}
N=0
for t in range(3000):
    H,W=rng.randint(1,7,2)
    img=rng.rand(H,W)<rng.choice([0.2,0.5,0.8])
    kind=rng.choice(["erosive","extensive","rand"])
    table=rng.rand(512)<0.5
    c=(np.arange(512)&16)>0
    if kind=="erosive": table[~c]=False
    if kind=="extensive": table[c]=True
    border=bool(rng.randint(2)); iters=rng.choice([1,2,3,None]) if kind!="rand" else rng.choice([1,2,3])
    dt=rng.choice(["bool","int"])
    im = img if dt=="bool" else img.astype(np.int32)
    try:
        got=M.table_lookup(im,table,border,iters)
        got=np.asarray(got).astype(bool)
        exp=spec(img,table,border,iters)
        N+=1
        if not np.array_equal(got,exp):
            key=(kind,dt,border,iters is None,H<3 or W<3)
            bad.setdefault(key,[]).append((img.astype(int).tolist(),))
    except Exception as e:
        bad.setdefault(("EXC",kind,dt,type(e).__name__,str(e)[:60]),[]).append((H,W))
print(N,{k:len(v) for k,v in bad.items()})
for k,v in list(bad.items())[:3]: print(k,v[0])
