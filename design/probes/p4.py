import numpy as np, warnings
warnings.filterwarnings("ignore")
import scipy.ndimage as nd
import centrosome.cpmorphology as M
rng=np.random.RandomState(0)
# C04: iterate dilate-and-clip; dilation: R(p+o)>=R(p) for o in footprint offsets => at x: max over o of R(x-o)
def recon_spec(seed,mask,fp):
    H,W=seed.shape; fh,fw=fp.shape; ch,cw=fh//2,fw//2
    offs=[(a-ch,b-cw) for a in range(fh) for b in range(fw) if fp[a,b] and (a,b)!=(ch,cw)]
    R=seed.copy()
    while True:
        N=R.copy()
        for i in range(H):
            for j in range(W):
                m=R[i,j]
                for (di,dj) in offs:
                    y,x=i-di,j-dj
                    if 0<=y<H and 0<=x<W: m=max(m,R[y,x])
                N[i,j]=min(mask[i,j],m)
        if np.array_equal(N,R): return R
        R=N
bad=0;badflip=0;exc=0
for t in range(600):
    H,W=rng.randint(1,8,2)
    kind=rng.choice(["int","real","neg"])
    mask=rng.randint(0,5,(H,W)).astype(float) if kind=="int" else rng.rand(H,W) if kind=="real" else rng.rand(H,W)-2
    seed=np.minimum(mask, mask-rng.choice([0,0.5,2])*(rng.rand(H,W)<0.8)) if rng.rand()<0.7 else np.where(rng.rand(H,W)<0.2,mask,mask.min())
    fpk=rng.choice(["def","4","r33","r55","r37"])
    fp=None if fpk=="def" else nd.generate_binary_structure(2,1) if fpk=="4" else (rng.rand(3,3)<0.6) if fpk=="r33" else (rng.rand(5,5)<0.4) if fpk=="r55" else (rng.rand(3,7)<0.5)
    try:
        got=M.grey_reconstruction(seed,mask,None if fp is None else fp.copy())
    except Exception as e:
        exc+=1; 
        if exc<3: print("EXC",type(e).__name__,e,H,W,fpk)
        continue
    f=np.ones((3,3),bool) if fp is None else fp
    exp=recon_spec(seed,mask,f)
    if not np.array_equal(got,exp):
        bad+=1
        if np.array_equal(got,recon_spec(seed,mask,f[::-1,::-1])): badflip+=1
    g2=M.grey_reconstruction(got,mask,None if fp is None else fp.copy())
    if not np.array_equal(g2,got): print("not idempotent")
print("C04 mismatches",bad,"explained by flipped footprint",badflip,"exceptions",exc)
