import numpy as np, warnings, copy
warnings.filterwarnings("ignore")
import centrosome.filter as F
rng=np.random.RandomState(0)
def spd(n):
    A=rng.randn(n,n); return A@A.T+np.eye(n)*0.5
def textbook(x,P,z,A,Hm,q,r):
    xp=A@x; Pp=A@P@A.T+q
    K=Pp@Hm.T@np.linalg.inv(Hm@Pp@Hm.T+r)
    corr=K@(z-Hm@xp)
    return xp+corr, Pp-K@Hm@Pp, corr
bad={}
for trial in range(200):
    model=[F.velocity_kalman_model,F.reverse_velocity_kalman_model,F.static_kalman_model][rng.randint(3)]
    ks=model(); A=ks.translation_matrix.astype(float); Hm=ks.observation_matrix.astype(float)
    sl=A.shape[0]; ol=Hm.shape[0]
    # abstract state: dict id -> (x,P,[corrs])
    abs_state={}; ids=[]  # ids in current index order
    nextid=0
    for frame in range(rng.randint(2,8)):
        nold=len(ids)
        # choose kept subset permuted, plus new
        kept=[i for i in range(nold) if rng.rand()<0.7]; rng.shuffle(kept)
        nnew=rng.randint(0,4)
        slots=[("old",k) for k in kept]+[("new",None)]*nnew
        rng.shuffle(slots)
        if rng.rand()<0.1: slots=[]
        old_indices=np.array([s[1] if s[0]=="old" else -1 for s in slots],int)
        n=len(slots)
        coords=rng.randn(n,ol)*5
        q=np.array([spd(sl) for _ in range(n)]).reshape(n,sl,sl); r=np.array([spd(ol) for _ in range(n)]).reshape(n,ol,ol)
        before=copy.deepcopy((ks.state_vec,ks.state_cov,ks.noise_var,ks.state_noise,ks.state_noise_idx))
        try:
            ks2=F.kalman_filter(ks,old_indices,coords,q,r)
        except Exception as ex:
            bad.setdefault(("EXC",type(ex).__name__,str(ex)[:80]),[]).append((old_indices.tolist(),)); break
        after=(ks.state_vec,ks.state_cov,ks.noise_var,ks.state_noise,ks.state_noise_idx)
        if not all(np.array_equal(a,b) for a,b in zip(before,after)): bad.setdefault("input-modified",[]).append(1)
        new_abs={}; new_ids=[]
        for k,s in enumerate(slots):
            if s[0]=="old":
                fid=ids[s[1]]; x,P,cs=abs_state[fid]
                x2,P2,c=textbook(x,P,coords[k],A,Hm,q[k],r[k]); new_abs[fid]=(x2,P2,cs+[c]); new_ids.append(fid)
            else:
                fid=nextid; nextid+=1
                x=Hm.T@coords[k]
                cv=F.SMALL_KALMAN_COV/(Hm.T@np.ones(ol)); cv[~np.isfinite(cv)]=F.LARGE_KALMAN_COV
                new_abs[fid]=(x,np.diag(cv),[]); new_ids.append(fid)
        abs_state=new_abs; ids=new_ids; ks=ks2
        if n==0:
            if len(ks.state_vec)!=0: bad.setdefault("empty",[]).append(1)
            continue
        for k,fid in enumerate(ids):
            x,P,cs=abs_state[fid]
            if not np.allclose(ks.state_vec[k],x,rtol=1e-8,atol=1e-8): bad.setdefault("vec",[]).append((frame,k))
            if not np.allclose(ks.state_cov[k],P,rtol=1e-8,atol=1e-8): bad.setdefault("cov",[]).append((frame,k))
            exp = np.ones(sl) if len(cs)==0 else np.var(np.array(cs),axis=0)
            if not np.allclose(ks.noise_var[k],exp,rtol=1e-7,atol=1e-9): bad.setdefault("noise_var",[]).append((frame,k,ks.noise_var[k].tolist(),exp.tolist(),len(cs)))
print({k:len(v) for k,v in bad.items()})
for k,v in list(bad.items())[:5]: print(k,v[0])
