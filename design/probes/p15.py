import numpy as np, warnings, itertools
warnings.filterwarnings("ignore")
import scipy.ndimage as nd
import centrosome.cpmorphology as M
rng=np.random.RandomState(0)
e8=np.ones((3,3),bool); e4=nd.generate_binary_structure(2,1)
bad=dict(euler=0,nb=0,col=0,cc=0,rel=0,exc=0)
for t in range(1000):
    H,W=rng.randint(1,9,2)
    lab=rng.randint(0,5,(H,W))*(rng.rand(H,W)<rng.choice([0.5,0.9,1.0]))
    if rng.rand()<0.3: lab=lab*3  # absent labels
    idx=[l for l in range(1,lab.max()+2)]
    try:
        e=M.euler_number(lab,idx)
        for k,l in enumerate(idx):
            m=lab==l
            nfg=nd.label(m,e8)[1]; nbg=nd.label(np.pad(~m,1,constant_values=True),e4)[1]-1
            if e[k]!=nfg-nbg: bad["euler"]+=1
        if lab.max()>0:
            cnt,ind,nb=M.find_neighbors(lab)
            for l in range(1,lab.max()+1):
                got=set(nb[ind[l-1]:ind[l-1]+cnt[l-1]])
                dil=nd.binary_dilation(lab==l,e8)
                exp=set(np.unique(lab[dil]))-{0,l} if (lab==l).any() else set()
                if got!=exp: bad["nb"]+=1
            col=M.color_labels(lab)
            if ((col==0)!=(lab==0)).any(): bad["col"]+=1
            for l in range(1,lab.max()+1):
                if (lab==l).any() and len(np.unique(col[lab==l]))!=1: bad["col"]+=1
            # adjacent different labels different colours
            P=np.pad(lab,1); C=np.pad(col,1)
            for di,dj in [(0,1),(1,0),(1,1),(1,-1)]:
                a=P[1:-1,1:-1]; b=np.roll(np.roll(P,-di,0),-dj,1)[1:-1,1:-1]
                ca=C[1:-1,1:-1]; cb=np.roll(np.roll(C,-di,0),-dj,1)[1:-1,1:-1]
                if ((a>0)&(b>0)&(a!=b)&(ca==cb)).any(): bad["col"]+=1
        r,n=M.relabel(lab)
        u=np.unique(lab[lab>0])
        if n!=len(u): bad["rel"]+=1
        for k,l in enumerate(u):
            if not np.array_equal(r==k+1,lab==l): bad["rel"]+=1
    except Exception as ex:
        bad["exc"]+=1
        if bad["exc"]<4: print("EXC",type(ex).__name__,str(ex)[:100],lab.tolist())
for t in range(1000):
    nv=rng.randint(1,12); ne=rng.randint(0,15)
    i=rng.randint(0,nv,ne); j=rng.randint(0,nv,ne)
    try:
        lab=M.all_connected_components(i,j)
    except Exception as ex:
        bad["exc"]+=1; 
        if bad["exc"]<6: print("cc EXC",type(ex).__name__,str(ex)[:80],i,j)
        continue
    if ne==0: continue
    n=len(lab)
    # union find
    p=list(range(n))
    def f(x):
        while p[x]!=x: x=p[x]
        return x
    for a,b in zip(i,j): p[f(a)]=f(b)
    for a in range(n):
        for b in range(n):
            if (lab[a]==lab[b])!=(f(a)==f(b)): bad["cc"]+=1
print("C15",bad)
