import numpy as np, warnings
warnings.filterwarnings("ignore")
import scipy.ndimage as nd
import centrosome.cpmorphology as M
from centrosome import zernike as Z, haralick as Hk
rng=np.random.RandomState(0)
def measures(lab,img,idx):
    out={}
    idx=np.array(idx,dtype=np.int32)
    e=M.ellipse_from_second_moments(np.ones(lab.shape),lab,idx,True)
    out["ell_center"]=e[0]; out["ell_ecc"]=e[1]; out["ell_major"]=e[2]; out["ell_minor"]=e[3]; out["ell_theta"]=e[4]; out["ell_comp"]=e[5]
    out["perim"]=M.calculate_perimeters(lab,idx)
    out["euler"]=M.euler_number(lab,idx)
    out["charea"]=M.calculate_convex_hull_areas(lab,idx)
    out["solidity"]=M.calculate_solidity(lab,idx)
    out["extent"]=M.calculate_extents(lab,idx)
    c,r=M.minimum_enclosing_circle(lab,idx); out["mec_c"]=c; out["mec_r"]=r
    h,cnt=M.convex_hull(lab,idx); mn,mx=M.feret_diameter(h,cnt,idx); out["feret_min"]=mn; out["feret_max"]=mx
    out["median"]=M.median_of_labels(img,lab,idx)
    out["skel_len"]=M.skeleton_length(M.skeletonize_labels(lab),idx)
    out["zernike"]=Z.zernike(Z.get_zernike_indexes(4),lab,idx)
    return out
def har(lab,img):
    h=Hk.Haralick(img,lab,3,0)
    return np.array(h.all())   # features x objects
bad={}
for t in range(150):
    H,W=rng.randint(6,16,2)
    n=rng.randint(2,5)
    # blobs as labels via random seeds nearest
    pts=np.array([(rng.randint(H),rng.randint(W)) for _ in range(n)])
    yy,xx=np.mgrid[0:H,0:W]
    d=np.stack([(yy-p[0])**2+(xx-p[1])**2 for p in pts]); lab=d.argmin(0)+1
    lab=lab*(d.min(0)<rng.choice([4,9,25]))
    present=[l for l in range(1,n+1) if (lab==l).any()]
    if len(present)<2: continue
    img=rng.randint(0,16,(H,W))/16.0
    idx=list(present)
    try:
        full=measures(lab,img,idx)
        for k,l in enumerate(idx):
            alone=np.where(lab==l,lab,0)
            img2=img.copy(); img2[lab!=l]=rng.rand()
            one=measures(alone,img2,[l])
            for name in full:
                a=np.asarray(full[name])[k]; b=np.asarray(one[name])[0]
                if name=="ell_theta":
                    dlt=abs(((a-b)+np.pi/2)%np.pi-np.pi/2); ok=dlt<1e-9
                else: ok=np.allclose(a,b,rtol=1e-9,atol=1e-12,equal_nan=True)
                if not ok: bad.setdefault(name,[]).append((lab.tolist(),l,np.asarray(a).tolist(),np.asarray(b).tolist()))
        # permutation of idx
        perm=list(rng.permutation(idx))
        pm=measures(lab,img,perm)
        for name in full:
            for k,l in enumerate(perm):
                a=np.asarray(pm[name])[k]; b=np.asarray(full[name])[idx.index(l)]
                if not np.allclose(a,b,rtol=1e-9,atol=1e-12,equal_nan=True): bad.setdefault("perm-"+name,[]).append(1)
        hf=har(lab,img)
        for k,l in enumerate(range(1,lab.max()+1)):
            if l not in present: continue
            m=lab==l
            if not (m[:-3,:]&m[3:,:]).any(): continue
            alone=np.where(lab==l,lab,0); img2=img.copy(); img2[lab!=l]=rng.rand()
            ho=har(alone,img2)
            a=hf[:,l-1]; b=ho[:,l-1]
            if not np.allclose(a,b,rtol=1e-9,atol=1e-12,equal_nan=True): bad.setdefault("haralick",[]).append((lab.tolist(),l,a.tolist(),b.tolist()))
    except Exception as ex:
        bad.setdefault(("EXC",type(ex).__name__,str(ex)[:80]),[]).append(lab.tolist())
print({k:len(v) for k,v in bad.items()})
for k,v in list(bad.items())[:6]:
    x=v[0]; print(k, (x[1:] if isinstance(x,tuple) else ""))
