import numpy as np, warnings, inspect
warnings.filterwarnings("ignore")
import centrosome.cpmorphology as M, centrosome.filter as F, centrosome.threshold as T, centrosome.otsu as O, centrosome.smooth as S
import centrosome.rankorder as R, centrosome.outline as OL, centrosome.propagate as P, centrosome.lapjv as L, centrosome.zernike as Z, centrosome.haralick as Hk
rng=np.random.RandomState(0)
H,W=12,13
img=rng.rand(H,W); binimg=rng.rand(H,W)<0.6; mask=rng.rand(H,W)<0.8
lab=np.zeros((H,W),int); lab[1:5,1:6]=1; lab[6:11,3:9]=2; lab[2:4,8:12]=3
def variants(a):
    yield "C",np.ascontiguousarray(a)
    yield "F",np.asfortranarray(a)
    big=np.zeros((a.shape[0]*2,a.shape[1]*2),a.dtype); big[::2,::2]=a; yield "view",big[::2,::2]
calls=[]
def add(name,fn,*argspec,**kw): calls.append((name,fn,argspec,kw))
I,B,Mk,Lb="img","bin","mask","lab"
for nm in "bridge clean diag endpoints branchpoints fill fill4 hbreak vbreak majority remove spur thicken thin skeletonize".split():
    add(nm,getattr(M,nm),B); add(nm+"+mask",getattr(M,nm),B,Mk)
for nm in "grey_erosion grey_dilation opening closing white_tophat black_tophat".split():
    add(nm,getattr(M,nm),I); add(nm+"+mask",lambda a,m,f=getattr(M,nm): f(a,mask=m),I,Mk)
add("binary_shrink",M.binary_shrink,B); add("skeletonize_labels",M.skeletonize_labels,Lb)
add("fill_labeled_holes",M.fill_labeled_holes,Lb); add("relabel",M.relabel,Lb); add("convex_hull",M.convex_hull,Lb)
add("euler_number",lambda l:M.euler_number(l,[1,2,3]),Lb); add("find_neighbors",M.find_neighbors,Lb); add("color_labels",M.color_labels,Lb)
add("distance_color_labels",M.distance_color_labels,Lb)
add("regional_maximum",M.regional_maximum,I); add("regional_maximum+mask",M.regional_maximum,I,Mk)
add("is_local_maximum",lambda a,l:M.is_local_maximum(a,l,np.ones((3,3),bool)),I,Lb)
add("grey_reconstruction",lambda a:M.grey_reconstruction(a*0.5,a),I)
add("median_of_labels",lambda a,l:M.median_of_labels(a,l,[1,2,3]),I,Lb)
add("calculate_perimeters",lambda l:M.calculate_perimeters(l,[1,2,3]),Lb)
add("calculate_convex_hull_areas",lambda l:M.calculate_convex_hull_areas(l,[1,2,3]),Lb)
add("minimum_enclosing_circle",lambda l:M.minimum_enclosing_circle(l,[1,2,3]),Lb)
add("ellipse",lambda a,l:M.ellipse_from_second_moments(a,l,[1,2,3]),I,Lb)
add("centers_of_labels",M.centers_of_labels,Lb); add("distance_to_edge",M.distance_to_edge,Lb); add("label_skeleton",M.label_skeleton,B)
add("skeleton_length",lambda l:M.skeleton_length(l,[1,2,3]),Lb); add("adjacent",M.adjacent,Lb); add("table_idx_from_labels",M.table_idx_from_labels,Lb)
add("stretch",F.stretch,I); add("stretch+mask",F.stretch,I,Mk); add("median_filter",lambda a,m:F.median_filter(a,m,2),I,Mk)
for nm in "roberts sobel hsobel vsobel prewitt hprewitt vprewitt".split(): add(nm,getattr(F,nm),I,Mk)
add("canny",lambda a,m:F.canny(a,m,1.0,0.1,0.2),I,Mk); add("log",lambda a,m:F.laplacian_of_gaussian(a,m,5,1.0),I,Mk)
add("variance_transform",lambda a,m:F.variance_transform(a,1.0,m),I,Mk); add("caf",lambda a,m:F.circular_average_filter(a,2,m),I,Mk)
add("enhance_dark_holes",lambda a,m:F.enhance_dark_holes(a,1,3,m),I,Mk); add("hessian",lambda a:F.hessian(a),I)
add("circular_hough",lambda a,m:F.circular_hough(a,3,mask=m),I,Mk); add("convex_hull_transform",lambda a,m:F.convex_hull_transform(a,mask=m),I,Mk)
add("smooth_wfm",lambda a,m:S.smooth_with_function_and_mask(a,lambda x:F.gaussian_filter(x,1.0),m),I,Mk); add("smooth_with_noise",lambda a:S.smooth_with_noise(a,7),I)
add("fit_polynomial",lambda a,m:S.fit_polynomial(a,m),I,Mk)
for meth in T.TM_METHODS:
    add("thr-"+meth,lambda a,m,meth=meth:T.get_threshold(meth,T.TM_GLOBAL,a,mask=m,threshold_range_min=0,threshold_range_max=1),I,Mk)
    add("thrPO-"+meth,lambda a,m,l,meth=meth:T.get_threshold(meth,T.TM_PER_OBJECT,a,mask=m,labels=l,threshold_range_min=0,threshold_range_max=1),I,Mk,Lb)
add("otsu",lambda a:O.otsu(a.ravel()),I); add("otsu2d",O.otsu,I); add("entropy",O.entropy,I); add("otsu3",O.otsu3,I); add("entropy3",O.entropy3,I)
add("rank_order",R.rank_order,I); add("rank_order8",lambda a:R.rank_order(a,8),I); add("outline",OL.outline,Lb)
add("propagate",lambda a,l,m:P.propagate(a,l,m,1.0),I,Lb,Mk)
add("zernike",lambda l:Z.zernike(Z.get_zernike_indexes(4),l,[1,2,3]),Lb); add("haralick",lambda a,l:Hk.Haralick(a,l,2,0).all(),I,Lb)
src={"img":img,"bin":binimg,"mask":mask,"lab":lab}
mut={}; exc={}
for name,fn,argspec,kw in calls:
    for layout in ("C","F","view"):
        args=[dict(variants(src[a]))[layout].copy() if layout!="view" else dict(variants(src[a]))[layout] for a in argspec]
        before=[a.copy() for a in args]
        try: fn(*args)
        except Exception as ex:
            exc.setdefault((name,layout),f"{type(ex).__name__}: {str(ex)[:70]}"); continue
        for k,(a,b) in enumerate(zip(args,before)):
            if not np.array_equal(a,b,equal_nan=True): mut.setdefault(name,set()).add((layout,argspec[k]))
print("MUTATED:",mut)
print("EXC:",len(exc)); 
for k,v in list(exc.items())[:25]: print(" ",k,v)
