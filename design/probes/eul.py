import numpy as np
import centrosome.cpmorphology as M
S=np.load("/var/tmp/cs_scratch/S.npy")
bad=0
for i in range(512):
    if not (i&16): continue
    p=M.pattern_of(i).astype(int); q=p.copy(); q[1,1]=0
    e1=M.euler_number(p,[1])[0]; e0=M.euler_number(q,[1])[0] if q.any() else 0.0
    if S[i] and e1!=e0: bad+=1
print("simple patterns changing bit-quad euler:",bad, "simple count", S.sum())
