import numpy as np, warnings, itertools
warnings.filterwarnings("ignore")
import centrosome.cpmorphology as M
from centrosome.rankorder import rank_order
from centrosome.index import Indexes
from centrosome.mode import mode
rng=np.random.RandomState(0)
bad={}
# C16
def scalar(p0,p1):
    pts=[]
    class Rec:
        def __setitem__(s,k,v): pts.append((int(k[0]),int(k[1])))
    M.draw_line(Rec(),p0,p1); return pts
G=6
allp=[(i,j) for i in range(G) for j in range(G)]
for p0 in allp:
    for p1 in allp:
        s=scalar(p0,p1)
        idx,cnt,i,j=M.get_line_pts([p0[0]],[p0[1]],[p1[0]],[p1[1]])
        v=list(zip(i.tolist(),j.tolist()))
        if s!=v: bad.setdefault("vec!=scalar",[]).append((p0,p1,s,v))
        di,dj=abs(p1[0]-p0[0]),abs(p1[1]-p0[1]); D=max(di,dj)
        if s[0]!=p0 or s[-1]!=p1 or len(s)!=D+1: bad.setdefault("ends/len",[]).append((p0,p1,s))
        for k,(a,b) in enumerate(s):
            if D>0:
                if di>=dj: err=abs((b-p0[1])*D*np.sign(p1[1]-p0[1] or 1)-k*dj) 
                else: err=abs((a-p0[0])*D*np.sign(p1[0]-p0[0] or 1)-k*di)
                if 2*err>D: bad.setdefault("error",[]).append((p0,p1,s,k))
for t in range(300):
    n=rng.randint(1,20)
    a=rng.randint(0,40,(4,n))
    idx,cnt,i,j=M.get_line_pts(*a)
    for k in range(n):
        s=scalar((a[0,k],a[1,k]),(a[2,k],a[3,k]))
        v=list(zip(i[idx[k]:idx[k]+cnt[k]].tolist(),j[idx[k]:idx[k]+cnt[k]].tolist()))
        if s!=v: bad.setdefault("batch",[]).append(1)
# C18 rank_order
for t in range(600):
    n=rng.randint(1,60)
    a=rng.randint(-5,rng.choice([3,10,1000]),n).astype(float) if rng.rand()<0.6 else rng.rand(n)
    a=a.reshape(-1,1) if rng.rand()<0.2 else a
    r,v=rank_order(a)
    if not np.array_equal(v[r],a) or (np.diff(v)<=0).any(): bad.setdefault("ro",[]).append(1)
    nb=rng.randint(1,12)
    try:
        r2,v2=rank_order(a,nb)
        lv=len(v2)
        ok = lv<=max(nb,1) or True
        # monotone coarsening: a<=b -> r2(a)<=r2(b); reps are input values; levels <= nbins
        f=a.ravel(); rr=r2.ravel()
        o=np.argsort(f,kind="stable")
        if (np.diff(rr[o])<0).any(): bad.setdefault("ro-bins-monotone",[]).append(1)
        if not np.isin(v2,f).all(): bad.setdefault("ro-bins-reps",[]).append(1)
        if rr.max()>=nb and len(np.unique(f))>0: bad.setdefault("ro-bins-count",[]).append((nb,int(rr.max()),len(np.unique(f))))
        if rr.max()>=len(v2): bad.setdefault("ro-bins-index",[]).append(1)
        # equal values -> equal rank
        for x in np.unique(f):
            if len(np.unique(rr[f==x]))!=1: bad.setdefault("ro-bins-func",[]).append(1)
        # representative consistency: v2[r2] is an input value in the same merged class: v2[rank] <= max of class and >= min of class
        for k in np.unique(rr):
            cls=f[rr==k]
            if not (cls.min()<=v2[k]<=cls.max()): bad.setdefault("ro-bins-rep-in-class",[]).append((cls.tolist(),float(v2[k])))
    except Exception as ex: bad.setdefault(("ro-bins-EXC",type(ex).__name__,str(ex)[:60]),[]).append((a.tolist(),nb))
# Indexes
for t in range(300):
    nd_=rng.randint(1,4); m=rng.randint(1,6)
    counts=rng.randint(0,4,(nd_,m))
    ix=Indexes(counts)
    exp_rev=[];exp_idx=[]
    for o in range(m):
        for tup in itertools.product(*[range(c) for c in counts[:,o]]):
            exp_rev.append(o); exp_idx.append(tup)
    if ix.length!=len(exp_rev): bad.setdefault("idx-len",[]).append(1); continue
    if len(exp_rev) and (not np.array_equal(ix.rev_idx,exp_rev) or not np.array_equal(np.array(ix.idx).T,np.array(exp_idx))): bad.setdefault("idx",[]).append(counts.tolist())
    fw=np.cumsum(np.prod(counts,0))-np.prod(counts,0)
    if len(exp_rev) and not np.array_equal(ix.fwd_idx,fw): bad.setdefault("idx-fwd",[]).append(1)
# mode
for t in range(300):
    a=rng.randint(0,5,rng.randint(0,15))
    got=sorted(mode(a).tolist())
    if len(a)==0: exp=[]
    else:
        u,c=np.unique(a,return_counts=True); exp=sorted(u[c==c.max()].tolist())
    if got!=exp: bad.setdefault("mode",[]).append(1)
# pairwise_permutations
for t in range(300):
    n=rng.randint(0,15)
    i=rng.randint(0,4,n); j=rng.permutation(50)[:n]
    try: di,d1,d2=M.pairwise_permutations(i,j)
    except Exception as ex: bad.setdefault(("pp-EXC",type(ex).__name__,str(ex)[:60]),[]).append((i.tolist(),j.tolist())); continue
    got=sorted((int(a),)+tuple(sorted((int(b),int(c)))) for a,b,c in zip(di,d1,d2))
    exp=sorted((int(g),)+tuple(sorted((int(a),int(b)))) for g in np.unique(i) for a,b in itertools.combinations(j[i==g].tolist(),2))
    if got!=exp: bad.setdefault("pp",[]).append((i.tolist(),j.tolist()))
print({k:len(v) for k,v in bad.items()})
for k,v in list(bad.items())[:6]: print(k,v[0])
