import numpy as np, warnings
warnings.filterwarnings("ignore")
import scipy.ndimage as nd
import centrosome.cpmorphology as M
rng=np.random.RandomState(0)
e4=nd.generate_binary_structure(2,1)
def spec(lab):
    H,W=lab.shape
    bl,nb=nd.label(lab==0,e4)
    L=lab.max()
    reg=np.where(lab>0,lab,0)+np.where(bl>0,bl+L,0)   # region ids: objects 1..L, bg L+1..
    ids=set(np.unique(reg)); 
    adj={r:set() for r in ids}
    for (a,b) in [(reg[:-1,:],reg[1:,:]),(reg[:,:-1],reg[:,1:])]:
        for x,y in zip(a.ravel(),b.ravel()):
            if x!=y: adj[x].add(y); adj[y].add(x)
    isobj=lambda r: r<=L
    border=set(reg[0,:])|set(reg[-1,:])|set(reg[:,0])|set(reg[:,-1])
    U=set(border)
    changed=True
    while changed:
        changed=False
        for r in ids-U:
            un=[q for q in adj[r] if q in U]
            if isobj(r) and any(not isobj(q) for q in un): U.add(r); changed=True; continue
            if len(set(q for q in un if isobj(q)))>=2: U.add(r); changed=True
    out=lab.copy()
    # clusters of changed regions
    C=ids-U; seen=set()
    for r in C:
        if r in seen: continue
        comp=[r]; seen.add(r); st=[r]
        while st:
            x=st.pop()
            for q in adj[x]:
                if q in C and q not in seen: seen.add(q); comp.append(q); st.append(q)
        par=set(q for x in comp for q in adj[x] if q in U)
        assert len(par)==1 and isobj(list(par)[0]), (par,)
        p=list(par)[0]
        for x in comp: out[reg==x]=p
    return out
bad=0
for t in range(1500):
    H,W=rng.randint(1,9,2)
    k=rng.choice(["rand","rings","bin"])
    if k=="rand": lab=rng.randint(0,4,(H,W))*(rng.rand(H,W)<0.8)
    elif k=="bin": lab=(rng.rand(H,W)<0.6).astype(int)
    else:
        lab=np.zeros((H,W),int)
        for r in range(min(H,W)//2+1):
            if r%2==0: 
                v=rng.randint(1,3)
                lab[r:H-r,r:W-r]=v
            else: lab[r:H-r,r:W-r]=rng.choice([0,0,3])
    got=M.fill_labeled_holes(lab)
    try: exp=spec(lab)
    except AssertionError as e:
        print("spec assertion",e, lab.tolist()); bad+=1; continue
    if not np.array_equal(got,exp):
        bad+=1
        if bad<3: print(lab.tolist(),got.tolist(),exp.tolist())
    if not np.array_equal(M.fill_labeled_holes(got),got): print("not idempotent",lab.tolist())
    if k=="bin":
        ref=nd.binary_fill_holes(lab>0,e4)
        if not np.array_equal(got>0,ref): print("binary mismatch")
print("C08 bad",bad)
