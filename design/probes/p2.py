import numpy as np, warnings, itertools
warnings.filterwarnings("ignore")
import scipy.ndimage as nd
import centrosome.cpmorphology as M
rng=np.random.RandomState(0)
def cross(o,a,b): return (a[0]-o[0])*(b[1]-o[1])-(a[1]-o[1])*(b[0]-o[0])
def hull_ok(pts,V):
    S=set(map(tuple,pts)); V=[tuple(v) for v in V]
    if not all(v in S for v in V): return "notsubset"
    if len(set(V))!=len(V): return "dup"
    n=len(V)
    if n==0: return "empty" if len(S)>0 else None
    if n==1: return None if len(S)==1 else "1pt"
    if n==2:
        # all points collinear and between
        a,b=V
        for p in S:
            if cross(a,b,p)!=0: return "2pt-noncol"
            if not (min(a[0],b[0])<=p[0]<=max(a[0],b[0]) and min(a[1],b[1])<=p[1]<=max(a[1],b[1])): return "2pt-out"
        return None
    signs=set()
    for k in range(n):
        c=cross(V[k],V[(k+1)%n],V[(k+2)%n])
        if c==0: return "collinear"
        signs.add(c>0)
    if len(signs)!=1: return "nonconvex"
    sg = 1 if True in signs else -1
    for p in S:
        for k in range(n):
            if sg*cross(V[k],V[(k+1)%n],p)<0: return "outside"
    return None
bad={}
for t in range(1500):
    H,W=rng.randint(1,10,2)
    lab=rng.randint(0,4,(H,W))*(rng.rand(H,W)<rng.choice([0.3,0.7,1.0]))
    idx=list(rng.permutation([1,2,3,5]))
    hull,cnt=M.convex_hull(lab,idx)
    off=0
    for k,l in enumerate(idx):
        V=hull[off:off+cnt[k]]; off+=cnt[k]
        pts=np.argwhere(lab==l)
        if len(V) and not np.all(V[:,0]==l): bad.setdefault("label",[]).append(1)
        r=hull_ok(pts,V[:,1:]) if len(pts) else (None if cnt[k]==0 else "absent-nonzero")
        if r: bad.setdefault(r,[]).append((lab.tolist(),l))
        # independence
        if len(pts):
            alone=(lab==l)*l
            h2,c2=M.convex_hull(alone,[l])
            if not np.array_equal(h2,V): bad.setdefault("indep",[]).append((lab.tolist(),l))
print("C02",{k:len(v) for k,v in bad.items()}); 
for k,v in list(bad.items())[:2]: print(k,v[0])
