import numpy as np, sys, warnings
warnings.filterwarnings("ignore")
sys.path.insert(0,"/var/tmp/cs_scratch")
from propmodel import propagate_model
from centrosome.propagate import propagate
rng=np.random.RandomState(0)
bad=0; tot=0; lab_bad=0
for t in range(1500):
    m,n=rng.randint(1,9,2)
    k=rng.choice(["const","quant","rand","blocky"])
    img=np.ones((m,n))*0.5 if k=="const" else rng.randint(0,4,(m,n))/4.0 if k=="quant" else rng.rand(m,n) if k=="rand" else np.repeat(np.repeat(rng.randint(0,3,((m+2)//3,(n+2)//3))*rng.choice([0.1,0.3,1/3.0,0.7]),3,0),3,1)[:m,:n]
    labels=(rng.rand(m,n)<rng.choice([0.05,0.15,0.4]))*rng.randint(1,4,(m,n))
    mask=rng.rand(m,n)<rng.choice([0.6,0.9,1.0])
    weight=float(rng.choice([0,0,0.001,1,100]))
    lo,d=propagate(img,labels,mask,weight)
    ml,md=propagate_model(img.tolist(),labels.tolist(),mask.tolist(),weight)
    tot+=1
    if not np.array_equal(np.array(md),d): bad+=1
    if not np.array_equal(np.array(ml),lo): lab_bad+=1
print("propagate cases",tot,"distance mismatch (bitwise)",bad,"label mismatch",lab_bad)
