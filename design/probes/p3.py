import numpy as np, warnings, heapq, math
warnings.filterwarnings("ignore")
from centrosome.propagate import propagate
rng=np.random.RandomState(0)
def cf(img,i,j):
    m,n=img.shape
    i=0 if i<0 else m-1 if i>=m else i; j=0 if j<0 else n-1 if j>=n else j
    return img[i,j]
def w(img,i1,j1,i2,j2,weight):
    pd=0.0
    for di in (-1,0,1):
        for dj in (-1,0,1):
            v1=cf(img,i1+di,j1+dj); v2=cf(img,i2+di,j2+dj)
            pd += (v1-v2) if v1>v2 else (v2-v1)
    md=float(abs(i1-i2)+abs(j1-j2))
    return math.sqrt(pd*pd+md*weight*weight)
def ref(img,labels,mask,weight):
    m,n=img.shape
    dist=np.full((m,n),np.inf); 
    seeds=[(i,j) for i in range(m) for j in range(n) if labels[i,j]!=0 and mask[i,j]]
    # multi-source bellman-ford style to fixpoint using left-fold float sums: compute min over paths via label-correcting
    for (i,j) in seeds: dist[i,j]=0.0
    isseed=labels>0
    changed=True
    while changed:
        changed=False
        for i in range(m):
            for j in range(n):
                if not np.isfinite(dist[i,j]): continue
                for di in (-1,0,1):
                    for dj in (-1,0,1):
                        if di==0 and dj==0: continue
                        y,x=i+di,j+dj
                        if 0<=y<m and 0<=x<n and mask[y,x] and not isseed[y,x]:
                            d=w(img,i,j,y,x,weight)+dist[i,j]
                            if d<dist[y,x]: dist[y,x]=d; changed=True
    return dist
bad=0; ulp=0
for t in range(400):
    m,n=rng.randint(1,8,2)
    k=rng.choice(["const","quant","rand"])
    img=np.ones((m,n))*0.5 if k=="const" else rng.randint(0,4,(m,n))/4.0 if k=="quant" else rng.rand(m,n)
    labels=(rng.rand(m,n)<0.15)*rng.randint(1,4,(m,n))
    mask=rng.rand(m,n)<rng.choice([0.6,0.9,1.0])
    weight=float(rng.choice([0,0.001,1,100]))
    lo,d=propagate(img,labels,mask,weight)
    r=ref(img,labels,mask,weight)
    for i in range(m):
        for j in range(n):
            if labels[i,j]>0:
                if d[i,j]!=0 or lo[i,j]!=labels[i,j]: bad+=1
            elif np.isfinite(r[i,j]):
                if d[i,j]!=r[i,j]:
                    bad+=1
                    if abs(d[i,j]-r[i,j])<=2*np.spacing(r[i,j]): ulp+=1
                    if bad<4: print("dist mismatch",d[i,j].hex(),r[i,j].hex(),k,weight)
                if lo[i,j]==0: bad+=1
            else:
                if d[i,j]!=-1 or lo[i,j]!=0: bad+=1; print("unreach",d[i,j],lo[i,j],labels[i,j],mask[i,j])
print("C03 bad",bad,"within 2ulp",ulp)
