import numpy as np, warnings, itertools, math
warnings.filterwarnings("ignore")
import centrosome.cpmorphology as M
rng=np.random.RandomState(0)
def mec(pts):
    pts=[tuple(map(float,p)) for p in pts]
    best=None
    def ok(c,r): return all(math.hypot(p[0]-c[0],p[1]-c[1])<=r+1e-9 for p in pts)
    if len(pts)==1: return pts[0],0.0
    for a,b in itertools.combinations(pts,2):
        c=((a[0]+b[0])/2,(a[1]+b[1])/2); r=math.hypot(a[0]-b[0],a[1]-b[1])/2
        if ok(c,r) and (best is None or r<best[1]): best=(c,r)
    for a,b,c3 in itertools.combinations(pts,3):
        d=2*(a[0]*(b[1]-c3[1])+b[0]*(c3[1]-a[1])+c3[0]*(a[1]-b[1]))
        if abs(d)<1e-12: continue
        ux=((a[0]**2+a[1]**2)*(b[1]-c3[1])+(b[0]**2+b[1]**2)*(c3[1]-a[1])+(c3[0]**2+c3[1]**2)*(a[1]-b[1]))/d
        uy=((a[0]**2+a[1]**2)*(c3[0]-b[0])+(b[0]**2+b[1]**2)*(a[0]-c3[0])+(c3[0]**2+c3[1]**2)*(b[0]-a[0]))/d
        r=math.hypot(a[0]-ux,a[1]-uy)
        if ok((ux,uy),r) and (best is None or r<best[1]): best=((ux,uy),r)
    return best
bad=0;exc=0;tot=0
for t in range(500):
    H,W=rng.randint(1,10,2)
    nl=rng.randint(1,4)
    lab=rng.randint(0,nl+1,(H,W))*(rng.rand(H,W)<rng.choice([0.3,0.7,1.0]))
    if rng.rand()<0.2: lab[:]=0; lab[H//2:,W//2:]=1  # rectangle
    idx=list(rng.permutation(np.arange(1,nl+1)))
    try:
        c,r=M.minimum_enclosing_circle(lab,idx)
    except Exception as ex:
        exc+=1
        if exc<4: print("EXC",type(ex).__name__,str(ex)[:100],lab.tolist(),idx)
        continue
    for k,l in enumerate(idx):
        pts=np.argwhere(lab==l)
        if len(pts)==0: continue
        tot+=1
        hull,cnt=M.convex_hull((lab==l).astype(int),[1])
        bc,br=mec(hull[:,1:])
        if abs(br-r[k])>1e-7 or math.hypot(bc[0]-c[k,0],bc[1]-c[k,1])>1e-6:
            bad+=1
            if bad<5: print("MEC",pts.tolist(),c[k],r[k],bc,br)
print("C14 MEC bad",bad,"of",tot,"exc",exc)
# fill_convex_hulls
badf=0
for t in range(500):
    H,W=rng.randint(1,10,2)
    lab=rng.randint(0,3,(H,W))*(rng.rand(H,W)<rng.choice([0.3,0.7,1.0]))
    idx=[l for l in (1,2) if (lab==l).any()]
    if not idx: continue
    hull,cnt=M.convex_hull(lab,idx)
    ijv=M.fill_convex_hulls(hull,cnt)
    got=set(map(tuple,ijv.tolist()))
    if len(got)!=len(ijv): badf+=1
    exp=set(); off=0
    for k,l in enumerate(idx):
        V=hull[off:off+cnt[k],1:]; off+=cnt[k]
        n=len(V)
        for i in range(H):
            for j in range(W):
                if n==1: inside=(i,j)==tuple(V[0])
                elif n==2:
                    a,b=V; cr=(b[0]-a[0])*(j-a[1])-(b[1]-a[1])*(i-a[0])
                    inside= cr==0 and min(a[0],b[0])<=i<=max(a[0],b[0]) and min(a[1],b[1])<=j<=max(a[1],b[1])
                else:
                    s=[(V[(q+1)%n][0]-V[q][0])*(j-V[q][1])-(V[(q+1)%n][1]-V[q][1])*(i-V[q][0]) for q in range(n)]
                    inside=all(x>=0 for x in s) or all(x<=0 for x in s)
                if inside: exp.add((i,j,l))
    if got!=exp:
        badf+=1
        if badf<4: print("FILL",lab.tolist(),sorted(got-exp),sorted(exp-got))
print("fill bad",badf)
