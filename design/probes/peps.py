import numpy as np, itertools, warnings
from fractions import Fraction
from centrosome.lapjv import lapjv
rng=np.random.RandomState(0)
bad=0;tot=0;ex=None;worst=0;byk={0:0,1:0,2:0,3:0}
for t in range(2000):
    n=rng.randint(2,6)
    g=2.0**-rng.choice([28,30,33])
    C=rng.randint(0,3,(n,n)).astype(float)+rng.randint(0,4,(n,n))*g
    ii,jj=np.mgrid[0:n,0:n]
    for k in (0,1,2,3):
        x,y=lapjv(ii.ravel(),jj.ravel(),C.ravel(),augmenting_row_reductions=k)
        c=sum(Fraction(C[i,x[i]]) for i in range(n))
        b=min(sum(Fraction(C[i,p[i]]) for i in range(n)) for p in itertools.permutations(range(n)))
        tot+=1
        if c!=b:
            bad+=1; byk[k]+=1; worst=max(worst,float(c-b))
            if ex is None: ex=(n,k,C.tolist(),x.tolist(),float(c-b))
print("eps probe: nonoptimal",bad,"of",tot,"worst excess",worst); print(ex, byk)
