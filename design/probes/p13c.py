import numpy as np, warnings
warnings.filterwarnings("ignore")
import centrosome.cpmorphology as M
rng=np.random.RandomState(0); bad={}
for t in range(300):
    H,W=rng.randint(4,14,2); n=rng.randint(1,5)
    pts=np.array([(rng.randint(H),rng.randint(W)) for _ in range(n)])
    yy,xx=np.mgrid[0:H,0:W]
    d=np.stack([(yy-p[0])**2+(xx-p[1])**2 for p in pts]); lab=d.argmin(0)+1
    lab=lab*(d.min(0)<rng.choice([4,9,25]))
    sk=M.skeletonize_labels(lab) if rng.rand()<0.5 else lab*(rng.rand(H,W)<0.5)
    idx=[l for l in range(1,n+1)]
    base=M.skeleton_length(sk,idx)
    pt,pb,pl,pr=rng.randint(0,5,4)
    tr=M.skeleton_length(np.pad(sk,((pt,pb),(pl,pr))),idx)
    if not np.allclose(base,tr): bad.setdefault("translate",[]).append((sk.tolist(),base.tolist(),tr.tolist()))
    for k,l in enumerate(idx):
        al=M.skeleton_length(np.where(sk==l,sk,0),[l])
        if not np.allclose(al[0],base[k]): bad.setdefault("alone",[]).append((sk.tolist(),l,float(al[0]),float(base[k])))
    perm=list(rng.permutation(idx)); pm=M.skeleton_length(sk,perm)
    if not np.allclose(pm,[base[idx.index(l)] for l in perm]): bad.setdefault("perm",[]).append(1)
print({k:len(v) for k,v in bad.items()})
for k,v in list(bad.items())[:3]: print(k,v[0])
