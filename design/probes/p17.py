import numpy as np, warnings, itertools
warnings.filterwarnings("ignore")
import scipy.ndimage as nd
import centrosome.cpmorphology as M
rng=np.random.RandomState(0)
e8=np.ones((3,3),bool); e4=nd.generate_binary_structure(2,1)
# C17
bad=dict(ilm=0,rm=0,rm1=0,exc=0)
for t in range(800):
    H,W=rng.randint(1,9,2)
    img=rng.randint(0,4,(H,W)).astype(float) if rng.rand()<0.6 else rng.rand(H,W)
    lab=rng.randint(0,3,(H,W))
    fh,fw=rng.choice([3,5,7]),rng.choice([3,5,7])
    fp=rng.rand(fh,fw)<0.6
    try: got=M.is_local_maximum(img,lab,fp)
    except Exception as e:
        bad["exc"]+=1
        if bad["exc"]<4: print("ilm EXC",type(e).__name__,str(e)[:80],(H,W),(fh,fw))
        continue
    exp=np.zeros((H,W),bool)
    for i in range(H):
        for j in range(W):
            if lab[i,j]>0:
                ok=True
                for a in range(fh):
                    for b in range(fw):
                        if fp[a,b]:
                            y,x=i+a-fh//2,j+b-fw//2
                            if 0<=y<H and 0<=x<W and lab[y,x]==lab[i,j] and img[y,x]>img[i,j]: ok=False
                exp[i,j]=ok
    if not np.array_equal(got,exp):
        bad["ilm"]+=1
        if bad["ilm"]<3: print("ilm",(H,W),(fh,fw))
for t in range(800):
    H,W=rng.randint(1,9,2)
    img=rng.randint(0,3,(H,W)).astype(float)
    mask=None if rng.rand()<0.3 else rng.rand(H,W)<0.85
    st=None if rng.rand()<0.5 else e4
    got=M.regional_maximum(img,mask,st,True)
    s=e8 if st is None else st
    exp=np.zeros((H,W),bool)
    for i in range(H):
        for j in range(W):
            ok=True
            for a in range(3):
                for b in range(3):
                    if s[a,b] and (a,b)!=(1,1):
                        y,x=i+a-1,j+b-1
                        if not(0<=y<H and 0<=x<W) or (mask is not None and not mask[y,x]): ok=False
                        elif img[y,x]>img[i,j]: ok=False
            exp[i,j]=ok
    if not np.array_equal(got,exp): 
        bad["rm"]+=1
        if bad["rm"]<3: print("rm",img.tolist(),None if mask is None else mask.astype(int).tolist(),st is None,got.astype(int).tolist(),exp.astype(int).tolist())
    if st is None:
        g1=M.regional_maximum(img,mask,None,False)
        l,n=nd.label(exp,e8)
        cnt=nd.sum(g1,l,np.arange(1,n+1)) if n else []
        if (g1&~exp).any() or any(c!=1 for c in np.atleast_1d(cnt)): bad["rm1"]+=1
print("C17",bad)
