import numpy as np, sys
sys.path.insert(0,"/var/tmp/cs_scratch")
from medmodel import median_model
from centrosome._filter import median_filter as mf
def octa(radius):
    a=int(radius*2.0/2.414213); a2=a//2
    if a2==0: a2=1
    r=radius
    if r<=a2: r=a2+1
    return r,a2
def naive(data,mask,radius,percent):
    r,a2=octa(radius); H,W=data.shape; out=np.zeros_like(data)
    for i in range(H):
        for j in range(W):
            vals=[]
            for di in range(-r,r+1):
                for dj in range(-r,r+1):
                    if abs(di)+abs(dj)<=r+a2:
                        y,x=i+di,j+dj
                        if 0<=y<H and 0<=x<W and mask[y,x]: vals.append(int(data[y,x]))
            k=len(vals)
            if k==0: out[i,j]=0; continue
            vals.sort(); out[i,j]=vals[max(1,(k*percent+50)//100)-1]
    return out
rng=np.random.RandomState(2)
res={}
for radius in (1,2,3,4,5,7):
    bad=0; badfix=0; exc=0; n=0
    for t in range(40 if radius<5 else 15):
        H,W=rng.randint(1,11,2)
        data=rng.randint(0,256,(H,W)).astype(np.uint8); mask=(rng.rand(H,W)<rng.choice([0.5,0.8,1.0])).astype(np.uint8)
        pct=int(rng.choice([0,25,50,75,100]))
        out=np.zeros_like(data); mf(data,mask,out,radius,pct)
        n+=1
        try:
            m=np.array(median_model(data.tolist(),mask.tolist(),radius,pct,"asis"),np.uint8)
            if not np.array_equal(m,out): bad+=1
        except AssertionError as e: exc+=1
        f=np.array(median_model(data.tolist(),mask.tolist(),radius,pct,"fixed"),np.uint8)
        if not np.array_equal(f,naive(data,mask,radius,pct)): badfix+=1
    res[radius]=(n,bad,exc,badfix)
print("radius: (cases, asis-model!=impl, model assertion, fixed-model!=octagon spec)"); print(res)
