import numpy as np, warnings
warnings.filterwarnings("ignore")
import scipy.ndimage as nd
import centrosome.cpmorphology as M
from centrosome import zernike as Z, haralick as Hk
rng=np.random.RandomState(0)
def measures(lab,img,idx):
    out={}
    idx=np.array(idx,dtype=np.int32)
    e=M.ellipse_from_second_moments(np.ones(lab.shape),lab,idx,True)
    out["ell_center"]=e[0]; out["ell_ecc"]=e[1]; out["ell_major"]=e[2]; out["ell_minor"]=e[3]; out["ell_theta"]=e[4]; out["ell_comp"]=e[5]
    out["perim"]=M.calculate_perimeters(lab,idx)
    out["euler"]=M.euler_number(lab,idx)
    out["charea"]=M.calculate_convex_hull_areas(lab,idx)
    out["solidity"]=M.calculate_solidity(lab,idx)
    out["extent"]=M.calculate_extents(lab,idx)
    c,r=M.minimum_enclosing_circle(lab,idx); out["mec_c"]=c; out["mec_r"]=r
    h,cnt=M.convex_hull(lab,idx); mn,mx=M.feret_diameter(h,cnt,idx); out["feret_min"]=mn; out["feret_max"]=mx
    out["median"]=M.median_of_labels(img,lab,idx)
    out["skel_len"]=M.skeleton_length(M.skeletonize_labels(lab),idx)
    out["zernike"]=Z.zernike(Z.get_zernike_indexes(4),lab,idx)
    return out
def har(lab,img):
    h=Hk.Haralick(img,lab,3,0)
    return np.array(h.all())   # features x objects

bad={}
POS={"ell_center","mec_c"}
for t in range(120):
    H,W=rng.randint(6,14,2); n=rng.randint(1,5)
    pts=np.array([(rng.randint(H),rng.randint(W)) for _ in range(n)])
    yy,xx=np.mgrid[0:H,0:W]
    d=np.stack([(yy-p[0])**2+(xx-p[1])**2 for p in pts]); lab=d.argmin(0)+1
    lab=lab*(d.min(0)<rng.choice([4,9,25]))
    present=[l for l in range(1,n+1) if (lab==l).any()]
    if not present: continue
    img=rng.randint(0,16,(H,W))/16.0
    idx=list(present)
    try:
        full=measures(lab,img,idx)
        # translation by zero padding
        pt,pb,pl,pr=rng.randint(0,5,4)
        lab2=np.pad(lab,((pt,pb),(pl,pr))); img2=np.pad(img,((pt,pb),(pl,pr)))
        tr=measures(lab2,img2,idx)
        for name in full:
            if name=="zernike": continue
            a=np.asarray(tr[name],float); b=np.asarray(full[name],float)
            if name in POS: b=b+np.array([pt,pl])
            if name=="ell_theta":
                dlt=np.abs(((a-b)+np.pi/2)%np.pi-np.pi/2); ok=(dlt<1e-7).all()
            else: ok=np.allclose(a,b,rtol=1e-9,atol=1e-9,equal_nan=True)
            if not ok: bad.setdefault("translate-"+name,[]).append((lab.tolist(),(pt,pb,pl,pr),a.tolist(),b.tolist()))
        # relabel by permutation of label numbers (into a larger range)
        newnums=rng.permutation(np.arange(1,n+4))[:n]
        lut=np.zeros(n+1,int); lut[1:]=newnums
        lab3=lut[lab]; idx3=[int(lut[l]) for l in idx]
        rl=measures(lab3,img,idx3)
        for name in full:
            a=np.asarray(rl[name],float); b=np.asarray(full[name],float)
            if name=="ell_theta":
                dlt=np.abs(((a-b)+np.pi/2)%np.pi-np.pi/2); ok=(dlt<1e-9).all()
            else: ok=np.allclose(a,b,rtol=1e-9,atol=1e-12,equal_nan=True)
            if not ok: bad.setdefault("relabel-"+name,[]).append((lab.tolist(),newnums.tolist(),a.tolist(),b.tolist()))
    except Exception as ex:
        bad.setdefault(("EXC",type(ex).__name__,str(ex)[:80]),[]).append(lab.tolist())
print({k:len(v) for k,v in bad.items()})
for k,v in list(bad.items())[:5]:
    x=v[0]; print(k, x[1:] if isinstance(x,tuple) else "")
