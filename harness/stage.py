"""Stage /repo's current working tree into a scratch directory and build the six
extension modules there with gcc/g++ directly (setup.py cannot be used offline: its
setup_requires=["cython"] tries to download).  A content-addressed cache makes the common case
a copy; a hit requires byte-identical sources, headers and flags, so it cannot mask an edit."""
import hashlib
import os
import shutil
import subprocess
import sys
import sysconfig
import tempfile
import atexit
import json
import re
from concurrent.futures import ThreadPoolExecutor

VERIF = os.path.dirname(os.path.dirname(os.path.abspath(__file__)))
REPO = os.environ.get("VERIF_REPO", "/repo")
CACHE = os.environ.get("VERIF_CACHE", os.path.join(VERIF, ".cache"))
PY = "/venv/bin/python"

MODULES = {
    "_propagate": ("_propagate.c", "gcc"),
    "_convex_hull": ("_convex_hull.cpp", "g++"),
    "_cpmorphology2": ("_cpmorphology2.cpp", "g++"),
    "_fastemd": ("_fastemd.cpp", "g++"),
    "_filter": ("_filter.cpp", "g++"),
    "_lapjv": ("_lapjv.cpp", "g++"),
}
BASE_FLAGS = ["-shared", "-fPIC", "-O2", "-fwrapv", "-fno-strict-aliasing", "-DNDEBUG", "-g0", "-w"]
ASAN_FLAGS = ["-shared", "-fPIC", "-O1", "-fwrapv", "-fno-strict-aliasing", "-g", "-w",
              "-fsanitize=address", "-fno-omit-frame-pointer"]


def _py_info():
    out = subprocess.check_output([PY, "-c",
        "import sysconfig,numpy,sys;print(sysconfig.get_config_var('EXT_SUFFIX'));"
        "print(sysconfig.get_paths()['include']);print(numpy.get_include());print(sys.version)"],
        text=True).splitlines()
    return out[0], out[1], out[2], out[3]


def _sha(paths, extra):
    h = hashlib.sha256()
    for p in paths:
        h.update(os.path.basename(p).encode() + b"\0")
        with open(p, "rb") as f:
            h.update(f.read())
        h.update(b"\0")
    h.update(extra.encode())
    return h.hexdigest()


def stage(asan=False, keep=False):
    """Returns (scratch_dir, info dict).  scratch_dir/centrosome is an importable package built
    from /repo's current files."""
    base = os.environ.get("VERIF_SCRATCH", "/var/tmp")
    os.makedirs(base, exist_ok=True)
    scratch = tempfile.mkdtemp(prefix="centrosome-verif.", dir=base)
    if not keep:
        atexit.register(shutil.rmtree, scratch, True)
    src = os.path.join(REPO, "centrosome")
    dst = os.path.join(scratch, "centrosome")
    shutil.copytree(src, dst, ignore=shutil.ignore_patterns("*.so", "__pycache__", "*.pyc", "*.o"))
    ext_suffix, py_inc, np_inc, py_ver = _py_info()
    headers = sorted(
        os.path.join(dst, "include", f) for f in os.listdir(os.path.join(dst, "include")))
    flags = ASAN_FLAGS if asan else BASE_FLAGS
    info = {"scratch": scratch, "built": {}, "asan": asan}

    def build(mod):
        srcname, cc = MODULES[mod]
        sp = os.path.join(dst, srcname)
        out = os.path.join(dst, mod + ext_suffix)
        if not os.path.exists(sp):
            # generated C/C++ absent from the tree: fall back to the shipped binary, say so
            shipped = os.path.join(src, mod + ext_suffix)
            if os.path.exists(shipped):
                shutil.copy2(shipped, out)
                return mod, "shipped-binary(no generated source in tree)"
            return mod, "MISSING"
        key = _sha([sp] + headers, " ".join(flags) + cc + py_ver)
        cdir = os.path.join(CACHE, "so", key)
        cfile = os.path.join(cdir, mod + ext_suffix)
        if os.path.exists(cfile):
            shutil.copy2(cfile, out)
            return mod, "cache:" + key[:12]
        cmd = [cc] + flags + ["-I", os.path.join(dst, "include"), "-I", np_inc, "-I", py_inc,
                              sp, "-o", out]
        r = subprocess.run(cmd, capture_output=True, text=True)
        if r.returncode != 0:
            return mod, "BUILD-FAILED:" + r.stderr[-2000:]
        os.makedirs(cdir, exist_ok=True)
        tmp = cfile + ".%d" % os.getpid()
        shutil.copy2(out, tmp)
        os.replace(tmp, cfile)
        return mod, "built:" + key[:12]

    with ThreadPoolExecutor(max_workers=6) as ex:
        for mod, status in ex.map(build, MODULES):
            info["built"][mod] = status
    bad = {m: s for m, s in info["built"].items() if s.startswith("BUILD-FAILED") or s == "MISSING"}
    info["build_ok"] = not bad
    info["build_errors"] = bad
    return scratch, info


# ------------------------------------------------------------------ pyx drift (DESIGN 3.1)

def _strip_comments(text):
    """Remove '#' comments (outside string literals, approximately), trailing blanks and
    blank lines.  Indentation is kept."""
    out = []
    in_triple = None
    for line in text.splitlines():
        res = []
        i = 0
        n = len(line)
        q = None
        while i < n:
            c = line[i]
            if in_triple:
                if line.startswith(in_triple, i):
                    res.append(in_triple); i += 3; in_triple = None
                else:
                    res.append(c); i += 1
                continue
            if q:
                res.append(c)
                if c == "\\" and i + 1 < n:
                    res.append(line[i + 1]); i += 2; continue
                if c == q:
                    q = None
                i += 1
                continue
            if line.startswith('"""', i) or line.startswith("'''", i):
                in_triple = line[i:i + 3]; res.append(in_triple); i += 3; continue
            if c in "\"'":
                q = c; res.append(c); i += 1; continue
            if c == "#":
                break
            res.append(c); i += 1
        s = "".join(res).rstrip()
        if s.strip():
            out.append(s)
    return "\n".join(out)


_BLOCK = re.compile(r"^(?:cdef|cpdef|def|class)\b[^\n(:]*?([A-Za-z_][A-Za-z_0-9]*)\s*[(:]")


def pyx_blocks(path):
    """Split a .pyx/.pxd/.pxi into top-level blocks {name: normalised-hash}."""
    with open(path, encoding="utf-8", errors="replace") as f:
        text = _strip_comments(f.read())
    blocks = {}
    name = "<preamble>"
    cur = []
    pending_deco = []
    for line in text.splitlines():
        if line and not line[0].isspace():
            if line.startswith("@"):
                pending_deco.append(line)
                continue
            m = _BLOCK.match(line)
            if m and not line.startswith(("cdef extern", "cdef enum", "cdef struct")) or \
               (m and line.startswith("cdef struct")):
                blocks.setdefault(name, []).extend(cur)
                name = m.group(1)
                cur = pending_deco + [line]
                pending_deco = []
                continue
        cur.extend(pending_deco); pending_deco = []
        cur.append(line)
    blocks.setdefault(name, []).extend(cur)
    return {k: hashlib.sha256("\n".join(v).encode()).hexdigest()[:16] for k, v in blocks.items()}


PYX_FILES = ["_lapjv.pyx", "_convex_hull.pyx", "_propagate.pyx", "heap.pxd", "heap_general.pxi",
             "_cpmorphology2.pyx", "_filter.pyx", "_fastemd.pyx"]


def pyx_snapshot(root=None):
    root = root or os.path.join(REPO, "centrosome")
    snap = {}
    for f in PYX_FILES:
        p = os.path.join(root, f)
        snap[f] = pyx_blocks(p) if os.path.exists(p) else None
    return snap


def pyx_drift(wanted, root=None):
    """wanted: {file: [block names] or '*'}.  Returns list of 'pyx-sync:<file>:<block>' that
    differ from /verif/pyx_baseline.json."""
    with open(os.path.join(VERIF, "pyx_baseline.json")) as f:
        base = json.load(f)
    cur = pyx_snapshot(root)
    drift = []
    for f, names in wanted.items():
        b, c = base.get(f), cur.get(f)
        if b is None and c is None:
            continue
        if b is None or c is None:
            drift.append("pyx-sync:%s:<file %s>" % (f, "added" if b is None else "removed"))
            continue
        keys = sorted(set(b) | set(c)) if names == "*" else list(names) + ["<preamble>"]
        for k in keys:
            if b.get(k) != c.get(k):
                drift.append("pyx-sync:%s:%s" % (f, k))
    return drift


if __name__ == "__main__":
    if sys.argv[1:] == ["snapshot"]:
        json.dump(pyx_snapshot(), sys.stdout, indent=1, sort_keys=True)
    elif sys.argv[1:2] == ["warm"]:
        s, info = stage(asan="--asan" in sys.argv)
        print(json.dumps(info["built"], indent=1))
        sys.exit(0 if info["build_ok"] else 1)
