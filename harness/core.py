"""Generic check pipeline (DESIGN.md section 2): stage + build /repo's current tree, regenerate
the generated parts of the Coq model, build the proofs, run the correspondence between the
executable Coq model and the freshly built implementation, decide, write evidence."""
import argparse
import fcntl
import hashlib
import importlib
import json
import os
import re
import shutil
import subprocess
import sys
import time
import zlib

import numpy as np

from . import stage as stg

VERIF = stg.VERIF
COQ = os.path.join(VERIF, "coq")
PY = stg.PY
GUARD = "CELLPROFILER_CENTROSOME_VERIF"

ALLOWED_AXIOM_PREFIXES = (
    # kernel primitives that Print Assumptions lists for PrimFloat / Uint63 developments (C03)
    "PrimFloat.", "Uint63.", "PrimInt63.", "FloatOps.", "Float64.", "PrimString.",
    "Coq.Floats.", "Coq.Numbers.Cyclic.Int63.",
)
ALLOWED_AXIOMS = set()   # standard-library axioms a property may name explicitly (none so far)

FORBIDDEN = re.compile(
    r"\b(Admitted|admit|Axiom|Axioms|Parameter|Parameters|Conjecture|Conjectures|"
    r"Admit\s+Obligations|bypass_check|native_compute)\b|Unset\s+Guard|Guard\s+Checking|"
    r"Unset\s+Positivity|Positivity\s+Checking|Universe\s+Checking|type-in-type|impredicative-set")


def log(*a):
    print("[check]", *a, file=sys.stderr, flush=True)


# ---------------------------------------------------------------------------- sx wire format

def sx_dump(v):
    """python nested lists/ints/bools -> wire text"""
    if isinstance(v, (bool, np.bool_)):
        return "1" if v else "0"
    if isinstance(v, (int, np.integer)):
        return str(int(v))
    if isinstance(v, (list, tuple)):
        return "(" + " ".join(sx_dump(x) for x in v) + ")"
    if isinstance(v, np.ndarray):
        return sx_dump(v.tolist())
    raise TypeError("sx_dump: %r" % (type(v),))


def sx_parse(s):
    s = s.strip()
    if s.startswith("!"):
        return {"model_error": s[1:]}
    pos = 0
    n = len(s)
    stack = [[]]
    while pos < n:
        c = s[pos]
        if c == "(":
            stack.append([]); pos += 1
        elif c == ")":
            top = stack.pop(); stack[-1].append(top); pos += 1
        elif c == " ":
            pos += 1
        else:
            e = pos
            while e < n and s[e] not in " ()":
                e += 1
            stack[-1].append(int(s[pos:e])); pos = e
    assert len(stack) == 1 and len(stack[0]) == 1, s[:200]
    return stack[0][0]


def sx_coq(v):
    """python nested lists/ints -> Coq term of type sx (Z_scope open)"""
    if isinstance(v, (bool, np.bool_)):
        return "I 1" if v else "I 0"
    if isinstance(v, (int, np.integer)):
        v = int(v)
        return "I %d" % v if v >= 0 else "I (%d)" % v
    if isinstance(v, np.ndarray):
        return sx_coq(v.tolist())
    return "L [" + "; ".join(sx_coq(x) if not isinstance(x, (list, tuple, np.ndarray)) else sx_coq(x)
                             for x in v) + "]"


# ---------------------------------------------------------------------------- context

class Ctx:
    def __init__(self, prop, tier, seed):
        self.prop = prop
        self.id = prop.ID
        self.tier = tier
        self.seed = seed
        self.rng = np.random.RandomState((seed ^ zlib.crc32(prop.ID.encode())) & 0x7FFFFFFF)
        self.t0 = time.time()
        self.scratch = None
        self.stage_info = None
        self.notes = []
        self.timings = {}
        self.model_runs = 0
        self.coq_evals = 0
        self.counters = {}

    def quick(self):
        return self.tier == "quick"

    def n(self, quick, thorough):
        return quick if self.tier == "quick" else thorough

    def note(self, s):
        self.notes.append(s)
        log(s)

    def count(self, key, k=1):
        self.counters[key] = self.counters.get(key, 0) + k

    # -- implementation side -------------------------------------------------------------
    def run_impl(self, cases, fn="impl", batch_timeout=None, per_case_stall=None):
        """Run prop.<fn>(case) for every case in a worker subprocess that imports the staged
        package.  Crashes and hangs are localised to a case and reported as
        {'crash': ...}; exceptions as {'exc': name}."""
        if per_case_stall is None:
            # SIGALRM in the worker cannot interrupt a loop inside compiled code: the parent kills a
            # worker that makes no progress for CASE_TIMEOUT + 15 s and reports that case as a hang
            per_case_stall = int(getattr(self.prop, "CASE_TIMEOUT", 30)) + 15
        return run_worker(self, cases, fn, per_case_stall)

    def run_staged_python(self, code, timeout=600, args=()):
        """Run a Python snippet against the staged package (for translators that need values the
        code computes, e.g. lookup tables).  Returns stdout; raises on failure (fail-closed)."""
        env = dict(os.environ)
        env.update({"PYTHONPATH": self.scratch + os.pathsep + VERIF, "PYTHONHASHSEED": "0", GUARD: "1",
                    "VERIF_STAGE": self.scratch, "MPLBACKEND": "Agg"})
        r = subprocess.run([PY, "-c", code] + list(args), env=env, capture_output=True, text=True, timeout=timeout)
        if r.returncode != 0:
            raise RuntimeError("staged python failed: " + r.stderr[-1500:])
        return r.stdout

    def staged_source(self, relpath):
        with open(os.path.join(self.scratch, relpath), encoding="utf-8") as f:
            return f.read()

    # -- model side ----------------------------------------------------------------------
    def run_model(self, entry, args):
        """args: list of python values (nested ints).  Returns list of parsed sx results."""
        exe = ensure_extracted(self)
        text = "\n".join(entry + " " + sx_dump(a) for a in args) + "\n"
        r = subprocess.run(["bash", "-c", "ulimit -s unlimited 2>/dev/null; exec " + exe], input=text,
                           capture_output=True, text=True, timeout=3600)
        if r.returncode != 0:
            raise RuntimeError("model driver failed: " + r.stderr[-1000:])
        lines = r.stdout.splitlines()
        if len(lines) != len(args):
            raise RuntimeError("model driver: %d results for %d cases" % (len(lines), len(args)))
        self.model_runs += len(args)
        return [sx_parse(l) for l in lines]

    def coq_eval_eq(self, module, entry, args, expected, tag="x", shard=200, timeout=900):
        """Evaluate [entry arg] inside Coq by vm_compute for every arg and compare with
        [expected] (python sx values) using sx_eqb.  Returns list of bools (None when the Coq
        run itself failed).  This is the in-kernel cross-check of the extracted program."""
        res = []
        gen_dir = os.path.join(COQ, "theories", "Gen")
        jobs = []
        for s in range(0, len(args), shard):
            a = args[s:s + shard]; e = expected[s:s + shard]
            name = "Cases_%s_%s_%d_%d" % (self.id, tag, os.getpid(), s)
            path = os.path.join(self.scratch, name + ".v")
            body = ["From Coq Require Import ZArith List Bool.", "From Centro Require Import Base.Sx %s." % module,
                    "Import ListNotations.", "Open Scope Z_scope.",
                    "Definition cases : list (sx * sx) := ["]
            body.append(";\n".join("(%s, %s)" % (sx_coq(x), sx_coq(y)) for x, y in zip(a, e)))
            body.append("].")
            body.append("Definition res := map (fun c => sx_eqb (%s (fst c)) (snd c)) cases." % entry)
            body.append("Eval vm_compute in res.")
            with open(path, "w") as f:
                f.write("\n".join(body) + "\n")
            jobs.append((path, len(a)))
        for path, k in jobs:
            r = subprocess.run(["bash", "-c", "ulimit -s unlimited 2>/dev/null; exec timeout %d coqc -R %s Centro -o %s %s" % (
                timeout, os.path.join(COQ, "theories"), path[:-2] + ".vo", path)],
                capture_output=True, text=True)
            if r.returncode != 0:
                self.note("coq_eval failed: " + (r.stderr or r.stdout)[-600:])
                res.extend([None] * k)
                continue
            toks = re.findall(r"\b(true|false)\b", r.stdout.split("=", 1)[1] if "=" in r.stdout else "")
            if len(toks) != k:
                self.note("coq_eval: parsed %d booleans for %d cases" % (len(toks), k))
                res.extend([None] * k)
            else:
                res.extend([t == "true" for t in toks])
        self.coq_evals += len(args)
        return res


# ---------------------------------------------------------------------------- worker handling

def run_worker(ctx, cases, fn, stall):
    n = len(cases)
    outs = [None] * n
    if n == 0:
        return outs
    wd = os.path.join(ctx.scratch, "w%d_%d" % (os.getpid(), int(time.time() * 1000) % 100000))
    os.makedirs(wd, exist_ok=True)
    start = 0
    env = dict(os.environ)
    env.update({"PYTHONPATH": ctx.scratch + os.pathsep + VERIF, "PYTHONHASHSEED": "0", GUARD: "1",
                "VERIF_STAGE": ctx.scratch, "OMP_NUM_THREADS": "1", "OPENBLAS_NUM_THREADS": "1",
                "MPLBACKEND": "Agg"})
    if ctx.stage_info.get("asan"):
        asan = subprocess.check_output(["gcc", "-print-file-name=libasan.so"], text=True).strip()
        env["LD_PRELOAD"] = asan
        env["ASAN_OPTIONS"] = "detect_leaks=0:abort_on_error=0:exitcode=99:log_path=" + os.path.join(wd, "asan")
    while start < n:
        inp = os.path.join(wd, "in_%d.json" % start)
        outp = os.path.join(wd, "out_%d.jsonl" % start)
        with open(inp, "w") as f:
            json.dump(cases[start:], f)
        open(outp, "w").close()
        errp = os.path.join(wd, "err_%d.txt" % start)
        errf = open(errp, "wb")
        # own session: a hang is ended by killing the whole process group (children forked by a
        # property's impl included); stderr goes to a file so an orphan cannot block a pipe read
        p = subprocess.Popen([PY, "-m", "harness.worker", ctx.prop.__name__, fn, inp, outp],
                             env=env, cwd=VERIF, stdout=subprocess.DEVNULL, stderr=errf, start_new_session=True)
        last_size, last_t = 0, time.time()
        killed = False
        while p.poll() is None:
            time.sleep(0.05)
            sz = os.path.getsize(outp)
            if sz != last_size:
                last_size, last_t = sz, time.time()
            elif time.time() - last_t > stall:
                killed = True
                break
        if killed or p.poll() is None:
            try:
                os.killpg(p.pid, 9)
            except OSError:
                p.kill()
        else:
            try:                      # reap stragglers of a worker that exited by itself
                os.killpg(p.pid, 9)
            except OSError:
                pass
        p.wait()
        errf.close()
        with open(errp, "rb") as ef:
            err = ef.read()[-20000:].decode(errors="replace")
        done = 0
        with open(outp) as f:
            for line in f:
                if not line.endswith("\n"):
                    break
                outs[start + done] = json.loads(line)
                done += 1
        start += done
        if start < n and (p.returncode != 0 or killed):
            kind = "hang" if killed else "signal/exit %s" % p.returncode
            detail = err[-1500:]
            asan_logs = [x for x in os.listdir(wd) if x.startswith("asan")]
            if asan_logs:
                with open(os.path.join(wd, asan_logs[0])) as f:
                    detail = f.read()[:3000]
                for x in asan_logs:
                    os.remove(os.path.join(wd, x))
            outs[start] = {"crash": kind, "detail": detail}
            start += 1
        elif start < n and done == 0:
            raise RuntimeError("worker made no progress: " + err[-2000:])
    return outs


# ---------------------------------------------------------------------------- Coq build

class CoqLock:
    def __enter__(self):
        os.makedirs(COQ, exist_ok=True)
        self.f = open(os.path.join(COQ, ".lock"), "w")
        fcntl.flock(self.f, fcntl.LOCK_EX)
        return self

    def __exit__(self, *a):
        fcntl.flock(self.f, fcntl.LOCK_UN)
        self.f.close()


def write_if_changed(path, content):
    if os.path.exists(path):
        with open(path) as f:
            if f.read() == content:
                return False
    os.makedirs(os.path.dirname(path), exist_ok=True)
    tmp = path + ".tmp%d" % os.getpid()
    with open(tmp, "w") as f:
        f.write(content)
    os.replace(tmp, path)
    return True


def coq_project_refresh():
    """_CoqProject lists every .v under theories (sorted); Makefile.coq regenerated on change."""
    files = []
    for root, _, fs in os.walk(os.path.join(COQ, "theories")):
        for f in fs:
            if f.endswith(".v") and not f.startswith("Cases_") and not f.startswith("."):
                files.append(os.path.relpath(os.path.join(root, f), COQ))
    files.sort()
    content = "-R theories Centro\n-arg -w -arg -notation-overridden,-deprecated-hint-without-locality,-deprecated-instance-without-locality\n" + "\n".join(files) + "\n"
    changed = write_if_changed(os.path.join(COQ, "_CoqProject"), content)
    if changed or not os.path.exists(os.path.join(COQ, "Makefile.coq")):
        subprocess.run(["coq_makefile", "-f", "_CoqProject", "-o", "Makefile.coq"], cwd=COQ, check=True,
                       capture_output=True)


def coq_make(targets, timeout=3000, jobs=16):
    r = subprocess.run(["timeout", str(timeout), "make", "-f", "Makefile.coq", "-j%d" % jobs] + targets,
                       cwd=COQ, capture_output=True, text=True)
    return r.returncode, (r.stdout + r.stderr)


def strip_coq_comments(t):
    out = []
    depth = 0
    i = 0
    while i < len(t):
        if t.startswith("(*", i):
            depth += 1; i += 2
        elif t.startswith("*)", i) and depth > 0:
            depth -= 1; i += 2
        else:
            if depth == 0:
                out.append(t[i])
            i += 1
    return "".join(out)


def forbidden_scan():
    bad = []
    for root, _, fs in os.walk(os.path.join(COQ, "theories")):
        for f in fs:
            if not f.endswith(".v"):
                continue
            p = os.path.join(root, f)
            with open(p) as fh:
                t = strip_coq_comments(fh.read())
            t = re.sub(r'"[^"]*"', '""', t)
            for m in FORBIDDEN.finditer(t):
                bad.append("%s: %s" % (os.path.relpath(p, COQ), m.group(0)))
            # a Variable/Hypothesis/Context outside every Section declares an axiom
            depth = 0
            for m in re.finditer(r"(?m)^\s*(Section|End|Variables?|Hypothes[ie]s|Context)\b", t):
                k = m.group(1)
                if k == "Section":
                    depth += 1
                elif k == "End":
                    depth = max(0, depth - 1)
                elif depth == 0:
                    bad.append("%s: %s outside a Section" % (os.path.relpath(p, COQ), k))
    with open(os.path.join(COQ, "_CoqProject")) as f:
        cp = f.read()
    for w in ("type-in-type", "impredicative-set", "-noinit"):
        if w in cp:
            bad.append("_CoqProject: " + w)
    return bad


PROPS_LINT = re.compile(r"Proof\.\s*(exact\s+[^.]*(?:\.[A-Za-z_][^.\s]*)*\s*\.|apply\s+[^.]*\.)\s*Qed\.")


def coq_props(ctx):
    """Build the property's theorem file and read back Print Assumptions.  Returns dict with
    obligations (names), discharged (names), assumptions {name: text}, errors [..]."""
    prop = ctx.prop
    rel = prop.PROPS_FILE
    path = os.path.join(COQ, rel)
    res = {"obligations": [], "discharged": [], "assumptions": {}, "errors": [], "log": ""}
    with open(path) as f:
        text = f.read()
    body = strip_coq_comments(text)
    names = re.findall(r"^\s*(?:Theorem|Lemma|Corollary)\s+([A-Za-z_][A-Za-z_0-9']*)", body, re.M)
    res["obligations"] = names
    printed = re.findall(r"Print\s+Assumptions\s+([A-Za-z_][A-Za-z_0-9'.]*)\s*\.", body)
    missing = [n for n in names if n not in printed]
    if missing:
        res["errors"].append("Props file lacks Print Assumptions for: " + ", ".join(missing))
    nproofs = len(re.findall(r"\bProof\.", body))
    if nproofs != len(PROPS_LINT.findall(body)):
        res["errors"].append("Props file must close every theorem by a single `exact`/`apply`")
    with CoqLock():
        coq_project_refresh()
        bad = forbidden_scan()
        if bad:
            res["errors"].append("forbidden constructs: " + "; ".join(bad[:10]))
        targets = [rel[:-2] + ".vo"]
        t = time.time()
        if getattr(prop, "EXTRACT", None):
            # the executable model is rebuilt first and on its own: a proof file that fails must not
            # stop make before the model reflects the regenerated Gen files (the search relies on it)
            rc0, out0 = coq_make([prop.EXTRACT[0][:-2] + ".vo"], timeout=ctx.n(2400, 3400))
            if rc0 != 0:
                res["errors"].append("extraction target failed to build: " + out0.strip()[-600:])
        rc, out = coq_make(targets, timeout=ctx.n(2400, 3400))
        ctx.timings["coq_make"] = round(time.time() - t, 1)
        res["log"] = out[-4000:]
        if rc != 0:
            m = re.search(r'File "([^"]+)", line (\d+)', out)
            res["errors"].append("coq build failed%s: %s" % (
                " at %s:%s" % (m.group(1), m.group(2)) if m else "", out.strip()[-1200:]))
            # which obligations survive?  none can be trusted if the file does not compile
            return res
    # Print Assumptions: recompile the (small) property file to capture its output
    t = time.time()
    pa_dir = os.path.join(ctx.scratch, "pa")
    os.makedirs(pa_dir, exist_ok=True)
    # The output is a function of the property file and of the compiled files it depends on; make has
    # just brought Props/<ID>.vo up to date (it is rebuilt whenever a dependency changed), so the
    # captured output is reused while that .vo and the source text are unchanged.
    vo = path[:-2] + ".vo"
    st = os.stat(vo)
    key = hashlib.sha256((text + "|%d|%d" % (st.st_mtime_ns, st.st_size)).encode()).hexdigest()
    cpath = os.path.join(stg.CACHE, "pa", ctx.id + ".json")
    cached = None
    if os.path.exists(cpath):
        try:
            with open(cpath) as f:
                c = json.load(f)
            if c.get("key") == key:
                cached = c["stdout"]
        except Exception:
            cached = None
    class _R:
        pass
    if cached is not None:
        r = _R(); r.returncode = 0; r.stdout = cached; r.stderr = ""
    else:
        r = subprocess.run(["timeout", "900", "coqc", "-R", os.path.join(COQ, "theories"), "Centro",
                            "-w", "-notation-overridden", "-o", os.path.join(pa_dir, os.path.basename(path)[:-2] + ".vo"), path],
                           capture_output=True, text=True, cwd=COQ)
        if r.returncode == 0:
            os.makedirs(os.path.dirname(cpath), exist_ok=True)
            with open(cpath + ".tmp%d" % os.getpid(), "w") as f:
                json.dump({"key": key, "stdout": r.stdout}, f)
            os.replace(cpath + ".tmp%d" % os.getpid(), cpath)
    ctx.timings["print_assumptions"] = round(time.time() - t, 1)
    if r.returncode != 0:
        res["errors"].append("property file failed to compile: " + (r.stderr + r.stdout)[-1200:])
        return res
    # output is a sequence of blocks, one per Print Assumptions, in order
    blocks = re.split(r"(?m)^(?=Closed under the global context|Axioms:|Section Variables:)", r.stdout)
    blocks = [b for b in blocks if b.startswith(("Closed under", "Axioms:", "Section Variables:"))]
    if len(blocks) != len(printed):
        res["errors"].append("could not match Print Assumptions output (%d blocks, %d commands)" % (
            len(blocks), len(printed)))
        return res
    for name, b in zip(printed, blocks):
        b = b.strip()
        res["assumptions"][name] = b
        if b.startswith("Closed under the global context"):
            ok = True
        elif b.startswith("Axioms:"):
            axs = re.findall(r"(?m)^([A-Za-z_][A-Za-z_0-9'.]*)\s*:", b[len("Axioms:"):])
            ok = all(a.startswith(ALLOWED_AXIOM_PREFIXES) or a in ALLOWED_AXIOMS
                     or a in getattr(prop, "ALLOWED_AXIOMS", ()) for a in axs) and bool(axs)
            if not ok:
                res["errors"].append("theorem %s depends on axioms outside the allow-list: %s" % (name, b[:400]))
        else:
            ok = False
            res["errors"].append("theorem %s depends on section variables" % name)
        if ok and name.split(".")[-1] in names:
            res["discharged"].append(name.split(".")[-1])
    return res


def run_coqchk(prop):
    """coqchk -o on the property's compiled theorem file: re-checks it and all its dependencies with the
    independent checker and reports the axioms of the whole context."""
    mod = "Centro." + prop.PROPS_FILE[len("theories/"):-2].replace("/", ".")
    with CoqLock():
        # -bytecode-compiler yes: re-check vm_compute proofs (finite sweeps) with the VM, which is in the
        # trusted base of those proofs anyway; without it the C05 cone takes > 20 min
        r = subprocess.run(["timeout", "3000", "coqchk", "-silent", "-o", "-bytecode-compiler", "yes",
                            "-R", "theories", "Centro", mod], cwd=COQ, capture_output=True, text=True)
    out = r.stdout + r.stderr
    res = {"module": mod, "rc": r.returncode}
    if r.returncode != 0 or "CONTEXT SUMMARY" not in out:
        res["error"] = "coqchk failed (rc %s): %s" % (r.returncode, out.strip()[-400:])
        return res
    summ = out.split("CONTEXT SUMMARY", 1)[1]
    def section(title):
        m = re.search(r"\* " + re.escape(title) + r"[^:]*:(.*?)(?=\n\s*\* |\Z)", summ, re.S)
        return " ".join(m.group(1).split()) if m else "?"
    res["axioms"] = section("Axioms")
    res["type_in_type"] = section("Constants/Inductives relying on type-in-type")
    res["unsafe_fix"] = section("Constants/Inductives relying on unsafe (co)fixpoints")
    res["assumed_positive"] = section("Inductives whose positivity is assumed")
    for k in ("type_in_type", "unsafe_fix", "assumed_positive"):
        if res[k] != "<none>":
            res["error"] = "coqchk reports %s: %s" % (k, res[k][:300])
    axs = [a for a in re.split(r"\s+", res["axioms"]) if a and a != "<none>"]
    bad = [a for a in axs if not (a.startswith(ALLOWED_AXIOM_PREFIXES) or a in ALLOWED_AXIOMS
                                  or a in getattr(prop, "ALLOWED_AXIOMS", ()) or ":" in a or a in ("Coq.Floats.PrimFloat.float",))]
    res["axiom_names"] = axs
    return res


def ensure_extracted(ctx):
    """Compile the OCaml program extracted from the property's model (rebuilt when stale)."""
    vfile, base, entries = ctx.prop.EXTRACT
    exdir = os.path.join(COQ, "extracted")
    ml = os.path.join(exdir, base + ".ml")
    exe = os.path.join(exdir, base + ".exe")
    with CoqLock():
        if not os.path.exists(ml):
            rc, out = coq_make([vfile[:-2] + ".vo"])
            if rc != 0 or not os.path.exists(ml):
                raise RuntimeError("extraction failed: " + out[-1500:])
        drv = os.path.join(exdir, "driver.ml.in")
        mod = base[0].upper() + base[1:]
        with open(drv) as f:
            d = f.read()
        d = d.replace("@MOD@", mod).replace(
            "@ENTRIES@", "; ".join('("%s", %s)' % (e, e) for e in entries))
        main = os.path.join(exdir, base + "_main.ml")
        old_main = open(main).read() if os.path.exists(main) else None
        stale = (not os.path.exists(exe) or os.path.getmtime(exe) < os.path.getmtime(ml)
                 or os.path.getmtime(exe) < os.path.getmtime(drv) or old_main != d)   # entry list changed
        if stale:
            with open(main, "w") as f:
                f.write(d)
            r = subprocess.run(["ocamlfind", "ocamlopt", "-w", "-a", "-I", exdir,
                                base + ".mli", base + ".ml", base + "_main.ml", "-o", exe],
                               cwd=exdir, capture_output=True, text=True)
            if r.returncode != 0:
                raise RuntimeError("ocaml build failed: " + r.stderr[-2000:])
    return exe


# ---------------------------------------------------------------------------- findings, replay

def load_findings():
    """known_findings.json plus per-property fragments findings/<ID>.json (same entry format;
    merged into known_findings.json by the coordinator)."""
    res = []
    p = os.path.join(VERIF, "known_findings.json")
    if os.path.exists(p):
        with open(p) as f:
            res.extend(json.load(f)["findings"])
    fd = os.path.join(VERIF, "findings")
    if os.path.isdir(fd):
        for name in sorted(os.listdir(fd)):
            if name.endswith(".json"):
                with open(os.path.join(fd, name)) as f:
                    for e in json.load(f)["findings"]:
                        if not any(x["id"] == e["id"] for x in res):
                            res.append(e)
    return res


def repo_rev():
    try:
        rev = subprocess.check_output(["git", "-C", stg.REPO, "rev-parse", "HEAD"], text=True).strip()
        diff = subprocess.check_output(["git", "-C", stg.REPO, "diff", "HEAD"], text=True)
        return rev, hashlib.sha256(diff.encode()).hexdigest()[:12] if diff else "clean"
    except Exception:
        return "unknown", "unknown"


def write_replay(ctx, kind, payload):
    os.makedirs(os.path.join(VERIF, "replays"), exist_ok=True)
    k = 0
    while True:
        path = os.path.join(VERIF, "replays", "%s-%d-%d.json" % (ctx.id, ctx.seed, k))
        if not os.path.exists(path):
            break
        k += 1
    rev, dirty = repo_rev()
    d = {"property": ctx.id, "kind": kind, "seed": ctx.seed, "tier": ctx.tier, "repo_rev": rev,
         "repo_dirty_hash": dirty}
    d.update(payload)
    with open(path, "w") as f:
        json.dump(d, f, indent=1, default=_js)
    return os.path.relpath(path, VERIF)


def _js(o):
    if isinstance(o, np.ndarray):
        return o.tolist()
    if isinstance(o, (np.integer,)):
        return int(o)
    if isinstance(o, (np.floating,)):
        return float(o)
    if isinstance(o, (np.bool_,)):
        return bool(o)
    return str(o)


def case_hash(case):
    return hashlib.sha1(json.dumps(case, sort_keys=True, default=_js).encode()).hexdigest()


# ---------------------------------------------------------------------------- the pipeline

def evaluate(ctx, cases, with_model=True):
    """Run impl, model, compare, checker.  Returns (outs, disagreements, failures)
    where disagreements = [(idx, text)], failures = [(idx, clause)]."""
    prop = ctx.prop
    outs = ctx.run_impl(cases)
    disagreements, failures = [], []
    if with_model and hasattr(prop, "model"):
        t = time.time()
        mouts = prop.model(ctx, cases, outs)
        ctx.timings["model"] = ctx.timings.get("model", 0) + round(time.time() - t, 1)
        for k, (c, o, m) in enumerate(zip(cases, outs, mouts)):
            d = prop.compare(c, o, m)
            if d:
                disagreements.append((k, d))
    t = time.time()
    verdicts = prop.check(ctx, cases, outs)
    ctx.timings["checker"] = ctx.timings.get("checker", 0) + round(time.time() - t, 1)
    for k, v in enumerate(verdicts):
        if v:
            failures.append((k, v))
    return outs, disagreements, failures


def shrink_case(ctx, case, clause):
    prop = ctx.prop
    if not hasattr(prop, "shrink_candidates"):
        return case
    budget = 800
    cur = case
    improved = True
    while improved and budget > 0:
        improved = False
        cands = list(prop.shrink_candidates(cur))[:60]
        if not cands:
            break
        outs = ctx.run_impl(cands)
        verdicts = prop.check(ctx, cands, outs)
        budget -= len(cands)
        for c, o, v in zip(cands, outs, verdicts):
            if v and not attribute(ctx, c, o, v):
                cur = c
                improved = True
                break
    return cur


def attribute(ctx, case, out, clause):
    f = getattr(ctx.prop, "attribute", None)
    return f(ctx, case, out, clause) if f else None


def run_check(prop, tier, seed):
    ctx = Ctx(prop, tier, seed)
    broken = []          # named theorems / correspondences that no longer check
    t = time.time()
    ctx.scratch, ctx.stage_info = stg.stage(asan=getattr(prop, "ASAN", False) and tier == "thorough")
    ctx.timings["stage_build"] = round(time.time() - t, 1)
    if not ctx.stage_info["build_ok"]:
        for m, s in ctx.stage_info["build_errors"].items():
            broken.append("build:%s %s" % (m, s[:300]))
    drift = stg.pyx_drift(getattr(prop, "PYX", {}))
    broken.extend(drift)

    # generated parts of the model
    gen_errors = []
    if hasattr(prop, "gen_files"):
        t = time.time()
        try:
            files = prop.gen_files(ctx)
            with CoqLock():
                for rel, content in files.items():
                    write_if_changed(os.path.join(COQ, rel), content)
        except Exception as e:          # translators are fail-closed
            gen_errors.append("translator:%s: %s" % (type(e).__name__, str(e)[:500]))
        ctx.timings["translate"] = round(time.time() - t, 1)
    broken.extend(gen_errors)

    pr = coq_props(ctx)
    for e in pr["errors"]:
        broken.append("proof: " + e)
    undisch = [n for n in pr["obligations"] if n not in pr["discharged"]]
    if undisch and not pr["errors"]:
        broken.append("proof: undischarged " + ",".join(undisch))

    # thorough tier: independent re-check of the compiled property file and everything it depends on
    # with coqchk, and its own list of axioms (copied into the evidence)
    ctx.coqchk = None
    if tier == "thorough" and not pr["errors"] and os.environ.get("VERIF_COQCHK", "1") != "0":
        t = time.time()
        ctx.coqchk = run_coqchk(prop)
        ctx.timings["coqchk"] = round(time.time() - t, 1)
        if ctx.coqchk.get("error"):
            broken.append("proof: coqchk: " + ctx.coqchk["error"])

    # correspondence + checker on the run's cases
    t = time.time()
    cases = prop.generate(ctx)
    ctx.timings["generate"] = round(time.time() - t, 1)
    t = time.time()
    try:
        outs, disagreements, failures = evaluate(ctx, cases)
    except Exception as e:
        import traceback
        traceback.print_exc()
        outs, disagreements, failures = [None] * len(cases), [], []
        broken.append("correspondence: harness error %s: %s" % (type(e).__name__, str(e)[:400]))
    ctx.timings["evaluate"] = round(time.time() - t, 1)
    for k, d in disagreements[:5]:
        log("disagreement case %d: %s" % (k, d))
    if disagreements:
        broken.append("correspondence: %d of %d cases disagree with the Coq model; first: %s" % (
            len(disagreements), len(cases), disagreements[0][1][:300]))

    # in-kernel cross-check of the extracted model on a sub-sample
    kernel_checked = 0
    if hasattr(prop, "kernel_crosscheck"):
        t = time.time()
        try:
            bad, kernel_checked = prop.kernel_crosscheck(ctx, cases, outs)
            if bad:
                broken.append("correspondence(vm_compute): " + bad)
        except Exception as e:
            broken.append("correspondence(vm_compute): harness error %s" % e)
        ctx.timings["kernel_crosscheck"] = round(time.time() - t, 1)

    findings = [f for f in load_findings() if f["property"] == ctx.id and f["status"] == "known"]
    known_hit = {}
    violations = []
    for k, clause in failures:
        fid = attribute(ctx, cases[k], outs[k], clause)
        if fid and any(f["id"] == fid for f in findings):
            known_hit.setdefault(fid, []).append(k)
        else:
            violations.append((cases[k], outs[k], clause))

    # search after a break (DESIGN 2 step 5)
    searched = 0
    if not violations and broken and hasattr(prop, "search_cases"):
        log("broken: %s -> searching for a failing input" % "; ".join(b[:120] for b in broken))
        t = time.time()
        # (i) disagreeing cases were already checked above; (iii) fresh, larger batch
        for rnd in range(ctx.n(3, 8)):
            more = prop.search_cases(ctx, rnd)
            if not more:
                break
            try:
                o2, _, f2 = evaluate(ctx, more, with_model=False)
            except Exception as e:
                log("search round failed: %s" % e)
                break
            searched += len(more)
            for k, clause in f2:
                fid = attribute(ctx, more[k], o2[k], clause)
                if not (fid and any(f["id"] == fid for f in findings)):
                    violations.append((more[k], o2[k], clause))
            if violations or time.time() - t > ctx.n(240, 1200):
                break
        ctx.timings["search"] = round(time.time() - t, 1)

    # known findings: print one line per listed finding that still reproduces
    for f in findings:
        rep = getattr(prop, "reproduce_finding", None)
        still = rep(ctx, f) if rep else bool(known_hit.get(f["id"]))
        if still:
            print("KNOWN-FINDING: property=%s %s %s" % (ctx.id, f["id"], f["what"]), flush=True)

    exit_code = 0
    replay_paths = []
    if violations:
        case, out, clause = violations[0]
        try:
            small = shrink_case(ctx, case, clause)
        except Exception as e:
            log("shrink failed: %s" % e)
            small = case
        if small is not case:
            o = ctx.run_impl([small])[0]
            v = prop.check(ctx, [small], [o])[0]
            if v:
                case, out, clause = small, o, v
        path = write_replay(ctx, "input", {"case": case, "impl_output": out, "checker_clause": clause,
                                           "broken": broken, "other_violations": len(violations) - 1})
        print("VIOLATION property=%s replay=%s" % (ctx.id, path), flush=True)
        replay_paths.append(path)
        exit_code = 1
    elif broken:
        payload = {"broken": broken, "searched_cases": searched + len(cases)}
        if disagreements:
            k = disagreements[0][0]
            payload["first_disagreement"] = {"case": cases[k], "impl_output": outs[k], "detail": disagreements[0][1]}
        path = write_replay(ctx, "obligation", payload)
        print("VIOLATION property=%s replay=%s no-failing-input-found" % (ctx.id, path), flush=True)
        replay_paths.append(path)
        exit_code = 1

    write_evidence(ctx, pr, cases, outs, disagreements, failures, violations, broken, kernel_checked,
                   searched, known_hit)
    log("done %s tier=%s exit=%d wall=%.1fs timings=%s" % (ctx.id, tier, exit_code, time.time() - ctx.t0, ctx.timings))
    return exit_code


def write_evidence(ctx, pr, cases, outs, disagreements, failures, violations, broken, kernel_checked,
                   searched, known_hit):
    prop = ctx.prop
    seen = set()
    nontrivial = 0
    for c, o in zip(cases, outs):
        h = case_hash(c)
        if h in seen:
            continue
        seen.add(h)
        try:
            if prop.nontrivial(c, o):
                nontrivial += 1
        except Exception:
            pass
    samples = []
    for c, o in list(zip(cases, outs))[:: max(1, len(cases) // 3)][:3]:
        s = json.dumps({"case": c, "impl_output": o}, default=_js)
        samples.append(json.loads(s) if len(s) < 3000 else {"case_truncated": s[:3000]})
    samples.append({"obligations": pr["obligations"]})
    trusted = [
        "Coq 8.16.1 kernel and its vm_compute evaluator (no native_compute)",
        "Print Assumptions per theorem: " + "; ".join(
            "%s: %s" % (k, "closed" if v.startswith("Closed") else v.replace("\n", " ")[:200])
            for k, v in pr["assumptions"].items()),
        "extraction to OCaml with ExtrOcamlBasic only (no Extract Constant / Extract Inductive of our own); "
        "generic S-expression driver coq/extracted/driver.ml.in; ocamlfind ocamlopt 4.13.1",
        "harness/stage.py (copy of /repo's tree, gcc/g++ -O2 build of the generated C/C++ of the six extension "
        "modules, content-addressed cache), harness/core.py (comparison, canonicalisation), NumPy/SciPy",
        "pyx drift check against pyx_baseline.json: .pyx edits cannot be compiled here (no Cython)",
    ] + ([("coqchk -o (independent checker, whole dependency cone of the property file): axioms: %s; "
           "type-in-type: %s; unsafe fixpoints: %s; assumed positivity: %s" % (
               ctx.coqchk.get("axioms"), ctx.coqchk.get("type_in_type"), ctx.coqchk.get("unsafe_fix"),
               ctx.coqchk.get("assumed_positive"))) if not ctx.coqchk.get("error") else "coqchk: " + ctx.coqchk["error"]]
         if getattr(ctx, "coqchk", None) else []) + list(getattr(prop, "TRUSTED", []))
    cov = {
        "obligations": len(pr["obligations"]),
        "discharged": len(pr["discharged"]),
        "checker_cmd": "make -f Makefile.coq %s.vo && coqc %s (Print Assumptions) in /verif/coq" % (
            prop.PROPS_FILE[:-2], prop.PROPS_FILE),
        "trusted_base": trusted,
        "theorems": pr["obligations"],
        "evaluations": len(cases) + searched,
        "distinct_nontrivial": nontrivial,
        "rule": getattr(prop, "RULE", ""),
        "samples": samples,
        "traces_validated_against_impl": len(cases) - len(disagreements) if hasattr(prop, "model") else 0,
        "model_evaluations_extracted": ctx.model_runs,
        "model_evaluations_vm_compute": ctx.coq_evals,
        "kernel_crosschecked_cases": kernel_checked,
        "correspondence_disagreements": len(disagreements),
        "checker_failures": len(failures),
        "known_finding_hits": {k: len(v) for k, v in known_hit.items()},
        "broken": broken,
        "distribution": ctx.counters,
        "stage": ctx.stage_info["built"] if ctx.stage_info else {},
        "timings_s": ctx.timings,
        "notes": ctx.notes[:20],
        "exhaustive": bool(getattr(prop, "EXHAUSTIVE", {}).get(ctx.tier, False)),
    }
    ev = {
        "property_id": ctx.id, "tier": ctx.tier, "seed": ctx.seed, "level": "proof",
        "coverage": cov,
        "assumptions": list(getattr(prop, "ASSUMPTIONS", [])),
        "wall_s": round(time.time() - ctx.t0, 2),
        "violations": len(violations) + (1 if (broken and not violations) else 0),
    }
    # evidence/ describes runs against /repo itself; runs against a scratch copy (VERIF_REPO, used for
    # mutants and seeded changes) write elsewhere so they never overwrite it
    evdir = os.path.join(VERIF, "evidence") if os.path.realpath(stg.REPO) == "/repo" else os.path.join(
        stg.CACHE, "evidence-scratch")
    os.makedirs(evdir, exist_ok=True)
    p = os.path.join(evdir, ctx.id + ".json")
    with open(p + ".tmp", "w") as f:
        json.dump(ev, f, indent=1, default=_js)
    os.replace(p + ".tmp", p)


def run_replay(prop, path):
    with open(path) as f:
        rp = json.load(f)
    ctx = Ctx(prop, rp.get("tier", "quick"), rp.get("seed", 0))
    ctx.scratch, ctx.stage_info = stg.stage()
    if rp["kind"] == "input":
        case = rp["case"]
        out = ctx.run_impl([case])[0]
        v = prop.check(ctx, [case], [out])[0]
        print("replay: impl_output=%s" % json.dumps(out, default=_js)[:2000])
        if v and not attribute(ctx, case, out, v):
            print("replay: checker clause: %s" % v)
            print("VIOLATION property=%s replay=%s" % (ctx.id, os.path.relpath(path, VERIF) if os.path.isabs(path) else path))
            return 1
        print("replay: property holds on this input now")
        return 0
    # obligation replays: re-run the quick check, which re-evaluates the named obligations
    print("replay: obligation replay; broken was: %s" % "; ".join(rp.get("broken", [])))
    return run_check(prop, "quick", rp.get("seed", 0))


def main(argv=None):
    ap = argparse.ArgumentParser()
    ap.add_argument("prop")
    ap.add_argument("--tier", default=None, choices=["quick", "thorough"])
    ap.add_argument("--replay", default=None)
    a = ap.parse_args(argv)
    tier = a.tier or os.environ.get("VERIF_TIER") or "quick"
    if tier not in ("quick", "thorough"):
        tier = "quick"
    try:
        seed = int(os.environ.get("VERIF_SEED", "0"))
    except ValueError:
        seed = 0
    prop = importlib.import_module("harness.props." + a.prop.lower())
    # One run per property at a time: the generated Coq files, the proof build and the extracted model of
    # a property are shared state under coq/, and runs against different trees (VERIF_REPO) would otherwise
    # overwrite each other's generated model.  Different properties still run in parallel.
    os.makedirs(stg.CACHE, exist_ok=True)
    lock = open(os.path.join(stg.CACHE, "run-%s.lock" % prop.ID), "w")
    fcntl.flock(lock, fcntl.LOCK_EX)
    try:
        if a.replay:
            return run_replay(prop, a.replay)
        return run_check(prop, tier, seed)
    finally:
        fcntl.flock(lock, fcntl.LOCK_UN)
        lock.close()
