"""Implementation-side worker: imports the *staged* centrosome (PYTHONPATH is set by the
harness) and applies a property module's function to every case, one JSON line per case."""
import importlib
import json
import os
import signal
import sys
import warnings


def main():
    modname, fn, inp, outp = sys.argv[1:5]
    warnings.filterwarnings("ignore")
    import numpy as np
    np.seterr(all="ignore")
    stage = os.environ["VERIF_STAGE"]
    import centrosome
    assert os.path.realpath(centrosome.__file__).startswith(os.path.realpath(stage)), (
        "worker imported centrosome from %s, not from the staged copy %s" % (centrosome.__file__, stage))
    prop = importlib.import_module(modname)
    f = getattr(prop, fn)
    with open(inp) as fh:
        cases = json.load(fh)

    def on_alarm(signum, frame):
        raise TimeoutError("case timeout")
    signal.signal(signal.SIGALRM, on_alarm)
    limit = int(getattr(prop, "CASE_TIMEOUT", 30))
    from harness.core import _js
    with open(outp, "a") as out:
        for c in cases:
            signal.alarm(limit)
            try:
                r = f(c)
            except BaseException as e:       # noqa: an exception is an observable outcome
                if isinstance(e, (KeyboardInterrupt, SystemExit)):
                    raise
                r = {"exc": type(e).__name__, "msg": str(e)[:300]}
            finally:
                signal.alarm(0)
            out.write(json.dumps(r, default=_js) + "\n")
            out.flush()


if __name__ == "__main__":
    main()
