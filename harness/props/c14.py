"""C14 - minimum enclosing circle, Feret diameters and convex-hull fill are geometrically exact."""
import math
from fractions import Fraction as F

import numpy as np

ID = "C14"
PROPS_FILE = "theories/Props/C14.v"
EXTRACT = ("theories/Extract/XC14.v", "c14",
           ["entry_mec_ok", "entry_chrystal_many", "entry_sweep_many", "entry_feret_max", "entry_feret_min_ok", "entry_feret_lower_ok",
            "entry_fill_model", "entry_fill_check", "entry_fill_hyp", "entry_chrystal_hyp_many", "entry_chrystal_vec", "entry_strict_convex_many", "entry_bf_min_many", "entry_hull_ijv", "entry_hull_ijv_w"])
PYX = {}
RULE = ("ROUND 4: NO length bound - 1 x N, N x 1, 3 x N label images and slanted thin point bands with N up to 200 000 "
        "(squared lengths beyond 2^31) through the labels path and through convex_hull_ijv; wide objects at coordinates up "
        "to 1 000 000 through hull point lists computed exactly by the harness. ROUND 2 additions: 40 % of the cases as dtype/layout variants (label image int8..int64, uint8..uint64; C, Fortran, "
        "strided view, read-only; index list as list, tuple or array of any integer dtype; hull array int16/int32/int64 in "
        "the same four layouts); 300-420 objects in one call; 1-3 x N images up to N = 3000; consecutive labels sharing scan "
        "rows; point sets with coordinates up to 32 000 through convex_hull_ijv; every function is called twice on the same "
        "arrays and must repeat its answer; all cases of a run execute in one worker process. "
        "label images of 1-20 objects drawn from: single pixel, two pixels, collinear runs (horizontal, vertical, "
        "diagonal, slope 1/s), squares and rectangles (co-circular corners), right and random lattice triangles, thin "
        "diagonals, discs/ellipses, sparse point sets, smooth blobs, per-pixel random labels (interleaved objects); "
        "a fifth of the images shifted by up to 60 rows/columns; index lists permuted, with omitted and absent labels; hull rows passed as produced by convex_hull, with each "
        "object's vertex cycle reversed, or rotated; one case = one vectorised call of each of the three functions; "
        "non-trivial = some object has >= 3 hull vertices; distinct by hash of the case")
TRUSTED = [
    "modelled, not verified: arccos / float cosines of minimum_enclosing_circle (replaced by exact sign and "
    "cross-multiplied predicates), float sqrt and division of feret_diameter and fill_convex_hulls (replaced by exact "
    "rationals with exact ceil/floor); agreement of results is what the correspondence shows",
    "convex_hull (property C02) supplies the hull rows that the three functions and their models consume; the checkers "
    "themselves are evaluated against the object's full pixel set, not against that hull",
    "Python proposes the MEC certificate (support points, weights, exact circle) and the exact width; only the extracted "
    "verified checkers accept it",
]
ASSUMPTIONS = ["NO bound on object length for the three functions of C14: objects up to 200 000 px long are generated (squared "
               "lengths far beyond 2^31).  The only size bound concerns the HULL STEP that feeds them: convex_hull's "
               "CONVEX() cross product wraps in int32 once a triangle of doubled area >= 2^31 is met (C02's known finding), so "
               "objects that are both long AND wide are kept below 32 000 x 32 000 and the longer ones are thin (doubled "
               "areas below 2^31); a failure whose hull differs from the exact hull because of that wrap is attributed to it",
               "float64 exactness (observation, not a bound of the check): above diameter 9 741 the squared cross products "
               "of the sweep exceed 2^53 and above coordinate 9.5e7 the squares in the circumcentre formula do (hunt/C14 "
               "violation 3, a 2 x 1e8 image); the exact-predicate models state agreement below these, results are still "
               "compared against exact values at 1e-7 / 1e-9 relative",
               "hull arrays keep a signed integer type wide enough for coordinate differences (int32 as produced by "
               "convex_hull, int64, int16 only for extents <= 120); caller-retyped unsigned or narrower hull arrays are "
               "outside the contract (reports/C14.md)",
               "index lists hold distinct positive labels, at least one of them present in the image"]
EXHAUSTIVE = {"quick": False, "thorough": False}
CASE_TIMEOUT = 30
FN_TIMEOUT = 8          # seconds per function call inside one case (a hang is a failure of the property)
_TIMEOUTS = [0]
TOL_MEC = 1e-7
TOL_FERET = 1e-9


# ------------------------------------------------------------------------------------ generator

def _obj(rng):
    """one object as a small boolean mask (at least one pixel), plus its class name"""
    u = rng.rand()
    if u < 0.06:
        return np.ones((1, 1), bool), "single"
    if u < 0.12:
        m = np.zeros((rng.randint(1, 6), rng.randint(1, 6)), bool)
        m[0, 0] = True
        m[-1, -1 if rng.rand() < 0.5 else 0] = True
        return m, "two"
    if u < 0.22:
        n = rng.randint(2, 12)
        k = rng.randint(4)
        if k == 0:
            return np.ones((1, n), bool), "collinear"
        if k == 1:
            return np.ones((n, 1), bool), "collinear"
        if k == 2:
            m = np.eye(n, dtype=bool)
            return (m if rng.rand() < 0.5 else m[::-1]), "collinear"
        s = rng.randint(2, 4)
        m = np.zeros((n, (n - 1) * s + 1), bool)
        m[np.arange(n), np.arange(n) * s] = True
        m = m if rng.rand() < 0.5 else m.T
        return (m if rng.rand() < 0.5 else m[::-1]), "collinear"
    if u < 0.34:
        a = rng.randint(1, 12)
        b = a if rng.rand() < 0.5 else rng.randint(1, 12)
        m = np.ones((a, b), bool)
        if rng.rand() < 0.3 and a > 2 and b > 2:
            m[1:-1, 1:-1] = False            # only the frame
        if rng.rand() < 0.2:
            m[:] = False
            m[0, 0] = m[0, -1] = m[-1, 0] = m[-1, -1] = True   # just the four corners
        return m, "rectangle"
    if u < 0.46:
        a, b = rng.randint(2, 12, 2)
        ii, jj = np.mgrid[:a, :b]
        m = ii * (b - 1) + jj * (a - 1) <= (a - 1) * (b - 1)     # right triangle, legs on the axes
        k = rng.randint(4)
        m = [m, m[::-1], m[:, ::-1], m[::-1, ::-1]][k]
        return m, "right_triangle"
    if u < 0.56:
        n = rng.randint(3, 14)
        p = rng.randint(0, n, (3, 2))
        ii, jj = np.mgrid[:n, :n]

        def s(a, b):
            return (b[0] - a[0]) * (jj - a[1]) - (b[1] - a[1]) * (ii - a[0])
        c = [s(p[q], p[(q + 1) % 3]) for q in range(3)]
        m = ((c[0] >= 0) & (c[1] >= 0) & (c[2] >= 0)) | ((c[0] <= 0) & (c[1] <= 0) & (c[2] <= 0))
        if not m.any():
            m[p[0, 0], p[0, 1]] = True
        return m, "triangle"
    if u < 0.66:
        n = rng.randint(3, 14)
        w = rng.randint(1, 3)
        m = np.zeros((n, n + w), bool)
        for q in range(n):
            m[q, q:q + w] = True
        if rng.rand() < 0.4:
            m[rng.randint(n), rng.randint(n + w)] = True
        k = rng.randint(4)
        return [m, m[::-1], m.T, m.T[::-1]][k], "thin_diagonal"
    if u < 0.78:
        a, b = rng.randint(3, 16, 2)
        ii, jj = np.mgrid[:a, :b]
        ra, rb = rng.uniform(1, a / 2.0 + 0.5), rng.uniform(1, b / 2.0 + 0.5)
        m = ((ii - (a - 1) / 2.0) / ra) ** 2 + ((jj - (b - 1) / 2.0) / rb) ** 2 <= 1
        if not m.any():
            m[a // 2, b // 2] = True
        return m, "disc"
    if u < 0.9:
        a, b = rng.randint(2, 14, 2)
        k = rng.randint(3, 9)
        m = np.zeros((a, b), bool)
        m[rng.randint(0, a, k), rng.randint(0, b, k)] = True
        return m, "sparse"
    import scipy.ndimage as ndi
    a, b = rng.randint(4, 16, 2)
    g = ndi.gaussian_filter(rng.rand(a, b), rng.choice([1.0, 1.5, 2.5]))
    m = g > np.median(g)
    if not m.any():
        m[0, 0] = True
    return m, "blob"


def _case(ctx, rng, max_objs=20):
    u = rng.rand()
    classes = []
    if u < 0.12:
        # per-pixel random labels: interleaved objects with overlapping hulls
        h, w = rng.randint(1, 13, 2)
        nl = rng.randint(1, 6)
        lab = rng.randint(0, nl + 1, (h, w)) * (rng.rand(h, w) < rng.choice([0.15, 0.3, 0.7, 1.0]))
        present = [int(x) for x in np.unique(lab) if x]
        classes.append("noise")
        if not present:
            lab[0, 0] = 1
            present = [1]
        labels_used = present
        top = max(present)
    else:
        k = int(rng.choice([1, 1, 1, 2, 3, 5, 8, 13, 20]))
        k = min(k, max_objs)
        masks = []
        for _ in range(k):
            m, c = _obj(rng)
            masks.append(m)
            classes.append(c)
        # label numbers: a random subset of 1..k+3, so numbering has gaps
        pool = rng.permutation(np.arange(1, k + 4))[:k]
        cols = int(math.ceil(math.sqrt(k)))
        th = max(m.shape[0] for m in masks) + 1
        tw = max(m.shape[1] for m in masks) + 1
        rows = (k + cols - 1) // cols
        lab = np.zeros((rows * th, cols * tw), int)
        for q, m in enumerate(masks):
            r, c = divmod(q, cols)
            oi = r * th + rng.randint(0, th - m.shape[0] + 1)
            oj = c * tw + rng.randint(0, tw - m.shape[1] + 1)
            lab[oi:oi + m.shape[0], oj:oj + m.shape[1]][m] = pool[q]
        labels_used = [int(x) for x in pool]
        top = int(max(pool))
    if rng.rand() < 0.2:
        # objects away from the origin (larger coordinates in the float formulas)
        lab = np.pad(lab, ((int(rng.randint(0, 61)), 0), (int(rng.randint(0, 61)), 0)))
        classes.append("offset")
    idx = list(labels_used)
    rng.shuffle(idx)
    if len(idx) > 1 and rng.rand() < 0.2:
        idx = idx[:rng.randint(1, len(idx))]           # some present labels not requested
    if rng.rand() < 0.12:
        idx.insert(rng.randint(0, len(idx) + 1), top + 1)   # an absent label among present ones
    order = str(rng.choice(["fwd", "fwd", "rev", "rot"]))
    rot = [int(rng.randint(0, 64)) for _ in idx]
    for c in classes:
        ctx.count("object:" + c)
    ctx.count("order:" + order)
    ctx.count("objects_per_call:%s" % ("1" if len(idx) == 1 else "2-5" if len(idx) <= 5 else "6+"))
    case = {"labels": lab.tolist(), "indexes": [int(x) for x in idx], "order": order, "rot": rot}
    _variant(ctx, rng, case, int(lab.max()), max(lab.shape))
    return case


LABEL_DTYPES = ["int8", "int16", "int32", "int64", "uint8", "uint16", "uint32", "uint64"]
LAYOUTS = ["C", "F", "strided", "readonly"]
# diameter^2 must stay below 2^31: feret_diameter forms (pt1 - pt2) ** 2 in the hull's int32
COORD_MAX = 32000          # diagonal 45 254 < 46 341 = ceil(sqrt(2^31))


def _exact_hull(pts):
    """strict convex hull (no collinear vertices) of integer points, exact, counter-clockwise in (i, j)"""
    pts = sorted(set(map(tuple, pts)))
    if len(pts) <= 2:
        return [list(p) for p in pts]

    def cr(o, a, b):
        return (a[0] - o[0]) * (b[1] - o[1]) - (a[1] - o[1]) * (b[0] - o[0])
    lo, up = [], []
    for p in pts:
        while len(lo) >= 2 and cr(lo[-2], lo[-1], p) <= 0:
            lo.pop()
        lo.append(p)
    for p in reversed(pts):
        while len(up) >= 2 and cr(up[-2], up[-1], p) <= 0:
            up.pop()
        up.append(p)
    return [list(p) for p in lo[:-1] + up[:-1]]


def _kernel_order(h):
    """the storage order convex_hull itself produces: start at the vertex with the smallest (j, i), clockwise in (i, j)"""
    if len(h) <= 2:
        return sorted(h, key=lambda p: (p[1], p[0]))
    s0 = min(range(len(h)), key=lambda k: (h[k][1], h[k][0]))
    r = h[s0:] + h[:s0]
    return [r[0]] + r[1:][::-1]


def _big_wide(ctx, rng):
    """objects that are long AND wide at coordinates up to 1 000 000, handed to feret_diameter and
    minimum_enclosing_circle as hull point lists computed exactly by the harness (convex_hull is bypassed: its
    CONVEX() wraps for triangles of doubled area >= 2^31, C02's known finding)"""
    scale = int(rng.choice([60000, 200000, 1000000]))
    k = int(rng.randint(1, 4))
    labs = [int(x) for x in rng.permutation(np.arange(1, k + 3))[:k]]
    rows = []
    for l in labs:
        off = rng.randint(0, scale, 2) if rng.rand() < 0.5 else (0, 0)
        u = rng.rand()
        if u < 0.3:
            a, b = rng.randint(scale // 2, scale, 2)
            pts = [(0, 0), (0, b), (a, b), (a, 0)] + [(rng.randint(0, a + 1), rng.randint(0, b + 1)) for _ in range(rng.randint(0, 5))]
        elif u < 0.5:
            a = rng.randint(scale // 2, scale)
            # (no slivers here: beyond ~1.9e5 px the arccos-based angle test of minimum_enclosing_circle trips its
            #  own assert for some storage orders - float conditioning, see reports/C14.md round 4)
            pts = [(0, 0), (a, 0), (0, int(rng.choice([a // 3, a // 2, a]))), (1, 1)]
        else:
            pts = [(rng.randint(0, scale), rng.randint(0, scale)) for _ in range(rng.randint(1, 12))]
        for p in set((int(p[0] + off[0]), int(p[1] + off[1])) for p in pts):
            rows.append([p[0], p[1], l])
    rng.shuffle(labs)
    ctx.count("class:big_wide_exact_hull<=%d" % scale)
    order = str(rng.choice(["fwd", "rev", "rot"]))
    # Objects reach minimum_enclosing_circle through convex_hull; hull_and_point_count is meant to carry its output.
    # Reversed / rotated vertex cycles are an extra the check exercises below 150 000 px only: above, the arccos-based
    # angle test can trip the function's own assert for orders convex_hull never produces (observation, reports/C14.md).
    long3 = False
    for l in labs:
        P = np.array([r[:2] for r in rows if r[2] == l], dtype=np.int64)
        ext = int(max(P[:, 0].max() - P[:, 0].min(), P[:, 1].max() - P[:, 1].min()))
        if ext > 150000 and len(_exact_hull(P.tolist())) >= 3:
            long3 = True
    if long3 and order != "fwd":
        ctx.count("excluded:reversed_or_rotated_hull_order_above_150000px")
        order = "fwd"
    return {"ijv": rows, "hull_by": "harness", "labels": [[0]], "indexes": labs,
            "order": order, "rot": [int(rng.randint(0, 8)) for _ in labs]}


def _lab_array(case, dtype="int64"):
    """the label image of a case; long thin images are stored sparsely as {"shape", "pix": [[i, j, label], ...]}"""
    if "sparse" in case:
        sp = case["sparse"]
        lab = np.zeros(tuple(sp["shape"]), dtype)
        for i, j, l in sp["pix"]:
            lab[i, j] = l
        return lab
    return np.array(case["labels"], dtype)


def _variant(ctx, rng, case, top_label, extent):
    """dtype / memory-layout / container variants of the same mathematical input (40 % of the cases)"""
    if rng.rand() < 0.6:
        return
    ok = [d for d in LABEL_DTYPES if top_label + 1 <= np.iinfo(d).max]
    case["ldtype"] = str(rng.choice(ok))
    case["llayout"] = str(rng.choice(LAYOUTS))
    case["idx_kind"] = str(rng.choice(["list", "tuple"] + ok))
    # hull arrays: signed types wide enough for the code's own squared differences
    hd = ["int32", "int64"] + (["int16"] if extent <= 120 else [])
    case["hdtype"] = str(rng.choice(hd))
    case["hlayout"] = str(rng.choice(LAYOUTS))
    ctx.count("variant:labels:%s/%s" % (case["ldtype"], case["llayout"]))
    ctx.count("variant:hull:%s/%s" % (case["hdtype"], case["hlayout"]))
    ctx.count("variant:indexes:%s" % case["idx_kind"])


def _many_objects(ctx, rng):
    """300-420 tiny objects in one vectorised call"""
    k = int(rng.randint(300, 421))
    cols = int(rng.randint(15, 26))
    rows = (k + cols - 1) // cols
    lab = np.zeros((rows * 3, cols * 3), int)
    pool = rng.permutation(np.arange(1, k + 30))[:k]
    for q in range(k):
        r, c = divmod(q, cols)
        m = rng.rand(3, 3) < rng.choice([0.2, 0.5, 0.9])
        if rng.rand() < 0.3:
            m[:, 2] = False
            m[2, :] = False
        if not m.any():
            m[rng.randint(3), rng.randint(3)] = True
        lab[r * 3:r * 3 + 3, c * 3:c * 3 + 3][m] = pool[q]
    idx = [int(x) for x in rng.permutation(pool)]
    ctx.count("class:many_objects")
    case = {"labels": lab.tolist(), "indexes": idx, "order": str(rng.choice(["fwd", "rev", "rot"])),
            "rot": [int(rng.randint(0, 8)) for _ in idx]}
    _variant(ctx, rng, case, int(lab.max()), max(lab.shape))
    return case


def _thin_long(ctx, rng):
    """1 x N, 2 x N, 3 x N images (and transposes), N up to 3000: single-row / single-column objects,
    very flat hulls"""
    tall = rng.rand() < 0.5
    # a tall image makes one scan-line entry per row and edge: the model's insertion sort is quadratic in them
    n = int(rng.choice([50, 200, 400])) if tall else int(rng.choice([50, 300, 1000, 3000]))
    w = int(rng.randint(1, 4))
    lab = np.zeros((w, n), int)
    k = int(rng.randint(1, 9))
    cuts = np.sort(rng.choice(np.arange(1, n), size=min(k, n - 1), replace=False)).tolist() + [n]
    a = 0
    labs = rng.permutation(np.arange(1, len(cuts) + 3))[:len(cuts)]
    for q, b in enumerate(cuts):
        seg = lab[:, a:b]
        u = rng.rand()
        small = seg.size <= 300           # the exact all-pairs maximum is quadratic in the pixel count
        if u < 0.3 and small:
            seg[rng.randint(w), :] = labs[q]                      # one full row of the segment
        elif u < 0.6 and small:
            seg[:] = labs[q]
        else:
            m = rng.rand(*seg.shape) < min(1.0, rng.choice([3.0, 20.0, 120.0]) / seg.size)
            m[rng.randint(w), 0] = m[rng.randint(w), -1] = True   # spans the whole segment
            seg[m] = labs[q]
        a = b
    if tall:
        lab = lab.T.copy()
    present = [int(x) for x in np.unique(lab) if x]
    if not present:
        lab[0, 0] = 1
        present = [1]
    rng.shuffle(present)
    ctx.count("class:thin_long_image")
    case = {"labels": lab.tolist(), "indexes": present, "order": str(rng.choice(["fwd", "rev", "rot"])),
            "rot": [int(rng.randint(0, 8)) for _ in present]}
    _variant(ctx, rng, case, int(lab.max()), max(lab.shape))
    return case


def _shared_rows(ctx, rng):
    """consecutive labels whose last scan line is on the same image row as the next label's first one
    (and objects side by side on exactly the same rows)"""
    k = int(rng.randint(2, 9))
    hs = rng.randint(1, 6, k)
    ws = rng.randint(1, 6, k)
    lab = np.zeros((int(hs.sum()) + 2, int(ws.sum()) + k + 2), int)
    i = j = 0
    first = int(rng.randint(1, 5))
    for q in range(k):
        m, _ = _obj(rng)
        m = m[:hs[q] + 1, :ws[q] + 1]
        if not m[0].any():
            m[0, 0] = True
        if not m[-1].any():
            m[-1, -1] = True
        lab[i:i + m.shape[0], j:j + m.shape[1]][m] = first + q
        # the next object starts on this object's LAST row (or, sometimes, on its first row)
        i = i + (m.shape[0] - 1 if rng.rand() < 0.75 else 0)
        j = j + m.shape[1] + int(rng.randint(0, 2))
        if i + 7 > lab.shape[0] or j + 7 > lab.shape[1]:
            lab = np.pad(lab, ((0, 8), (0, 8)))
    idx = [int(x) for x in np.unique(lab) if x]
    if rng.rand() < 0.4:
        rng.shuffle(idx)
    ctx.count("class:shared_rows")
    case = {"labels": lab.tolist(), "indexes": idx, "order": str(rng.choice(["fwd", "rev", "rot"])),
            "rot": [int(rng.randint(0, 8)) for _ in idx]}
    _variant(ctx, rng, case, int(lab.max()), max(lab.shape))
    return case


def _big_coords(ctx, rng):
    """objects given as (i, j, label) rows to convex_hull_ijv with coordinates up to COORD_MAX, so that
    squared distances approach 2^31 and cross products exceed 2^31"""
    k = int(rng.randint(1, 5))
    rows = []
    labs = rng.permutation(np.arange(1, k + 3))[:k]
    scale = int(rng.choice([2000, 9000, COORD_MAX]))
    for l in labs:
        u = rng.rand()
        oi, oj = 0, 0
        if u < 0.3:
            a, b = rng.randint(scale // 2, scale + 1, 2)
            pts = [(0, 0), (0, b), (a, b), (a, 0)] + [(rng.randint(0, a + 1), rng.randint(0, b + 1)) for _ in range(rng.randint(0, 4))]
        elif u < 0.5:
            a = rng.randint(scale // 2, scale + 1)                  # right / isosceles triangles, thin slivers
            pts = [(0, 0), (a, 0), (0, int(rng.choice([1, 2, a // 2, a])))] + [(1, 0)]
        elif u < 0.65:
            a = rng.randint(2, scale + 1)
            pts = [(t * (a // 4), t * (a // 4) if rng.rand() < 0.5 else 0) for t in range(4)]      # collinear
        else:
            n = rng.randint(1, 10)
            pts = [(rng.randint(0, scale + 1), rng.randint(0, scale + 1)) for _ in range(n)]
        for p in set((int(a_), int(b_)) for a_, b_ in pts):
            rows.append([p[0], p[1], int(l)])
    idx = [int(x) for x in rng.permutation(labs)]
    ctx.count("class:big_coordinates<=%d" % scale)
    case = {"ijv": rows, "labels": [[0]], "indexes": idx, "order": str(rng.choice(["fwd", "rev", "rot"])),
            "rot": [int(rng.randint(0, 8)) for _ in idx]}
    if rng.rand() < 0.4:
        case["idx_kind"] = str(rng.choice(["list", "tuple", "int16", "int32", "int64", "uint8", "uint32"]))
        case["hdtype"] = str(rng.choice(["int32", "int64"]))
        case["hlayout"] = str(rng.choice(LAYOUTS))
    return case


def _long_thin(ctx, rng):
    """Objects 46 341 px and longer (up to 200 000): squared lengths beyond 2^31.  Long THIN objects only, so that
    every cross product inside convex_hull's CONVEX() stays below 2^31 (its int32 wrap is C02's known finding):
    1 x N, N x 1 and 3 x N label images (stored sparsely, a few pixels per object) through the labels path, and
    point lists near a slanted line through convex_hull_ijv / hull_and_point_count."""
    n = int(rng.choice([46342, 46400, 50000, 65536, 70000, 100000, 200000, int(rng.randint(46342, 200001))]))
    u = rng.rand()
    k = int(rng.randint(1, 4))
    labs = [int(x) for x in rng.permutation(np.arange(1, k + 3))[:k]]
    order = str(rng.choice(["fwd", "fwd", "rev", "rot"]))
    w = int(rng.choice([1, 1, 3]))
    if not (u < 0.6 and w == 1):
        n = min(n, 150000)      # objects with >= 3 hull vertices: slivers stay below the arccos conditioning limit (~1.9e5)
    if u < 0.6:
        pix = []
        for l in labs:
            lo, hi = sorted(rng.randint(0, n, 2).tolist())
            if rng.rand() < 0.7:
                lo, hi = int(rng.randint(0, 50)), n - 1 - int(rng.randint(0, 50))       # (almost) the full length
            cols = {lo, hi} | set(rng.randint(lo, hi + 1, int(rng.randint(0, 12))).tolist())
            for j in cols:
                pix.append([int(rng.randint(w)), int(j), l])
        pix = [list(x) for x in {(i, j): (i, j, l) for i, j, l in pix}.values()]
        labs = [l for l in labs if any(p[2] == l for p in pix)]
        shape = [w, n]
        if rng.rand() < 0.4:
            pix = [[j, i, l] for i, j, l in pix]
            shape = [n, w]
        rng.shuffle(labs)
        ctx.count("class:long_thin_image_%s" % ("1xN" if w == 1 else "3xN"))
        case = {"sparse": {"shape": shape, "pix": pix}, "labels": [[0]], "indexes": labs, "order": order,
                "rot": [int(rng.randint(0, 8)) for _ in labs]}
        if rng.rand() < 0.5:
            case["ldtype"] = str(rng.choice(["uint8", "int16", "int32", "int64", "uint16"]))
            case["llayout"] = str(rng.choice(LAYOUTS))
            case["idx_kind"] = str(rng.choice(["list", "tuple", "int32", "uint8"]))
            case["hdtype"] = str(rng.choice(["int32", "int64"]))
            case["hlayout"] = str(rng.choice(LAYOUTS))
        return case
    # a thin band around a slanted line: doubled triangle areas stay far below 2^31
    rows = []
    for l in labs:
        si, sj = rng.randint(0, 4), rng.randint(1, 4)
        m = n // max(si, sj)
        oi, oj = int(rng.randint(0, 1000)), int(rng.randint(0, 1000))
        ts = {0, m - 1} | set(rng.randint(0, m, int(rng.randint(0, 10))).tolist())
        for t in ts:
            rows.append([oi + int(t) * int(si) + int(rng.randint(0, 3)), oj + int(t) * int(sj) + int(rng.randint(0, 3)), l])
    rows = [list(x) for x in set(map(tuple, rows))]
    rng.shuffle(labs)
    ctx.count("class:long_thin_points_slanted")
    return {"ijv": rows, "labels": [[0]], "indexes": labs, "order": order, "rot": [int(rng.randint(0, 8)) for _ in labs]}


def _corpus():
    cs = []

    def one(lab, idx=None, order="fwd"):
        lab = np.array(lab, int)
        idx = idx or [int(x) for x in np.unique(lab) if x]
        cs.append({"labels": lab.tolist(), "indexes": idx, "order": order, "rot": [1] * len(idx)})
    one([[1]])
    one([[1, 0, 0, 1]])
    one([[1, 1, 1, 1, 1]])
    one(np.eye(5, dtype=int))
    for o in ("fwd", "rev", "rot"):
        one(np.ones((4, 4), int), order=o)                   # square: four co-circular corners
        one(np.ones((3, 7), int), order=o)                   # rectangle
        one(np.tril(np.ones((5, 5), int)), order=o)          # right isosceles triangle
        one([[0, 1, 0], [1, 1, 1], [0, 1, 0]], order=o)      # plus sign: diamond hull
        one([[1, 0, 0, 0, 0], [0, 0, 0, 0, 2], [0, 0, 1, 0, 0], [2, 0, 0, 0, 0], [0, 0, 0, 1, 2]], [2, 1], order=o)
    one([[3, 3, 0, 1], [3, 3, 0, 1], [0, 0, 0, 0], [2, 0, 0, 0]], [2, 4, 3, 1])   # absent label 4
    # objects longer than sqrt(2^31) pixels (outside tester, hunt/C14 violation 2)
    for n in (46342, 70000, 200000):
        cs.append({"sparse": {"shape": [1, n], "pix": [[0, 0, 1], [0, n - 1, 1]]}, "labels": [[0]], "indexes": [1],
                   "order": "fwd", "rot": [0]})
        cs.append({"sparse": {"shape": [n, 1], "pix": [[0, 0, 1], [n - 1, 0, 1], [n // 3, 0, 1]]}, "labels": [[0]],
                   "indexes": [1], "order": "fwd", "rot": [0]})
    cs.append({"sparse": {"shape": [3, 70000], "pix": [[0, 0, 1], [0, 69999, 1], [1, 30000, 1], [2, 30000, 1]]},
               "labels": [[0]], "indexes": [1], "order": "fwd", "rot": [0]})
    return cs


def generate(ctx):
    import os, json
    cases = _corpus()
    cdir = os.path.join(os.path.dirname(os.path.dirname(os.path.dirname(os.path.abspath(__file__)))), "corpus", "C14")
    if os.path.isdir(cdir):
        for name in sorted(os.listdir(cdir)):
            if name.endswith(".json"):
                with open(os.path.join(cdir, name)) as f:
                    d = json.load(f)
                cases.extend(d if isinstance(d, list) else [d])
    rng = ctx.rng
    for _ in range(ctx.n(1200, 22000)):
        cases.append(_case(ctx, rng))
    for _ in range(ctx.n(6, 60)):
        cases.append(_many_objects(ctx, rng))
    for _ in range(ctx.n(40, 700)):
        cases.append(_thin_long(ctx, rng))
    for _ in range(ctx.n(120, 2000)):
        cases.append(_shared_rows(ctx, rng))
    for _ in range(ctx.n(150, 2500)):
        cases.append(_big_coords(ctx, rng))
    for _ in range(ctx.n(60, 900)):
        cases.append(_long_thin(ctx, rng))
    for _ in range(ctx.n(60, 900)):
        cases.append(_big_wide(ctx, rng))
    return cases


# ------------------------------------------------------------------------------------ implementation

def _clean(a):
    a = np.asarray(a, float)
    return [None if (isinstance(x, float) and x != x) else x for x in a.ravel().tolist()]


def impl(case):
    import signal
    from centrosome import cpmorphology as M
    if _TIMEOUTS[0] >= 3:
        # three calls already hung in this worker: do not spend FN_TIMEOUT on each remaining case
        return {"skipped": "after repeated timeouts"}
    def lay(a, how):
        if how == "F":
            return np.asfortranarray(a)
        if how == "strided":
            big = np.zeros(tuple(2 * d for d in a.shape), a.dtype)
            big[(slice(None, None, 2),) * a.ndim] = a
            return big[(slice(None, None, 2),) * a.ndim]
        if how == "readonly":
            a = a.copy()
            a.flags.writeable = False
        return a

    lab = lay(_lab_array(case, case.get("ldtype", "int64")), case.get("llayout", "C"))
    ik = case.get("idx_kind", "list")
    idx = list(case["indexes"])
    idx = idx if ik == "list" else tuple(idx) if ik == "tuple" else np.array(idx, ik)
    if case.get("hull_by") == "harness":
        hs = [_kernel_order(_exact_hull([r[:2] for r in case["ijv"] if r[2] == l])) for l in case["indexes"]]
        hull = np.array([[l, p[0], p[1]] for l, h in zip(case["indexes"], hs) for p in h], np.int32).reshape(-1, 3)
        cnt = np.array([len(h) for h in hs], np.int32)
    elif "ijv" in case:
        hull, cnt = M.convex_hull_ijv(np.array(case["ijv"], np.int32).reshape(-1, 3), np.array(case["indexes"]))
    else:
        hull, cnt = M.convex_hull(lab, idx)
    hull = np.asarray(hull)
    cnt = np.asarray(cnt)
    order = case["order"]
    variant = "hdtype" in case or "ijv" in case
    if order != "fwd" and len(hull):
        parts = []
        off = 0
        for k, c in enumerate(cnt.tolist()):
            blk = hull[off:off + c]
            off += c
            if c:
                if order == "rev":
                    blk = blk[::-1]
                else:
                    r = case["rot"][k] % c
                    blk = np.vstack([blk[r:], blk[:r]])
            parts.append(blk)
        hull = np.ascontiguousarray(np.vstack(parts)).astype(hull.dtype)
    if "hdtype" in case and len(hull):
        hull = lay(hull.astype(case["hdtype"]), case.get("hlayout", "C"))
    out = {"hull": hull.tolist(), "cnt": cnt.tolist()}
    twice = {}

    def guard(name, f):
        try:
            signal.alarm(FN_TIMEOUT)     # handler installed by harness.worker raises TimeoutError
            out[name] = f()
            # the same call again on the very same arrays: no state between calls, no input mutation
            if f() != out[name]:
                twice[name] = True
        except Exception as e:      # noqa: an exception of one function must not hide the others
            if isinstance(e, TimeoutError):
                _TIMEOUTS[0] += 1
            out[name] = {"exc": type(e).__name__, "msg": str(e)[:200]}
        finally:
            signal.alarm(0)

    def mec():
        if order == "fwd" and not variant:
            c, r = M.minimum_enclosing_circle(lab, idx)
        else:
            c, r = M.minimum_enclosing_circle(lab, idx, (hull, cnt))
        c = np.asarray(c, float).reshape(-1, 2)
        return {"cy": _clean(c[:, 0]), "cx": _clean(c[:, 1]), "r": _clean(r)}

    def feret():
        mn, mx = M.feret_diameter(hull, cnt, idx if ik not in ("list", "tuple") else np.array(idx))
        return {"min": _clean(mn), "max": _clean(mx)}

    def fill():
        if len(hull):
            # rows = area of the polygons: only filled when the bounding boxes stay small
            area = rows_ = 0
            off = 0
            for c in cnt.tolist():
                b = hull[off:off + c, 1:].astype(np.int64)
                off += c
                if c:
                    area += int((b[:, 0].max() - b[:, 0].min() + 1) * (b[:, 1].max() - b[:, 1].min() + 1))
                    rows_ += int(b[:, 0].max() - b[:, 0].min() + 1)
            if area > 40000 or rows_ > 1500:      # (the model sorts one entry per edge and row by insertion)
                return "not-run"
        ijv = M.fill_convex_hulls(hull, cnt)
        return np.asarray(ijv).astype(int).tolist()

    guard("mec", mec)
    guard("feret", feret)
    guard("fill", fill)
    if twice:
        out["twice_differs"] = sorted(twice)
    return out


def _bad(o):
    return (not isinstance(o, dict)) or "exc" in o or "crash" in o or "skipped" in o


def _skipped(o):
    return isinstance(o, dict) and "skipped" in o


def _exc(o):
    return isinstance(o, dict) and ("exc" in o or "crash" in o)


def _objects(case, out):
    """per requested label: (label, pixel list, hull vertex list as passed to the functions)"""
    lab = None if ("sparse" in case or "ijv" in case) else np.array(case["labels"], int)
    res = []
    off = 0
    for k, l in enumerate(case["indexes"]):
        c = out["cnt"][k]
        h = [[r[1], r[2]] for r in out["hull"][off:off + c]]
        off += c
        if "ijv" in case:
            pix = sorted([r[0], r[1]] for r in case["ijv"] if r[2] == l)
        elif "sparse" in case:
            pix = sorted([r[0], r[1]] for r in case["sparse"]["pix"] if r[2] == l)
        else:
            pix = np.argwhere(lab == l).tolist()
        res.append((l, pix, h))
    return res


# ------------------------------------------------------------------------------------ exact helpers

def _d2(a, b):
    return (a[0] - b[0]) ** 2 + (a[1] - b[1]) ** 2


def _dot(a, b, c):
    return (a[0] - c[0]) * (b[0] - c[0]) + (a[1] - c[1]) * (b[1] - c[1])


def _q(fr):
    fr = F(fr)
    return [fr.numerator, fr.denominator]


def _circum(a, b, c):
    """exact circumcircle of three lattice points and the barycentric weights of its centre"""
    d = 2 * (a[1] * (b[0] - c[0]) + b[1] * (c[0] - a[0]) + c[1] * (a[0] - b[0]))
    if d == 0:
        return None
    sq = lambda p: p[0] * p[0] + p[1] * p[1]
    nx = sq(a) * (b[0] - c[0]) + sq(b) * (c[0] - a[0]) + sq(c) * (a[0] - b[0])
    ny = sq(a) * (c[1] - b[1]) + sq(b) * (a[1] - c[1]) + sq(c) * (b[1] - a[1])
    cy, cx = F(ny, d), F(nx, d)
    R = (a[0] - cy) ** 2 + (a[1] - cx) ** 2
    w = (_d2(b, c) * _dot(b, c, a), _d2(a, c) * _dot(a, c, b), _d2(a, b) * _dot(a, b, c))
    return cy, cx, R, w


def _certificate(pix, cy, cx, r):
    """Propose (s1 s2 s3, weights, exact circle) for the reported float circle: support points are
    looked for among the pixels within 1e-6 of the reported circle."""
    P = np.array(pix, float)
    dist = np.hypot(P[:, 0] - cy, P[:, 1] - cx)
    near = np.argsort(np.abs(dist - r), kind="stable")
    near = [tuple(pix[k]) for k in near[:14] if abs(dist[k] - r) <= 1e-6]
    cands = []
    if r <= 1e-6:
        for p in near[:1]:
            cands.append(((p, p, p), (1, 0, 0), F(p[0]), F(p[1]), F(0)))
    for x in range(len(near)):
        for y in range(x + 1, len(near)):
            a, b = near[x], near[y]
            cands.append(((a, b, a), (1, 1, 0), F(a[0] + b[0], 2), F(a[1] + b[1], 2), F(_d2(a, b), 4)))
            for z in range(y + 1, len(near)):
                c = near[z]
                cc = _circum(a, b, c)
                if cc is None or min(cc[3]) < 0:
                    continue
                cands.append(((a, b, c), cc[3], cc[0], cc[1], cc[2]))
    if not cands:
        return None

    def score(c):
        return max(abs(float(c[2]) - cy), abs(float(c[3]) - cx), abs(math.sqrt(c[4]) - r))
    cands.sort(key=score)
    pi = np.array(pix, dtype=object)
    for c in cands[:6]:
        if score(c) > TOL_MEC:
            break
        ey, ex, R = c[2], c[3], c[4]
        den = ey.denominator * ex.denominator
        ny, nx = ey.numerator * ex.denominator, ex.numerator * ey.denominator
        lim = R * den * den
        if all((p[0] * den - ny) ** 2 + (p[1] * den - nx) ** 2 <= lim for p in pix):
            return c
    return cands[0]


# ------------------------------------------------------------------------------------ model + compare

def model(ctx, cases, outs):
    import time as _t
    _orig = ctx.run_model

    def _timed(entry, args):
        t0 = _t.time()
        r = _orig(entry, args)
        ctx.timings["model:" + entry] = round(ctx.timings.get("model:" + entry, 0) + _t.time() - t0, 1)
        return r
    ctx.run_model = _timed
    try:
        return _model(ctx, cases, outs)
    finally:
        ctx.run_model = _orig


def _model(ctx, cases, outs):
    res = [None] * len(cases)
    ok = [k for k in range(len(cases)) if not _bad(outs[k])]
    objs = {k: _objects(cases[k], outs[k]) for k in ok}
    hulls = [[h for (_, _, h) in objs[k]] for k in ok]
    ch = ctx.run_model("entry_chrystal_many", hulls)
    for hy, hs in zip(ctx.run_model("entry_chrystal_hyp_many", hulls), hulls):
        for r, h in zip(hy, hs):
            if h:   # hypothesis of theorem C14_chrystal_reaches_certificate on this run's hull lists
                ctx.count("chrystal_hypothesis_holds" if r == 1 else "chrystal_hypothesis_FAILS(hull not strict / first edge)")
    sw = ctx.run_model("entry_sweep_many", hulls)
    for hy, hs in zip(ctx.run_model("entry_strict_convex_many", hulls), hulls):
        for r, h in zip(hy, hs):
            if len(h) >= 3:   # hypothesis of theorem C14_calipers_max_eq_bruteforce on this run's hulls
                ctx.count("calipers_hypothesis_holds" if r == 1 else "calipers_hypothesis_FAILS(hull not strictly convex)")
    fl = ctx.run_model("entry_fill_model", [[[l, h] for (l, _, h) in objs[k] if h] if outs[k]["fill"] != "not-run" else []
                                            for k in ok])
    # brute force on the same vertex lists, next to the sweep: a disagreement refutes calipers = brute force
    flat = [h for hs in hulls for h in hs if len(h) >= 1]
    bf = iter(ctx.run_model("entry_feret_max", flat)) if flat else iter([])
    bfm = ctx.run_model("entry_bf_min_many", hulls)        # Coq's own brute-force minimum (Spec/FeretBrute.v)
    # the vectorised bookkeeping model (global arrays, all objects of the call together)
    # (list-based global arrays: cost ~ objects x rows^2 per pass, so very large calls are left to the per-object model)
    cheap = [len(hs) * sum(len(h) for h in hs) ** 2 <= 2 * 10 ** 7 for hs in hulls]
    ctx.count("vectorised_model_compared", sum(cheap))
    ctx.count("vectorised_model_skipped_large_call", len(cheap) - sum(cheap))
    vr = iter(ctx.run_model("entry_chrystal_vec", [[cases[k]["indexes"], hs] for k, hs, c in zip(ok, hulls, cheap) if c]))
    vec = [next(vr) if c else None for c in cheap]
    for k, r, w, f, hs, v, bm in zip(ok, ch, sw, fl, hulls, vec, bfm):
        res[k] = {"mec": r, "mec_vec": v, "bf_min": bm, "sweep": w, "fill": f, "bf_max": [next(bf) if len(h) >= 1 else 0 for h in hs]}
    return res


def _close(a, b, tol):
    return a is not None and abs(a - b) <= tol * max(1.0, abs(b))


def compare(case, out, m):
    if _skipped(out):
        return None
    if _bad(out):
        return "implementation raised/crashed: %s" % (str(out)[:300],)
    if m is None or isinstance(m.get("mec"), dict):
        return "model failed: %s" % (m,)
    mec = out["mec"]
    if _exc(mec):
        return "minimum_enclosing_circle raised %s" % (mec,)
    if m["mec_vec"] is not None and m["mec_vec"] != m["mec"]:
        return "vectorised bookkeeping model differs from the per-object model: %s vs %s" % (str(m["mec_vec"])[:200], str(m["mec"])[:200])
    for k, r in enumerate(m["mec"]):
        cy, cx, rad = mec["cy"][k], mec["cx"][k], mec["r"][k]
        if r[0] == 0:
            if not (cy is None and cx is None and rad == 0):
                return "object %d has no pixel: model says centre NaN radius 0, implementation %s" % (k, (cy, cx, rad))
            continue
        if r[0] != 3:
            return "Chrystal model did not finish on object %d (tag %d)" % (k, r[0])
        _, ny, nx, d, rn = r
        ey, ex, er = ny / d, nx / d, math.sqrt(F(rn, d * d))
        if not (_close(cy, ey, TOL_MEC) and _close(cx, ex, TOL_MEC) and _close(rad, er, TOL_MEC)):
            return "minimum_enclosing_circle object %d: implementation (%r, %r, %r) vs exact Chrystal model (%r, %r, %r)" % (
                k, cy, cx, rad, ey, ex, er)
    fer = out["feret"]
    if _exc(fer):
        return "feret_diameter raised %s" % (fer,)
    if isinstance(m["sweep"], dict):
        return "sweep model failed: %s" % (m["sweep"],)
    hs = [h for (_, _, h) in _objects(case, out)]
    for k, w in enumerate(m["sweep"]):
        if len(w) != 3:
            return "antipodal sweep model ran out of fuel on object %d" % k
        be = _best_edge(hs[k], hs[k]) if len(hs[k]) >= 3 else None
        bmin = be[0] if be else F(0)
        cm = m["bf_min"][k]
        if len(hs[k]) >= 3 and (len(cm) != 2 or F(cm[0], cm[1]) != bmin):
            return "brute-force minimum of Spec/FeretBrute.v (%s) differs from the harness's (%s) on hull %s" % (cm, bmin, hs[k])
        if w[0] != m["bf_max"][k] or F(w[1], w[2]) != bmin:
            return ("REFUTATION of calipers = brute force on hull %s: sweep model (max^2 %s, min^2 %s/%s), brute force "
                    "(max^2 %s, min^2 %s)" % (hs[k], w[0], w[1], w[2], m["bf_max"][k], bmin))
        emax, emin = math.sqrt(w[0]), math.sqrt(F(w[1], w[2]))
        if not (_close(fer["max"][k], emax, TOL_FERET) and _close(fer["min"][k], emin, TOL_FERET)):
            return "feret_diameter object %d: implementation (min %r, max %r) vs exact sweep model (min %r, max %r)" % (
                k, fer["min"][k], fer["max"][k], emin, emax)
    if _exc(out["fill"]):
        return "fill_convex_hulls raised %s" % (out["fill"],)
    if out.get("twice_differs"):
        return "a second identical call returned something else for: %s" % out["twice_differs"]
    if out["fill"] != "not-run" and out["fill"] != m["fill"]:
        a, b = out["fill"], m["fill"]
        d = next((q for q in range(min(len(a), len(b))) if a[q] != b[q]), min(len(a), len(b)))
        return "fill_convex_hulls differs from the scan-line model at row %d: implementation %s model %s (lengths %d, %d)" % (
            d, a[d:d + 3], b[d:d + 3], len(a), len(b))
    return None


# ------------------------------------------------------------------------------------ property check

def check(ctx, cases, outs):
    res = [None] * len(cases)
    jobs = []      # (case k, object q, args)
    for k, (case, out) in enumerate(zip(cases, outs)):
        if _skipped(out):
            continue
        if _bad(out):
            res[k] = "implementation raised/crashed on a valid input: %s" % (str(out)[:300],)
            continue
        for name in ("mec", "feret", "fill"):
            if _exc(out[name]) and res[k] is None:
                res[k] = "%s raised on a valid input: %s" % (name, str(out[name])[:200])
        if res[k]:
            continue
        mec = out["mec"]
        for q, (l, pix, h) in enumerate(_objects(case, out)):
            if not pix:
                continue
            cy, cx, r = mec["cy"][q], mec["cx"][q], mec["r"][q]
            if cy is None or cx is None or r is None:
                res[k] = "minimum_enclosing_circle: NaN for object %d (label %d) which has pixels" % (q, l)
                break
            cert = _certificate(pix, cy, cx, r)
            if cert is None:
                res[k] = ("minimum_enclosing_circle: object %d (label %d): no pixel lies on the reported circle "
                          "(centre %r,%r radius %r): it is not the minimum enclosing circle" % (q, l, cy, cx, r))
                break
            (s1, s2, s3), w, ey, ex, R = cert
            if not (_close(cy, float(ey), TOL_MEC) and _close(cx, float(ex), TOL_MEC) and _close(r, math.sqrt(R), TOL_MEC)):
                res[k] = ("minimum_enclosing_circle: object %d (label %d): reported circle (%r,%r,%r) is not within 1e-7 "
                          "of any circle supported by its pixels (nearest: %s,%s,r=%r)" % (
                              q, l, cy, cx, r, ey, ex, math.sqrt(R)))
                break
            jobs.append((k, q, [pix, [list(s1), list(s2), list(s3)], [_q(x) for x in w], [_q(ey), _q(ex), _q(R)]]))
    _check_feret_fill(ctx, cases, outs, res)
    if jobs:
        rs = ctx.run_model("entry_mec_ok", [j[2] for j in jobs])
        for (k, q, a), r in zip(jobs, rs):
            if r != 1 and res[k] is None:
                res[k] = ("minimum_enclosing_circle: object %d: the circle the implementation reports (exactly: centre "
                          "%s/%s, %s/%s, squared radius %s/%s) fails the verified certificate checker mec_ok: it does not "
                          "contain every pixel or is not minimal" % ((q,) + tuple(a[3][0]) + tuple(a[3][1]) + tuple(a[3][2])))
    return res


def _best_edge(pix, h):
    """exact minimum over the edges of h of (largest distance of a pixel to the edge's line)^2"""
    P = np.array(pix, dtype=np.int64)
    best = None
    n = len(h)
    for q in range(n):
        a, b = h[q], h[(q + 1) % n]
        sd = (b[0] - a[0]) * (P[:, 1] - a[1]) - (b[1] - a[1]) * (P[:, 0] - a[0])
        reach = int(np.abs(sd).max())
        d = _d2(a, b)
        if d == 0:
            continue
        w = F(reach * reach, d)
        if best is None or w < best[0]:
            best = (w, a, b)
    return best


def _cones(pix, h):
    """Proposed certificate that no enclosing strip in ANY direction is narrower than the narrowest
    edge strip: the critical directions (+/- edge normals, angular order) and, per cone between two
    consecutive ones, the pair of pixels extreme in the cone's middle direction."""
    n = len(h)
    dirs = set()
    for q in range(n):
        a, b = h[q], h[(q + 1) % n]
        m = (-(b[1] - a[1]), b[0] - a[0])
        g = math.gcd(abs(m[0]), abs(m[1]))
        if g == 0:
            continue
        m = (m[0] // g, m[1] // g)
        dirs.add(m)
        dirs.add((-m[0], -m[1]))
    ms = sorted(dirs, key=lambda m: math.atan2(m[1], m[0]))
    P = np.array(pix, dtype=np.int64)
    cert = []
    for k, m in enumerate(ms):
        m2 = ms[(k + 1) % len(ms)]
        mid = (m[0] + m2[0], m[1] + m2[1])
        v = P[:, 0] * mid[0] + P[:, 1] * mid[1]
        cert.append([list(m), [pix[int(np.argmax(v))], pix[int(np.argmin(v))]]])
    return cert


def _check_feret_fill(ctx, cases, outs, res):
    mx_jobs, mn_jobs, fl_jobs, lo_jobs = [], [], [], []
    for k, (case, out) in enumerate(zip(cases, outs)):
        if res[k] is not None or _bad(out):
            continue
        fer = out["feret"]
        objs = _objects(case, out)
        for q, (l, pix, h) in enumerate(objs):
            if not pix:
                continue
            fmin, fmax = fer["min"][q], fer["max"][q]
            if fmin is None or fmax is None:
                res[k] = "feret_diameter: NaN for object %d (label %d)" % (q, l)
                break
            mx_jobs.append((k, q, pix, fmax))
            if len(h) < 2:
                if fmin != 0:
                    res[k] = "feret_diameter: minimum %r for the single-pixel object %d" % (fmin, q)
                    break
                continue
            be = _best_edge(pix, h)
            if be is None:
                res[k] = "convex hull of object %d has coincident vertices: %s" % (q, h)
                break
            w, a, b = be
            if not _close(fmin, math.sqrt(w), TOL_FERET):
                res[k] = ("feret_diameter: object %d (label %d): minimum %r but the narrowest strip resting on a hull "
                          "edge has width %r (edge %s-%s)" % (q, l, fmin, math.sqrt(w), a, b))
                break
            mn_jobs.append((k, q, [pix, h, [a, b], [w.numerator, w.denominator]]))
            lo_jobs.append((k, q, [pix, _cones(pix, h) if w > 0 else [], [w.numerator, w.denominator]]))
        if res[k] is None and out.get("twice_differs"):
            res[k] = "calling %s twice on the same arrays gives two different results" % out["twice_differs"]
        if res[k] is None and out["fill"] != "not-run":
            rows = sorted(out["fill"], key=lambda t: (t[2], t[0], t[1]))
            fl_jobs.append((k, [[[l, h] for (l, _, h) in objs if h], rows]))
    if mx_jobs:
        rs = ctx.run_model("entry_feret_max", [j[2] for j in mx_jobs])
        for (k, q, pix, fmax), r in zip(mx_jobs, rs):
            if res[k] is None and not (isinstance(r, int) and _close(fmax, math.sqrt(r), TOL_FERET)):
                res[k] = ("feret_diameter: object %d: maximum %r but the largest distance between two of its pixels is "
                          "sqrt(%s) = %r" % (q, fmax, r, math.sqrt(r) if isinstance(r, int) else None))
    if mn_jobs:
        rs = ctx.run_model("entry_feret_min_ok", [j[2] for j in mn_jobs])
        for (k, q, a), r in zip(mn_jobs, rs):
            if res[k] is None and r != 1:
                res[k] = ("feret_diameter: object %d: the verified checker feret_min_ok rejects the minimum width^2 %s/%s "
                          "(hull %s)" % (q, a[3][0], a[3][1], a[1]))
    if lo_jobs:
        rs = ctx.run_model("entry_feret_lower_ok", [j[2] for j in lo_jobs])
        for (k, q, a), r in zip(lo_jobs, rs):
            if res[k] is None and r != 1:
                res[k] = ("feret_diameter: object %d: the verified checker feret_lower_ok does not confirm that no enclosing "
                          "pair of parallel lines is closer than sqrt(%s/%s)" % (q, a[2][0], a[2][1]))
    if fl_jobs:
        rs = ctx.run_model("entry_fill_check", [j[1] for j in fl_jobs])
        hy = ctx.run_model("entry_fill_hyp", [j[1][0] for j in fl_jobs])
        for r in hy:
            # hypothesis of theorem C14_fill_spec (distinct labels, convex vertex cycles) on this run's hulls
            ctx.count("fill_spec_hypothesis_holds" if r == 1 else "fill_spec_hypothesis_FAILS(hull from convex_hull not convex)")
        for (k, a), r in zip(fl_jobs, rs):
            if res[k] is None and r != 1:
                res[k] = ("fill_convex_hulls: output is not exactly the lattice points inside or on each hull polygon, "
                          "each once with its label (Spec.FillSpec.fill_ok false); %d rows" % len(a[1]))


C02_WRAP = "F22/C14"


def _case_ijv(case, out):
    """the (i, j, label) rows the hull kernel receives for the requested labels (all pixels of each object)"""
    rows = []
    for l, pix, _ in _objects(case, out):
        rows.extend([p[0], p[1], l] for p in pix)
    return rows


def _wrap_model_says(ctx, ijv, idx, hull, cnt):
    """b02's attribution rule for finding F22 (findings/C02.json): the as-written int32 model of the hull kernel
    (Model/HullW.v convex_hull_ijv_w) reproduces the hull the implementation returned AND the exact model
    (Model/Hull.v) gives a different hull."""
    w = ctx.run_model("entry_hull_ijv_w", [[ijv, idx]])[0]
    e = ctx.run_model("entry_hull_ijv", [[ijv, idx]])[0]
    if not isinstance(w, list) or not isinstance(e, list) or len(w) < 4 or len(e) < 4:
        return False
    return w[0] == hull and w[1] == cnt and (e[0] != hull or e[1] != cnt)


def attribute(ctx, case, out, clause):
    """A failure is attributed to C02's known finding F22 (CONVEX() of _convex_hull.pyx wraps in int32) only by the
    model rule above.  Anything else stays a violation of C14."""
    if _bad(out) or case.get("hull_by") == "harness" or case.get("order", "fwd") != "fwd":
        return None
    # cheap necessary conditions first (the model run costs minutes on wide inputs): some object's returned hull is
    # not its exact hull, and some triple of its pixels spans a doubled area >= 2^31 (only then can CONVEX() wrap)
    import itertools
    suspect = False
    for l, pix, h in _objects(case, out):
        if not pix or sorted(map(tuple, h)) == sorted(map(tuple, _exact_hull(pix))):
            continue
        P = np.array(pix, dtype=np.int64)
        if len(pix) <= 60:
            wide = any(abs((b[0] - a[0]) * (c[1] - a[1]) - (b[1] - a[1]) * (c[0] - a[0])) >= 2 ** 31
                       for a, b, c in itertools.combinations(pix, 3))
        else:
            wide = 2 * int(P[:, 0].max() - P[:, 0].min() + 1) * int(P[:, 1].max() - P[:, 1].min() + 1) >= 2 ** 31
        suspect = suspect or wide
    if not suspect:
        return None
    return C02_WRAP if _wrap_model_says(ctx, _case_ijv(case, out), list(case["indexes"]), out["hull"], out["cnt"]) else None


def reproduce_finding(ctx, finding):
    """F22 seen through C14: on the small-column witness of findings/C02.json (the models walk every column; the
    46 341-column triangle costs minutes) the implementation's hull equals the as-written wrapped model's and differs
    from the exact hull - so what the three functions of C14 receive is not the object's hull."""
    if finding.get("id") != C02_WRAP:
        return False
    w = finding["witness"]
    out = ctx.run_impl([w])[0]
    if _bad(out):
        return False
    return _wrap_model_says(ctx, w["ijv"], list(w["indexes"]), out["hull"], out["cnt"])


def nontrivial(case, out):
    return (not _bad(out)) and any(c >= 3 for c in out["cnt"])


def kernel_crosscheck(ctx, cases, outs):
    idx = [k for k, c in enumerate(cases) if not _bad(outs[k]) and len(c["indexes"]) <= 3
           and "sparse" not in c and "ijv" not in c and outs[k].get("fill") != "not-run"
           and len(c["labels"]) * len(c["labels"][0]) <= 150][:36]
    if not idx:
        return None, 0
    objs = [_objects(cases[k], outs[k]) for k in idx]
    hulls = [[h for (_, _, h) in o] for o in objs]
    fobjs = [[[l, h] for (l, _, h) in o if h] for o in objs]
    for module, entry, args in (("Model.Circle", "entry_chrystal_many", hulls), ("Model.Feret", "entry_sweep_many", hulls),
                                ("Model.HullFill", "entry_fill_model", fobjs)):
        exp = ctx.run_model(entry, args)
        r = ctx.coq_eval_eq(module, entry, args, exp, tag=entry[6:10])
        bad = [k for k, b in zip(idx, r) if b is not True]
        if bad:
            return "vm_compute evaluation of %s.%s differs from the extracted program on case %d" % (module, entry, bad[0]), len(idx)
    return None, len(idx)


def search_cases(ctx, rnd):
    return [_case(ctx, ctx.rng) for _ in range(600)]


def shrink_candidates(case):
    if "ijv" in case:
        rows = case["ijv"]
        for k in range(len(rows)):
            c2 = dict(case)
            c2["ijv"] = rows[:k] + rows[k + 1:]
            c2["indexes"] = [l for l in case["indexes"] if any(r[2] == l for r in c2["ijv"])] or case["indexes"]
            c2["rot"] = case["rot"][:len(c2["indexes"])]
            if c2["ijv"]:
                yield c2
        for key in ("idx_kind", "hdtype", "hlayout"):
            if key in case:
                c2 = dict(case)
                del c2[key]
                yield c2
        return
    if "sparse" in case:
        sp = case["sparse"]
        for key in ("ldtype", "llayout", "idx_kind", "hdtype", "hlayout"):
            if key in case:
                c2 = {k: v for k, v in case.items() if k not in ("ldtype", "llayout", "idx_kind", "hdtype", "hlayout")}
                yield c2
                break
        if case["order"] != "fwd":
            c2 = dict(case)
            c2["order"] = "fwd"
            yield c2
        if len(case["indexes"]) > 1:
            for k in range(len(case["indexes"])):
                c2 = dict(case)
                c2["indexes"] = case["indexes"][:k] + case["indexes"][k + 1:]
                c2["rot"] = case["rot"][:len(c2["indexes"])]
                c2["sparse"] = {"shape": sp["shape"], "pix": [r for r in sp["pix"] if r[2] in c2["indexes"]]}
                yield c2
        for k in range(len(sp["pix"])):
            rest = sp["pix"][:k] + sp["pix"][k + 1:]
            if all(any(r[2] == l for r in rest) for l in case["indexes"]):
                c2 = dict(case)
                c2["sparse"] = {"shape": sp["shape"], "pix": rest}
                yield c2
        return
    lab = np.array(case["labels"], int)
    idx = case["indexes"]
    if any(k in case for k in ("ldtype", "llayout", "idx_kind", "hdtype", "hlayout")):
        yield {"labels": case["labels"], "indexes": idx, "order": case["order"], "rot": case["rot"]}

    def mk(lab2, idx2, order=None):
        c2 = {"labels": lab2.tolist(), "indexes": list(idx2), "order": order or case["order"],
              "rot": case["rot"][:len(idx2)] + [0] * max(0, len(idx2) - len(case["rot"]))}
        for key in ("ldtype", "llayout", "idx_kind", "hdtype", "hlayout"):
            if key in case:
                c2[key] = case[key]
        return c2
    if len(idx) > 1:
        h = len(idx) // 2
        yield mk(lab, idx[:h])
        yield mk(lab, idx[h:])
        for k in range(len(idx)):
            yield mk(lab, idx[:k] + idx[k + 1:])
    if case["order"] != "fwd":
        yield mk(lab, idx, "fwd")
    # crop to the requested labels
    keep = np.isin(lab, idx)
    if (lab[~keep] != 0).any():
        yield mk(np.where(keep, lab, 0), idx)
    ii, jj = np.nonzero(lab)
    if len(ii):
        i0, i1, j0, j1 = ii.min(), ii.max() + 1, jj.min(), jj.max() + 1
        if (i0, j0) != (0, 0) or (i1, j1) != lab.shape:
            yield mk(lab[i0:i1, j0:j1], idx)
    if lab.shape[0] > 1:
        yield mk(lab[1:], idx)
        yield mk(lab[:-1], idx)
    if lab.shape[1] > 1:
        yield mk(lab[:, 1:], idx)
        yield mk(lab[:, :-1], idx)
    pts = np.argwhere(lab > 0)
    for p in pts[:40]:
        l2 = lab.copy()
        l2[p[0], p[1]] = 0
        if all((l2 == l).any() for l in idx if (lab == l).any()):
            yield mk(l2, idx)


MANIFEST = {
    "level_text": (
        "Machine-checked proofs (Coq 8.16, closed under the global context) of the soundness of exact checkers that are "
        "extracted and run on the implementation's own output for every object of every generated call: mec_ok (a circle "
        "through two diametral pixels or three pixels of a non-obtuse triangle, containing all pixels, IS the minimum "
        "enclosing circle, and it is unique), max_d2 (largest pairwise squared distance), feret_min_ok + feret_lower_ok (the "
        "reported minimum width is the width of an enclosing strip and no enclosing strip in any rational direction is "
        "narrower - cone certificates), fill_ok (rows are exactly the lattice points inside or on each polygon, each once, "
        "right label). Executable exact-arithmetic Gallina models of the three functions as written (Chrystal iteration, "
        "antipodal sweep with the min construction, scan-line fill) are compared with the implementation on complete "
        "outputs (fill: exact; circle 1e-7, Feret 1e-9 against exact rationals) and cross-checked extraction vs vm_compute; "
        "about the Chrystal model it is proved for all inputs that its result is never larger than any enclosing circle."),
    "level_note": (
        "Not proved: that Chrystal's iteration always ends in an enclosing circle (checked per run by mec_ok on the output), "
        "that the antipodal sweep equals brute force, and that the scan-line model equals the specified set (edge- and "
        "run-level exactness lemmas are proved; per run the implementation's output passes the verified fill_ok). Float "
        "decisions (arccos, division, sqrt) are modelled by exact predicates. The certificates are proposed by unverified "
        "Python and accepted only by the verified checkers. Trusted: Coq kernel + vm_compute, extraction (ExtrOcamlBasic), "
        "the S-expression driver, the Python harness, convex_hull (C02) as supplier of the hull rows."),
    "technique": "Coq-verified certificate checkers on implementation output + exact executable models + differential correspondence",
    "design_ref": "DESIGN.md section 7, C14",
}
