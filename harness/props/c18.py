"""C18 - ranking and ragged-index helpers are exact (rank_order, median_of_labels, mode, Indexes,
pairwise_permutations)."""
import json
import os
import numpy as np

ID = "C18"
PROPS_FILE = "theories/Props/C18.v"
EXTRACT = ("theories/Extract/XC18.v", "c18", [
    "entry_rank", "entry_rank_bins", "entry_rank_bins_stable", "entry_median", "entry_mode", "entry_indexes",
    "entry_pairs", "entry_check_rank", "entry_check_bins", "entry_median_ref", "entry_check_mode",
    "entry_indexes_ref", "entry_pairs_ref", "entry_pairs_all", "entry_all_pairs", "entry_all_pairs_ref"])
PYX = {}
RULE = ("corpus/C18 first (F5 witness, the narrow-signed-dtype wrap class, single element, 0-d, nbins=1, zero-count objects, "
        "singleton groups); then exhaustive families in BOTH tiers: every array of length <= 4 (thorough 5) over {0,1,2} and "
        "every array of length <= 3 (4) over {min, mid, max} of every integer dtype / {F,T} / {-inf,-0.0,+0.0,max float,...} "
        "of float32/float64 through rank_order (nbins None,1,2) and mode; every 2x2 count matrix over {0,1,2}; every two-group "
        "layout of <= 4 (5) members; every label image of length <= 4 (5) over {1,2} with an absent requested label; "
        "all_pairs(n) for every n <= 12 (40).  Then quick 4000 / thorough 100000 random cases: EVERY array argument carries "
        "its dtype (bool, int8/16/32/64, uint8/16/32, float32/64; the first 400 cases of each function cycle through all of "
        "them) and its memory layout (C, Fortran, strided view, negative stride, transposed copy); values are drawn from "
        "pools containing iinfo.min/max, min/2, max/2+1, +-0.0, smallest subnormal, smallest normal, largest finite and "
        "(rank_order, mode, pairwise members) +-inf, plus small tie-rich and uniformly wide classes, so spans above half the "
        "dtype range occur in every class.  The model sees exact integers: integer values as they are, floats as "
        "order-preserving integer codes of their bit patterns, median images as integer multiples of 2^q (q from 0 down to "
        "the subnormal floor and up to 2^1000).  rank_order: shapes 0-d/1-D/2-D/3-D, nbins None or 1..300 (np.argsort of "
        "the histogram recorded by a proxy and replayed into the model, which re-checks each order against ITS histogram); "
        "median_of_labels: label arrays of every integer dtype incl. a label at the dtype's maximum, request list as list "
        "or ndarray of any integer dtype, WITH repeats (adjacent, apart, repeated absent label, all the same; plus every request list of length <= 3 over {1,2,3} on every label image of length <= 3), absent labels first/middle/last; Indexes: counts of every dtype "
        "(8-bit maxima on one axis); pairwise_permutations: group labels of every integer dtype clustered at 0, at "
        "iinfo.min, at iinfo.max, or (8/16-bit) spanning the full range, plus MANY-GROUP layouts: 100..256 distinct "
        "int8/uint8/int16/uint16 labels (negative ones included), mostly singletons, multi-member groups preceded by "
        "more singleton groups than the dtype's positive range (every g in 120..135 exhaustively), and two 16-bit "
        "layouts with 32769 / 65535 groups before the first pair.  Non-trivial: rank = a tie and two distinct values "
        "(with nbins: the loop ran); median = an absent label and an even-count label; mode = a tie for the maximum or >= 3 "
        "distinct values; Indexes = a zero-count object and >= 2 axes; pairs = a group of >= 3, or > 128 groups and a pair; all_pairs = n >= 3.")
TRUSTED = [
    "modelled, not verified: NumPy primitives as list functions (fancy-index scatter with last write wins, boolean "
    "compaction, cumsum, bincount, lexsort = stable sort on (key1,key2,position), unique), float arithmetic on "
    "grid values being exact (see ASSUMPTIONS), "
    "scipy.sparse coo->csc lookup as a keyed sum",
    "np.argsort(hist) inside rank_order is observed through a module proxy (centrosome.rankorder.np) and replayed",
]
ASSUMPTIONS = [
    "rank_order: non-empty image without NaN; PRECONDITION nbins >= 1 (the postcondition 'at most nbins levels' is "
    "unsatisfiable for nbins <= 0 and the code then loops forever; ruled outside the property)",
    "median_of_labels: labels non-negative integers (a negative entry of the label image silently aliases the table "
    "entry of another label), requested indices non-negative integers <= 65535 (tables of that size are allocated), "
    "request list ARBITRARY (repeats allowed), labels non-empty, image and labels of equal shape; image values finite, "
    "integer values |v| <= 2^52, float values on a common grid h*2^q with |h| < 2^21 so that a+b and (a+b)/2 are exact "
    "(at the smallest subnormal quantum: even h) - otherwise the result is the float rounding of the median",
    "Indexes: counts is a rectangular N x M array of non-negative integral values, N >= 1",
    "pairwise_permutations: integer group labels of any of int8..int64/uint8..uint32 (uint64 ruled outside: NumPy "
    "promotion) with max-min < 2^16 (wider spans are a resource question: the never-read table i_to_r; ruled outside); "
    "member ids are indices: float members with only singleton groups (IndexError) ruled outside; both excluded "
    "classes are counted.  Layouts with more than 256 groups of 16-bit labels are judged by a Python oracle only",
    "float values travel as order-preserving integer codes; -0.0 and +0.0 are the same value",
]
EXHAUSTIVE = {"quick": False, "thorough": False}
CASE_TIMEOUT = 30
_HERE = os.path.dirname(os.path.dirname(os.path.dirname(os.path.abspath(__file__))))


# ------------------------------------------------------------------------------ dtypes and exact value coding
# Every case carries the dtype of every array argument.  Integer/bool values travel as Python ints.  Float values
# travel as ORDER-PRESERVING INTEGER CODES of their IEEE bit pattern (code = magnitude bits, negated when the sign
# bit is set; +0.0 and -0.0 both have code 0, as they compare equal; -0.0 is requested through the index list "nz"),
# so the Coq model sees exact integers whose order is the order of the floats.  median_of_labels needs arithmetic,
# so its image is h * 2^q with integer h ("h", "q"): exact in the dtype, sums exact in float64.

INT_DTYPES = ["int8", "int16", "int32", "int64", "uint8", "uint16", "uint32"]
FLOAT_DTYPES = ["float32", "float64"]
ALL_DTYPES = ["bool"] + INT_DTYPES + FLOAT_DTYPES
_FW = {"float32": (32, np.uint32, 0x7F800000), "float64": (64, np.uint64, 0x7FF0000000000000)}
LAYOUTS = ["C", "C", "F", "strided", "rev", "T"]


def _decode(dtype, vals, nz=()):
    if dtype in _FW:
        w, ut, _ = _FW[dtype]
        sign = 1 << (w - 1)
        bits = [c if c >= 0 else ((-c) | sign) for c in vals]
        for k in nz:
            bits[k] = sign
        return np.array(bits, dtype=ut).view(dtype)
    return np.array(vals, dtype=dtype)


def _encode(arr):
    """array -> list of exact integers (codes for floats); None when a NaN is present"""
    arr = np.ascontiguousarray(arr).ravel()
    dt = arr.dtype.name
    if dt in _FW:
        w, ut, inf = _FW[dt]
        bits = arr.view(ut)
        res = []
        for b in bits.tolist():
            mag = b & ((1 << (w - 1)) - 1)
            if mag > inf:
                return None
            res.append(-mag if (b >> (w - 1)) else mag)
        return res
    return [int(x) for x in arr.tolist()]


def _layout(a, kind):
    """an array equal to a whose memory layout is of the given kind"""
    if a.ndim == 0 or kind == "C":
        return np.ascontiguousarray(a)
    if kind == "F":
        return np.asfortranarray(a)
    if kind == "T":
        return a.T.copy().T
    if kind == "rev":
        return a[::-1].copy()[::-1]
    big = np.zeros(tuple(2 * s + 1 for s in a.shape), a.dtype)
    view = big[tuple(slice(1, None, 2) for _ in a.shape)]
    view[...] = a
    return view


def _float_codes(dtype, xs):
    return _encode(np.array(xs, dtype=dtype))


def _pool(dtype, allow_inf=True):
    if dtype == "bool":
        return [0, 1]
    if dtype in _FW:
        w, ut, inf = _FW[dtype]
        tiny = 1 << (23 if w == 32 else 52)
        one = _float_codes(dtype, [1.0])[0]
        p = [0, 1, -1, 2, tiny, -tiny, tiny - 1, one, -one, inf - 1, -(inf - 1), inf - 2]
        if allow_inf:
            p += [inf, -inf]
        return p
    ii = np.iinfo(dtype)
    p = {ii.min, ii.min + 1, ii.min // 2, ii.min // 2 - 1, -1, 0, 1, 2, ii.max // 2, ii.max // 2 + 1, ii.max - 1, ii.max,
         -100, 100, 90}
    return sorted(x for x in p if ii.min <= x <= ii.max)


def _gen_vals(rng, dtype, n, allow_inf=True):
    """(vals, nz): n exact values of the dtype incl. its extremes, spans > half the range, ties"""
    if dtype == "bool":
        return rng.randint(0, 2, n).tolist(), []
    pool = _pool(dtype, allow_inf)
    kind = rng.choice(["small", "extreme", "extreme", "mixed", "wide", "const", "two"])
    if dtype in _FW:
        w, ut, inf = _FW[dtype]
        small = _float_codes(dtype, [-3, -2, -1, -0.5, 0, 0.5, 1, 2, 3, 7])
        top = inf if allow_inf else inf - 1
        if kind == "small":
            vals = [int(rng.choice(small)) for _ in range(n)]
        elif kind == "extreme":
            vals = [pool[rng.randint(len(pool))] for _ in range(n)]
        elif kind == "mixed":
            vals = [pool[rng.randint(len(pool))] if rng.rand() < 0.5 else int(rng.choice(small)) for _ in range(n)]
        elif kind == "wide":
            vals = [int(rng.randint(0, 1 << 30)) * (top >> 30) + int(rng.randint(0, 1 << 20)) for _ in range(n)]
            vals = [min(v, top) * (1 if rng.rand() < 0.5 else -1) for v in vals]
        elif kind == "const":
            vals = [pool[rng.randint(len(pool))]] * n
        else:
            a, b = pool[rng.randint(len(pool))], pool[rng.randint(len(pool))]
            vals = [a if rng.rand() < 0.5 else b for _ in range(n)]
        nz = [k for k, v in enumerate(vals) if v == 0 and rng.rand() < 0.5]
        return vals, nz
    ii = np.iinfo(dtype)
    lo, hi = int(ii.min), int(ii.max)
    if kind == "small":
        k = int(rng.choice([2, 3, 5, 10]))
        vals = [int(rng.randint(max(lo, -k), k)) for _ in range(n)]
    elif kind == "extreme":
        vals = [pool[rng.randint(len(pool))] for _ in range(n)]
    elif kind == "mixed":
        vals = [pool[rng.randint(len(pool))] if rng.rand() < 0.5 else int(rng.randint(max(lo, -5), 6)) for _ in range(n)]
    elif kind == "wide":
        vals = [lo + (int(rng.randint(0, 1 << 31)) * (1 << 33) + int(rng.randint(0, 1 << 31))) % (hi - lo + 1) for _ in range(n)]
    elif kind == "const":
        vals = [pool[rng.randint(len(pool))]] * n
    else:
        a, b = (lo, hi) if rng.rand() < 0.5 else (pool[rng.randint(len(pool))], pool[rng.randint(len(pool))])
        vals = [a if rng.rand() < 0.5 else b for _ in range(n)]
    return vals, []


def _shape_for(rng, n, allow0d=True):
    u = rng.rand()
    if n == 1 and allow0d and u < 0.15:
        return []
    if n > 1 and u < 0.3:
        d = [k for k in range(1, n + 1) if n % k == 0]
        h = int(rng.choice(d))
        return [h, n // h]
    if n > 3 and u < 0.4:
        d = [k for k in range(1, n + 1) if n % k == 0]
        a = int(rng.choice(d))
        e = [k for k in range(1, n // a + 1) if (n // a) % k == 0]
        b = int(rng.choice(e))
        return [a, b, n // a // b]
    return None


def _build(dtype, vals, nz, shape, layout):
    a = _decode(dtype, vals, nz)
    if shape is not None:
        a = a.reshape(shape)
    return _layout(a, layout)


# ------------------------------------------------------------------------------ generation

def _gen_rank(ctx, rng, dtype=None):
    n = int(rng.choice([1, 1, 2, 2, 3, 4, 5, 6, 8, 13, 20, 40, 60, 100, 150]))
    dtype = dtype or str(rng.choice(ALL_DTYPES))
    vals, nz = _gen_vals(rng, dtype, n)
    nb = None
    u = rng.rand()
    nd = len(set(vals))
    if u < 0.25:
        nb = int(rng.randint(1, 6))
    elif u < 0.45:
        nb = max(1, nd + int(rng.randint(-3, 3)))
    elif u < 0.60:
        nb = int(rng.randint(1, 301))
    return {"fn": "rank", "dtype": dtype, "vals": vals, "nz": nz, "shape": _shape_for(rng, n),
            "layout": str(rng.choice(LAYOUTS)), "nbins": nb}


_MEDQ = {"float32": [0, -3, -149, -140, 100], "float64": [0, -3, -1074, -1060, 1000]}
_LABMAX = {"int8": 127, "uint8": 255, "int16": 32767, "uint16": 65535, "int32": 40000, "int64": 40000, "uint32": 40000}


def _gen_median(ctx, rng, dtype=None):
    n = int(rng.choice([1, 2, 3, 4, 6, 10, 20, 40, 80]))
    nl = int(rng.choice([1, 2, 3, 5, 8]))
    dtype = dtype or str(rng.choice(ALL_DTYPES))
    ldtype = str(rng.choice(INT_DTYPES))
    labels = rng.randint(0, nl + 1, n)
    if rng.rand() < 0.3:
        labels = np.sort(labels)
    if rng.rand() < 0.3:           # drop one label entirely
        drop = int(rng.randint(0, nl + 1))
        labels = np.where(labels == drop, (drop + 1) % (nl + 1), labels)
    labels = labels.tolist()
    big = None
    if rng.rand() < 0.04:          # a label at the label dtype's extreme (tables of that size are allocated)
        big = _LABMAX[ldtype]
        labels[int(rng.randint(n))] = big
    q = 0
    if dtype in _FW:
        q = int(rng.choice(_MEDQ[dtype]))
        kind = rng.choice(["small", "wide", "const"])
        if kind == "small":
            h = rng.randint(-6, 7, n).tolist()
        elif kind == "wide":
            h = rng.randint(-(1 << 20) + 1, 1 << 20, n).tolist()
        else:
            h = [int(rng.randint(-5, 6))] * n
        if q == min(_MEDQ[dtype]):
            # at the smallest subnormal quantum the half of an odd sum is not a float: even multipliers only
            h = [2 * v for v in h]
    else:
        h, _ = _gen_vals(rng, dtype, n)
        if dtype == "int64":
            capped = [max(-(1 << 52), min(1 << 52, v)) for v in h]
            if capped != h:
                ctx.count("excluded:median int64 beyond 2^52 (not a float64)")
            h = capped
    pool = list(range(0, nl + 4))
    rng.shuffle(pool)
    k = int(rng.randint(0, len(pool) + 1))
    if rng.rand() < 0.05:
        k = 0
    idx = pool[:k]
    u = rng.rand()
    if u < 0.3:
        idx = sorted(idx)
    elif u < 0.4 and idx:
        idx = sorted(idx) + [nl + 5]            # trailing absent label (F5 class)
    elif u < 0.5 and idx:
        idx = [nl + 6] + idx                    # leading absent label
    if big is not None and rng.rand() < 0.7:
        idx = idx + [big]
    if idx and rng.rand() < 0.35:
        # "all requested label lists": a label may be requested more than once
        kind = rng.choice(["adjacent", "apart", "absent", "many", "all-same"])
        if kind == "adjacent":
            k = int(rng.randint(len(idx))); idx = idx[:k + 1] + [idx[k]] + idx[k + 1:]
        elif kind == "apart":
            idx = idx + [idx[int(rng.randint(len(idx)))]]
            if rng.rand() < 0.5:
                idx = [idx[-1]] + idx
        elif kind == "absent":
            a = nl + 7
            k = int(rng.randint(len(idx) + 1)); idx = idx[:k] + [a] + idx[k:] + [a]
        elif kind == "many":
            idx = [idx[int(rng.randint(len(idx)))] for _ in range(len(idx) + 3)]
        else:
            idx = [idx[0]] * int(rng.randint(2, 5))
        ctx.count("median:repeated request (" + kind + ")")
    coded, nz = False, []
    if dtype in _FW and rng.rand() < 0.3:
        # "selection" class: arbitrary floats of the dtype (extremes, subnormals, +-inf, +-0.0) as order-preserving
        # codes; every requested label gets an odd pixel count, so its median is a copy of a pixel (no arithmetic)
        coded, q = True, 0
        h, nz = _gen_vals(rng, dtype, n)
        spare = nl + 9
        for l in set(idx):
            if l != spare and labels.count(l) % 2 == 0 and labels.count(l) > 0:
                labels[labels.index(l)] = spare
    shape = _shape_for(rng, n, allow0d=False)
    return {"fn": "median", "dtype": dtype, "h": [int(v) for v in h], "q": q, "coded": coded, "nz": nz, "ldtype": ldtype, "labels": labels,
            "indices": [int(x) for x in idx], "shape": shape, "layout": str(rng.choice(LAYOUTS)),
            "llayout": str(rng.choice(LAYOUTS)),
            "xdtype": (str(rng.choice([d for d in INT_DTYPES if max(idx + [0]) <= _LABMAX[d]])) if rng.rand() < 0.4 else None)}


def _gen_mode(ctx, rng, dtype=None):
    n = int(rng.choice([0, 1, 2, 3, 5, 8, 13, 25, 40]))
    dtype = dtype or str(rng.choice(ALL_DTYPES))
    vals, nz = _gen_vals(rng, dtype, n)
    aslist = bool(dtype == "int64" and rng.rand() < 0.3)
    shape = _shape_for(rng, n) if n else [None, [0], [0, 3], [2, 0]][rng.randint(4)]
    return {"fn": "mode", "dtype": dtype, "vals": vals, "nz": nz, "shape": shape,
            "layout": str(rng.choice(LAYOUTS)), "aslist": aslist}


def _gen_indexes(ctx, rng, dtype=None):
    nd = int(rng.choice([1, 1, 2, 2, 3, 4]))
    m = int(rng.choice([0, 1, 2, 3, 4, 5, 7]))
    dtype = dtype or str(rng.choice(ALL_DTYPES))
    hi = 2 if dtype == "bool" else int(rng.choice([2, 3, 4, 5]))
    counts = rng.randint(0, hi, (nd, m))
    if rng.rand() < 0.2:
        counts = np.maximum(counts, 1)
    if rng.rand() < 0.1 and m:
        counts[rng.randint(nd)] = 0
    if dtype in ("int8", "uint8") and nd == 1 and m and rng.rand() < 0.3:
        counts[0, rng.randint(m)] = np.iinfo(dtype).max      # the count dtype's extreme (one axis: 127/255 rows)
    oned = bool(nd == 1 and rng.rand() < 0.5)
    return {"fn": "indexes", "dtype": dtype, "counts": counts.tolist(), "oned": oned, "layout": str(rng.choice(LAYOUTS))}


def _many_groups(rng, idtype, ngroups, big=False):
    """group labels of a narrow dtype with MANY groups: `ngroups` distinct labels (negative ones included for signed
    dtypes), most of them singletons, a few groups of 2-3 members placed so that at least one multi-member group is
    preceded (in label order) by a long run of singleton groups - longer than the dtype's positive range when
    ngroups allows - and the rows shuffled.  Returns (i, j) with j a permutation of 0..n-1."""
    ii = np.iinfo(idtype)
    lo, hi = int(ii.min), int(ii.max)
    span = hi - lo + 1
    ngroups = min(ngroups, span)
    start = lo if rng.rand() < 0.7 else int(rng.randint(lo, hi - ngroups + 2))
    labs = list(range(start, start + ngroups))
    multi = {ngroups - 1 - int(rng.randint(0, min(3, ngroups)))}
    if rng.rand() < 0.5:
        multi.add(int(rng.randint(0, ngroups)))
    if rng.rand() < 0.3:
        multi.add(0)
    i = []
    for q, l in enumerate(labs):
        i += [l] * (int(rng.randint(2, 4)) if q in multi else 1)
    perm = rng.permutation(len(i))
    i = [i[q] for q in perm]
    return i, [int(x) for x in rng.permutation(len(i))]


def _gen_pairs_many(ctx, rng):
    idtype = str(rng.choice(["int8", "int8", "uint8", "int16", "uint16", "int32"]))
    ng = int(rng.choice([100, 127, 128, 129, 130, 131, 160, 200, 255, 256]))
    i, j = _many_groups(rng, idtype, ng)
    ctx.count("pairs:many-groups")
    return {"fn": "pairs", "idtype": idtype, "i": i, "jdtype": "int64", "j": j, "jnz": [],
            "layout": str(rng.choice(["C", "strided", "rev"]))}


def _gen_pairs(ctx, rng, dtype=None):
    if dtype is None and rng.rand() < 0.06:
        return _gen_pairs_many(ctx, rng)
    n = int(rng.choice([0, 1, 2, 3, 4, 6, 9, 14, 22]))
    idtype = str(rng.choice(INT_DTYPES))
    jdtype = dtype or str(rng.choice(ALL_DTYPES))
    ii = np.iinfo(idtype)
    lo, hi = int(ii.min), int(ii.max)
    k = int(rng.choice([1, 2, 3, 6]))
    where = rng.choice(["zero", "zero", "hi", "lo", "full"])
    if where == "full" and ii.bits > 16:
        # the code allocates (and never reads) a table of max(i)-min(i)+1 entries: spans above 2^16 are excluded
        ctx.count("excluded:pairs group-label span > 2^16 (resource: dead i_to_r table; ruled outside)")
        where = "hi"
    if where == "zero":
        base = max(lo, -3 if rng.rand() < 0.3 else 0)
        i = [base + int(rng.randint(0, k + 1)) for _ in range(n)]
    elif where == "hi":
        i = [hi - int(rng.randint(0, k + 1)) for _ in range(n)]
    elif where == "lo":
        i = [lo + int(rng.randint(0, k + 1)) for _ in range(n)]
    else:
        ch = [lo, hi, lo + 1, hi - 1, 0]
        i = [ch[rng.randint(len(ch))] for _ in range(n)]
    if rng.rand() < 0.5 and jdtype not in ("bool",):
        pool = _pool(jdtype)
        j = [pool[rng.randint(len(pool))] for _ in range(n)]
        jnz = [q for q, v in enumerate(j) if v == 0 and jdtype in _FW and rng.rand() < 0.5]
    else:
        j, jnz = _gen_vals(rng, jdtype, n)
    if jdtype in _FW and n >= 1 and len(set(i)) == n:
        # float members + only singleton groups raise IndexError: ruled outside (member ids are indices)
        ctx.count("excluded:pairs float members with only singleton groups (ruled outside)")
        if n >= 2:
            i[1] = i[0]
        else:
            jdtype, j, jnz = "int64", [int(rng.randint(-5, 6))], []
    return {"fn": "pairs", "idtype": idtype, "i": i, "jdtype": jdtype, "j": j, "jnz": jnz,
            "layout": str(rng.choice(["C", "strided", "rev"]))}


_GENS = [("rank", _gen_rank, 0.36), ("median", _gen_median, 0.24), ("mode", _gen_mode, 0.12),
         ("indexes", _gen_indexes, 0.14), ("pairs", _gen_pairs, 0.14)]


def _corpus():
    d = os.path.join(_HERE, "corpus", "C18")
    cases = []
    if os.path.isdir(d):
        for name in sorted(os.listdir(d)):
            if name.endswith(".json"):
                with open(os.path.join(d, name)) as f:
                    cases.extend(json.load(f))
    return cases


def _exhaustive(ctx):
    """small exhaustive families; the quick tier runs the cheaper half"""
    import itertools
    cases = []
    quick = ctx.quick()

    def rank_mode(dtype, a, nz=()):
        for nb in (None, 1, 2):
            cases.append({"fn": "rank", "dtype": dtype, "vals": list(a), "nz": list(nz), "shape": None, "layout": "C",
                          "nbins": nb})
        cases.append({"fn": "mode", "dtype": dtype, "vals": list(a), "nz": list(nz), "shape": None, "layout": "C",
                      "aslist": False})
    # every array of length <= 4 (5) over {0,1,2}
    for n in range(1, 5 if quick else 6):
        for a in itertools.product(range(3), repeat=n):
            rank_mode("int64", a)
    # every array of length <= 3 (4) over {min, mid, max} of every integer dtype, {F,T} for bool,
    # {-inf, -max, -0.0, +0.0, min subnormal, max, inf} (quick: 4 of them) for the float dtypes
    for dt in ALL_DTYPES:
        if dt == "bool":
            alpha = [(0, False), (1, False)]
        elif dt in _FW:
            inf = _FW[dt][2]
            alpha = [(-inf, False), (0, True), (0, False), (inf - 1, False)]
            if not quick:
                alpha += [(-(inf - 1), False), (1, False), (inf, False)]
        else:
            ii = np.iinfo(dt)
            alpha = [(int(ii.min), False), (int(ii.min) // 2 + int(ii.max) // 2 + 1, False), (int(ii.max), False)]
        for n in range(1, 4 if (quick or dt in _FW) else 5):
            for a in itertools.product(alpha, repeat=n):
                rank_mode(dt, [x[0] for x in a], [k for k, x in enumerate(a) if x[1]])
    # every 2x2 count matrix over {0,1,2}
    for c in itertools.product(range(3), repeat=4):
        cases.append({"fn": "indexes", "dtype": "int64", "counts": [[c[0], c[1]], [c[2], c[3]]], "oned": False,
                      "layout": "C"})
    # every layout of <= 4 (5) members in two groups
    for n in range(0, 5 if quick else 6):
        for i in itertools.product(range(2), repeat=n):
            cases.append({"fn": "pairs", "idtype": "int64", "i": list(i), "jdtype": "int64",
                          "j": list(range(10, 10 + n)), "jnz": [], "layout": "C"})
    # every label image of length <= 4 (5) over {1,2} with two request lists containing an absent label
    for n in range(1, 5 if quick else 6):
        for lab in itertools.product((1, 2), repeat=n):
            for idx in ([1, 2, 3], [3, 2, 1]):
                cases.append({"fn": "median", "dtype": "float64", "h": [3 * k * k - 7 * k for k in range(n)], "q": -3,
                              "ldtype": "int64", "labels": list(lab), "indices": idx, "shape": None, "layout": "C",
                              "llayout": "C"})
    # every label image of length <= 3 over {1,2} x every request list of length <= 3 over {1,2,3} (repeats!)
    for n in range(1, 4):
        for lab in itertools.product((1, 2), repeat=n):
            for m in range(1, 4):
                for idx in itertools.product((1, 2, 3), repeat=m):
                    if len(set(idx)) < len(idx):
                        cases.append({"fn": "median", "dtype": "float64", "h": [5 * k * k - 9 * k for k in range(n)],
                                      "q": -2, "ldtype": "int64", "labels": list(lab), "indices": list(idx),
                                      "shape": None, "layout": "C", "llayout": "C"})
    # int8 / uint8 group labels: g singleton groups (labels from iinfo.min up) then one pair, for every g around
    # the dtype's positive range (the rank gap in front of the first pair is g)
    for dt in ("int8", "uint8", "int16"):
        lo = int(np.iinfo(dt).min)
        for g in ([1, 2, 126, 127, 128, 129, 130, 200, 254, 255] if quick else list(range(120, 136)) + [1, 2, 64, 200, 250, 254, 255]):
            i = [lo + q for q in range(g)] + [lo + g, lo + g]
            cases.append({"fn": "pairs", "idtype": dt, "i": i, "jdtype": "int64", "j": list(range(len(i))), "jnz": [],
                          "layout": "C"})
    # index.all_pairs(n) for every n up to 12 (40), n given as int / numpy integer
    for n in range(0, 13 if quick else 41):
        cases.append({"fn": "allpairs", "n": n, "ntype": ["int", "int64", "uint8", "int32"][n % 4]})
    for c in cases:
        ctx.count("exhaustive-family cases")
    return cases


def _big_pairs(ctx):
    """16-bit group labels with more groups than int16's positive range before the first pair: far beyond what the
    unary-nat Coq model can run, so these two layouts are judged by a direct Python oracle only (flag "big")"""
    res = []
    for dt, g in (("int16", 32769), ("uint16", 65535)):
        lo = int(np.iinfo(dt).min)
        i = [lo + q for q in range(g)] + [lo + g, lo + g]
        res.append({"fn": "pairs", "idtype": dt, "i": i, "jdtype": "int64", "j": list(range(len(i))), "jnz": [],
                    "layout": "C", "big": True})
        ctx.count("pairs:big 16-bit layouts (Python oracle only)")
    return res


def generate(ctx):
    rng = ctx.rng
    cases = _corpus() + _exhaustive(ctx)
    total = ctx.n(4000, 100000)
    for name, g, frac in _GENS:
        k = int(total * frac)
        for t in range(k):
            # the first cases of every function walk through every dtype it accepts
            dt = ALL_DTYPES[t % len(ALL_DTYPES)] if t < 40 * len(ALL_DTYPES) else None
            cases.append(g(ctx, rng, dt))
    cases += _big_pairs(ctx)
    for c in cases:
        ctx.count(c["fn"])
        ctx.count("dtype:" + c.get("dtype", c.get("jdtype", c.get("ntype", "?"))))
        if "layout" in c:
            ctx.count("layout:" + c["layout"])
        if c["fn"] == "rank":
            ctx.count("rank:nbins" if c["nbins"] is not None else "rank:plain")
    return cases


# ------------------------------------------------------------------------------ implementation

class _NPProxy(object):
    """stands in for the module global `np` of centrosome.rankorder: records np.argsort calls"""

    def __init__(self):
        self.orders = []

    def __getattr__(self, k):
        return getattr(np, k)

    def argsort(self, a, *args, **kw):
        r = np.argsort(a, *args, **kw)
        self.orders.append([np.asarray(a).tolist(), np.asarray(r).tolist()])
        return r


def _median_image(case):
    dt = case["dtype"]
    if case.get("coded"):
        return _decode(dt, case["h"], case.get("nz", []))
    h = np.array(case["h"], dtype=np.int64)
    if dt in _FW:
        x = np.ldexp(h.astype(np.float64), case["q"])
        a = x.astype(dt)
        assert np.array_equal(a.astype(np.float64), x) and np.isfinite(x).all(), "generator: value not exact in dtype"
        return a
    return np.array(case["h"], dtype=dt)


def impl(case):
    fn = case["fn"]
    if fn == "rank":
        from centrosome import rankorder
        a = _build(case["dtype"], case["vals"], case["nz"], case["shape"], case["layout"])
        keep = a.copy()
        proxy = _NPProxy()
        old = rankorder.np
        rankorder.np = proxy
        try:
            r, v = rankorder.rank_order(a, case["nbins"]) if case["nbins"] is not None else rankorder.rank_order(a)
        finally:
            rankorder.np = old
        r = np.asarray(r)
        return {"r": [int(x) for x in np.ascontiguousarray(r).ravel().tolist()], "v": _encode(v),
                "shape_ok": bool(r.shape == a.shape), "vdtype_ok": bool(np.asarray(v).dtype == a.dtype),
                "unchanged": bool(keep.tobytes() == np.ascontiguousarray(a).tobytes()),
                "orders": [o[1] for o in proxy.orders], "hists": [o[0] for o in proxy.orders]}
    if fn == "median":
        from centrosome.cpmorphology import median_of_labels
        img = _median_image(case)
        lab = np.array(case["labels"], dtype=case["ldtype"])
        if case["shape"] is not None:
            img = img.reshape(case["shape"]); lab = lab.reshape(case["shape"])
        img = _layout(img, case["layout"]); lab = _layout(lab, case["llayout"])
        req = list(case["indices"])
        if case.get("xdtype"):
            req = np.array(req, dtype=case["xdtype"])       # the request list as an ndarray of that dtype
        m = np.asarray(median_of_labels(img, lab, req), dtype=np.float64)
        res = []
        for x in m.ravel().tolist():
            if x != x:
                res.append([])
            elif case.get("coded"):
                back = np.array([x], dtype=np.float64).astype(case["dtype"])
                if float(back[0]) != x:
                    return {"nonint": x}
                res.append([2 * _encode(back)[0]])
            else:
                y = float(np.ldexp(np.float64(x), 1 - case["q"]))
                if y != int(y):
                    return {"nonint": x}
                res.append([int(y)])
        return {"m": res, "n": int(m.size)}
    if fn == "mode":
        from centrosome.mode import mode
        a = _build(case["dtype"], case["vals"], case["nz"], case["shape"], case["layout"])
        if case["aslist"]:
            a = a.tolist()
        m = mode(a)
        return {"m": _encode(m), "dtype_ok": bool(case["aslist"] or np.asarray(m).dtype == np.asarray(a).dtype)}
    if fn == "indexes":
        from centrosome.index import Indexes
        nd = len(case["counts"])
        c = np.array(case["counts"], dtype=np.int64)
        if c.ndim != 2:
            c = c.reshape(nd, 0)
        c = _layout(c.astype(case["dtype"]), case["layout"])
        ix = Indexes(c[0] if case["oned"] else c)
        idx = np.asarray(ix.idx)
        return {"length": int(ix.length), "fwd": np.asarray(ix.fwd_idx).astype(np.int64).tolist(),
                "rev": np.asarray(ix.rev_idx).astype(np.int64).tolist(),
                "idx": [[int(v) for v in row] for row in idx.tolist()],
                "idx_integral": bool(np.array_equal(idx, np.asarray(idx).astype(np.int64))),
                "counts_ok": bool(np.array_equal(ix.counts, np.atleast_2d(c).astype(np.int64)))}
    if fn == "allpairs":
        from centrosome.index import all_pairs
        n = case["n"] if case["ntype"] == "int" else getattr(np, case["ntype"])(case["n"])
        r = np.asarray(all_pairs(n))
        return {"p": [[int(a), int(b)] for a, b in r.reshape(-1, 2).tolist()], "shape": list(r.shape)}
    if fn == "pairs":
        from centrosome.cpmorphology import pairwise_permutations
        i = _layout(np.array(case["i"], dtype=case["idtype"]), case["layout"])
        j = _layout(_decode(case["jdtype"], case["j"], case["jnz"]), case["layout"])
        di, d1, d2 = pairwise_permutations(i, j)
        return {"di": [int(x) for x in np.asarray(di).tolist()], "d1": _encode(d1), "d2": _encode(d2)}
    raise ValueError(fn)


def _bad(o):
    return (not isinstance(o, dict)) or "exc" in o or "crash" in o or "nonint" in o


# ------------------------------------------------------------------------------ model, compare

def _dispatch(ctx, cases, sel):
    """sel(k, case) -> (entry, arg) or None.  Runs each entry once over its cases."""
    by = {}
    for k, c in enumerate(cases):
        e = sel(k, c)
        if e is not None:
            by.setdefault(e[0], []).append((k, e[1]))
    res = [None] * len(cases)
    for entry, items in by.items():
        for (k, _), r in zip(items, ctx.run_model(entry, [a for _, a in items])):
            res[k] = r
    return res


def _model_arg(k, c, outs):
    fn = c["fn"]
    if fn == "rank":
        if c["nbins"] is None:
            return ("entry_rank", [c["vals"]])
        if _bad(outs[k]) or not outs[k]["orders"]:
            # nothing recorded (loop not entered, or the code no longer calls np.argsort): stable oracle
            return ("entry_rank_bins_stable", [c["vals"], c["nbins"]])
        return ("entry_rank_bins", [c["vals"], c["nbins"], outs[k]["orders"]])
    if fn == "median":
        return ("entry_median", [[2 * v for v in c["h"]], c["labels"], c["indices"]])
    if fn == "mode":
        return ("entry_mode", [c["vals"]])
    if fn == "indexes":
        return ("entry_indexes", c["counts"])
    if fn == "pairs":
        return None if c.get("big") else ("entry_pairs", [c["i"], c["j"]])
    if fn == "allpairs":
        return ("entry_all_pairs", c["n"])


def model(ctx, cases, outs):
    return _dispatch(ctx, cases, lambda k, c: _model_arg(k, c, outs))


def _impl_sx(c, o):
    """the implementation's output in the model's wire shape"""
    fn = c["fn"]
    if fn == "rank":
        return [o["r"], o["v"]] if c["nbins"] is None else [[o["r"], o["v"]]]
    if fn == "median":
        return o["m"]
    if fn == "mode":
        return o["m"]
    if fn == "indexes":
        return [o["length"], o["fwd"], o["rev"], o["idx"]]
    if fn == "pairs":
        return [o["di"], o["d1"], o["d2"]]
    if fn == "allpairs":
        return o["p"]


def compare(case, out, m):
    if _bad(out):
        return "implementation raised/crashed on a valid input: %s" % (str(out)[:300],)
    if isinstance(m, dict):
        return "model error: %s" % (m,)
    if m is None and case.get("big"):
        return None
    exp = _impl_sx(case, out)
    if case["fn"] == "rank" and case["nbins"] is not None and not out["orders"] and m != exp:
        # the merging loop ran but no np.argsort call was observed: the tie order of the implementation's sort is
        # unknown, so this case is judged by the verified checker only (never a false alarm on a refactoring)
        return None
    if case["fn"] == "rank" and case["nbins"] is not None and m == []:
        return ("model rejected a recorded np.argsort(hist) (not a sorting permutation of the model's histogram) or ran "
                "out of fuel; orders %s hists %s" % (str(out["orders"])[:200], str(out["hists"])[:200]))
    if m != exp:
        return "%s differs from the Coq model: impl %s model %s" % (case["fn"], str(exp)[:300], str(m)[:300])
    return None


# ------------------------------------------------------------------------------ the property

def _check_arg(k, c, o):
    fn = c["fn"]
    if _bad(o):
        return None
    if fn == "rank":
        if o["v"] is None:
            return None
        if c["nbins"] is None:
            return ("entry_check_rank", [c["vals"], o["r"], o["v"]])
        return ("entry_check_bins", [c["vals"], c["nbins"], o["r"], o["v"]])
    if fn == "median":
        return ("entry_median_ref", [[2 * v for v in c["h"]], c["labels"], c["indices"]])
    if fn == "mode":
        if o["m"] is None:
            return None
        return ("entry_check_mode", [c["vals"], sorted(o["m"])])
    if fn == "indexes":
        return ("entry_indexes_ref", c["counts"])
    if fn == "pairs":
        return None if c.get("big") else ("entry_pairs_all", [c["i"], c["j"]])
    if fn == "allpairs":
        return ("entry_all_pairs_ref", c["n"])


def check(ctx, cases, outs):
    res = [None] * len(cases)
    rs = _dispatch(ctx, cases, lambda k, c: _check_arg(k, c, outs[k]))
    for k, (c, o) in enumerate(zip(cases, outs)):
        fn = c["fn"]
        if _bad(o):
            res[k] = "%s raised/crashed on a valid input: %s" % (fn, str(o)[:300])
            continue
        r = rs[k]
        if isinstance(r, dict):
            res[k] = "checker error %s" % (r,)
            continue
        if fn == "rank":
            if o["v"] is None:
                res[k] = "rank_order: returned values are not input values (not on the input's dyadic grid)"
            elif not o["shape_ok"]:
                res[k] = "rank_order: rank image has a different shape from the input"
            elif r != 1:
                res[k] = ("rank_order: ranks/values violate Spec.SpecC18.rank_iso_check (order isomorphism, "
                          "values[rank] = input, strictly increasing values)") if c["nbins"] is None else (
                          "rank_order(nbins=%d): output violates Spec.SpecC18.bins_check (<= nbins levels, monotone "
                          "coarsening, representatives are input values)" % c["nbins"])
        elif fn == "median":
            if o["n"] != len(c["indices"]):
                res[k] = "median_of_labels: %d results for %d requested labels" % (o["n"], len(c["indices"]))
            elif r != o["m"]:
                bad = [q for q in range(len(r)) if r[q] != o["m"][q]]
                res[k] = "median_of_labels: label %d: got %s, median (x2^%d) is %s (NaN = [])" % (
                    c["indices"][bad[0]], o["m"][bad[0]], 1 - c["q"], r[bad[0]])
        elif fn == "mode":
            if o["m"] is None:
                res[k] = "mode: returned values are not input values"
            elif r != 1:
                res[k] = "mode: result %s is not the set of most frequent values (Spec.SpecC18.mode_check)" % (o["m"],)
            elif len(set(o["m"])) != len(o["m"]):
                res[k] = "mode: a value is returned twice"
        elif fn == "indexes":
            if r != _impl_sx(c, o):
                res[k] = "Indexes: not the row-major enumeration: got %s expected %s" % (
                    str(_impl_sx(c, o))[:200], str(r)[:200])
            elif not (o["idx_integral"] and o["counts_ok"]):
                res[k] = "Indexes: idx not integral or counts not preserved"
        elif fn == "allpairs":
            n = c["n"]
            if r != o["p"]:
                res[k] = "all_pairs(%d): not the documented enumeration (Spec.SpecC18.all_pairs_ref): %s" % (n, str(o["p"])[:200])
            elif sorted(map(tuple, o["p"])) != [(a, b) for a in range(n) for b in range(n) if a != b]:
                res[k] = "all_pairs(%d): not every ordered non-identity pair exactly once" % n
            elif any(sorted(map(tuple, o["p"][:m * (m - 1)])) != [(a, b) for a in range(m) for b in range(m) if a != b]
                     for m in range(n + 1)):
                res[k] = "all_pairs(%d): the first m(m-1) rows are not the pairs of the first m things" % n
        elif fn == "pairs" and c.get("big"):
            grp = {}
            for a, b in sorted(zip(c["i"], c["j"])):
                grp.setdefault(a, []).append(b)
            exp = sorted([g, min(a, b), max(a, b)] for g, ms in grp.items() for x, a in enumerate(ms) for b in ms[x + 1:])
            got = sorted([g, min(a, b), max(a, b)] for g, a, b in zip(o["di"], o["d1"], o["d2"]))
            if got != exp:
                res[k] = ("pairwise_permutations (%s labels, %d groups): not every within-group pair exactly once: got %s "
                          "expected %s" % (c["idtype"], len(grp), str(got)[:120], str(exp)[:120]))
        elif fn == "pairs":
            got = sorted([g, min(a, b), max(a, b)] for g, a, b in zip(o["di"], o["d1"], o["d2"]))
            if not (len(o["di"]) == len(o["d1"]) == len(o["d2"])):
                res[k] = "pairwise_permutations: result arrays of different lengths"
            elif got != sorted(r):
                res[k] = "pairwise_permutations: not every within-group pair exactly once: got %s expected %s" % (
                    str(got)[:200], str(sorted(r))[:200])
    return res


def nontrivial(case, out):
    fn = case["fn"]
    if _bad(out):
        return False
    if fn == "rank":
        a = case["vals"]
        if not (len(set(a)) >= 2 and len(set(a)) < len(a)):
            return False
        return case["nbins"] is None or len(out["orders"]) >= 1
    if fn == "median":
        cnt = {l: case["labels"].count(l) for l in case["indices"]}
        return any(v == 0 for v in cnt.values()) and any(v > 0 and v % 2 == 0 for v in cnt.values())
    if fn == "mode":
        return len(out["m"] or []) >= 2 or len(set(case["vals"])) >= 3
    if fn == "indexes":
        c = np.array(case["counts"])
        return c.ndim == 2 and c.shape[0] >= 2 and c.shape[1] >= 1 and bool((c.prod(0) == 0).any()) and out["length"] > 0
    if fn == "pairs":
        import collections
        cnt = collections.Counter(case["i"])
        return max(cnt.values() or [0]) >= 3 or (len(cnt) > 128 and max(cnt.values()) >= 2)
    if fn == "allpairs":
        return case["n"] >= 3
    return False


def kernel_crosscheck(ctx, cases, outs):
    want = {"entry_rank": 10, "entry_rank_bins": 12, "entry_median": 12, "entry_mode": 8, "entry_indexes": 8,
            "entry_pairs": 8, "entry_all_pairs": 6}
    picked = {}
    order = list(range(0, len(cases), 7)) + [k for k in range(len(cases)) if k % 7]
    for k in order:
        c = cases[k]
        if _bad(outs[k]) or (c["fn"] == "median" and max(c["labels"] + c["indices"] + [0]) > 300):
            continue
        e = _model_arg(k, c, outs)
        if e is None:
            continue
        size = len(json.dumps(c))
        if e[0] in want and size < 400 and len(picked.setdefault(e[0], [])) < want[e[0]]:
            picked[e[0]].append((k, e[1]))
    n = 0
    for entry, items in picked.items():
        exp = [_impl_sx(cases[k], outs[k]) for k, _ in items]
        r = ctx.coq_eval_eq("Model.AllPairsC18" if entry == "entry_all_pairs" else "Model.EntryC18", entry, [a for _, a in items], exp, tag=entry)
        n += len(items)
        bad = [k for (k, _), b in zip(items, r) if b is not True]
        if bad:
            return "vm_compute evaluation of Model.EntryC18.%s differs from the implementation on case %d: %s" % (
                entry, bad[0], json.dumps(cases[bad[0]])[:300]), n
    return None, n


def search_cases(ctx, rnd):
    rng = ctx.rng
    cases = []
    for name, g, frac in _GENS:
        for _ in range(int(1500 * frac)):
            cases.append(g(ctx, rng, None))
    return cases


def _drop_each(lst):
    for k in range(len(lst)):
        yield lst[:k] + lst[k + 1:]


def _drop_vals(c, key, nzkey):
    """drop one element of a value list, keeping the -0.0 index list consistent"""
    vals = c[key]
    for k in range(len(vals)):
        d = dict(c)
        d[key] = vals[:k] + vals[k + 1:]
        d[nzkey] = [q - (1 if q > k else 0) for q in c.get(nzkey, []) if q != k]
        if "shape" in d:
            d["shape"] = None
        yield d


def shrink_candidates(case):
    fn = case["fn"]
    c = dict(case)
    for key in ("layout", "llayout"):
        if c.get(key, "C") != "C":
            d = dict(c); d[key] = "C"
            yield d
    if c.get("shape") is not None and fn != "mode" or (fn == "mode" and c.get("shape") is not None):
        d = dict(c); d["shape"] = None
        yield d
    if fn == "rank":
        a = case["vals"]
        if len(a) > 3:
            for lo, hi in ((0, len(a) // 2), (len(a) // 2, len(a))):
                d = dict(c); d["vals"] = a[lo:hi]; d["shape"] = None
                d["nz"] = [q - lo for q in case["nz"] if lo <= q < hi]
                yield d
        if len(a) > 1:
            for d in _drop_vals(c, "vals", "nz"):
                yield d
        if case["nbins"] is not None and case["nbins"] > 1:
            d = dict(c); d["nbins"] = case["nbins"] - 1
            yield d
    elif fn == "median":
        n = len(case["labels"])
        if n > 1 and not case.get("coded"):
            for k in range(n):
                d = dict(c); d["shape"] = None
                d["labels"] = case["labels"][:k] + case["labels"][k + 1:]
                d["h"] = case["h"][:k] + case["h"][k + 1:]
                yield d
        for b in _drop_each(case["indices"]):
            if b:
                d = dict(c); d["indices"] = b
                yield d
        if any(case["h"]) and not case.get("coded"):
            d = dict(c); d["h"] = [0] * n
            yield d
    elif fn == "mode":
        for d in _drop_vals(c, "vals", "nz"):
            yield d
    elif fn == "indexes":
        cs = case["counts"]
        m = len(cs[0]) if cs else 0
        for o in range(m):
            d = dict(c); d["counts"] = [row[:o] + row[o + 1:] for row in cs]
            yield d
        if len(cs) > 1:
            for b in _drop_each(cs):
                d = dict(c); d["counts"] = b; d["oned"] = False
                yield d
        for q, row in enumerate(cs):
            for o, v in enumerate(row):
                if v > 0:
                    d = dict(c); d["counts"] = [list(r) for r in cs]; d["counts"][q][o] = v - 1
                    yield d
    elif fn == "allpairs":
        if case["n"] > 0:
            d = dict(c); d["n"] = case["n"] - 1
            yield d
    elif fn == "pairs" and case.get("big"):
        return
    elif fn == "pairs":
        n = len(case["i"])
        if n > 12:
            for lo, hi in ((0, n // 2), (n // 2, n), (n // 4, n), (0, 3 * n // 4)):
                d = dict(c); d["i"] = case["i"][lo:hi]; d["j"] = case["j"][lo:hi]
                d["jnz"] = [q - lo for q in case["jnz"] if lo <= q < hi]
                yield d
        for k in range(n):
            d = dict(c); d["i"] = case["i"][:k] + case["i"][k + 1:]; d["j"] = case["j"][:k] + case["j"][k + 1:]
            d["jnz"] = [q - (1 if q > k else 0) for q in case["jnz"] if q != k]
            yield d


MANIFEST = {
    "level_text": (
        "Machine-checked proofs (Coq 8.16) about line-level executable Gallina models of rank_order (with the "
        "bin-merging loop for ANY admissible argsort of the histogram), median_of_labels, mode, Indexes and "
        "pairwise_permutations, tied to the code by exact comparison of complete outputs on every run (the "
        "histogram argsorts of rank_order are recorded and replayed), with the extracted models cross-checked "
        "against vm_compute; the declarative specifications / verified checkers are also evaluated on the "
        "implementation's own outputs."),
    "level_note": (
        "Trusted: Coq kernel + vm_compute; extraction (ExtrOcamlBasic only) and the S-expression driver; the Python "
        "harness; NumPy primitives as modelled; dyadic data so that no float rounding occurs.  The tie between "
        "model and code is differential, not a proof about Python."),
    "technique": "Coq proof over executable model + exact differential correspondence (extracted OCaml and vm_compute)",
    "design_ref": "DESIGN.md section 7, C18",
}
