"""C18 - ranking and ragged-index helpers are exact (rank_order, median_of_labels, mode, Indexes,
pairwise_permutations)."""
import json
import os
import numpy as np

ID = "C18"
PROPS_FILE = "theories/Props/C18.v"
EXTRACT = ("theories/Extract/XC18.v", "c18", [
    "entry_rank", "entry_rank_bins", "entry_rank_bins_stable", "entry_median", "entry_mode", "entry_indexes",
    "entry_pairs", "entry_check_rank", "entry_check_bins", "entry_median_ref", "entry_check_mode",
    "entry_indexes_ref", "entry_pairs_ref", "entry_pairs_all"])
PYX = {}
RULE = ("quick 4000 / thorough 100000 random cases plus (thorough) every array of length <= 5 over {0,1,2} through rank_order (nbins None,1,2) and mode, every 2x2 count matrix over {0,1,2}, every 2-group layout of <= 4 members; corpus/C18 first (F5 witness, single element, nbins=1, zero-count objects, singleton groups), then random "
        "cases per function: rank_order on 1-D/2-D int and dyadic-float arrays of 1-150 elements with ties and "
        "negatives, nbins None or 1..300 (np.argsort of the histogram is recorded by a proxy and replayed into the "
        "model, which re-checks that every recorded order is a sorting permutation of ITS histogram); "
        "median_of_labels with duplicate-free request lists in arbitrary order containing absent labels "
        "first/middle/last; mode; Indexes with 1-4 axes, 0-7 objects and zero counts; pairwise_permutations with "
        "singleton groups, negative group ids and duplicate members.  Non-trivial: rank = at least one tie and two "
        "distinct values (with nbins: the merging loop ran); median = an absent label and an even-count label; "
        "mode = a tie for the maximum or >= 3 distinct values; Indexes = a zero-count object and >= 2 axes; "
        "pairs = a group with >= 3 members.  Distinct by hash of the case.")
TRUSTED = [
    "modelled, not verified: NumPy primitives as list functions (fancy-index scatter with last write wins, boolean "
    "compaction, cumsum, bincount, lexsort = stable sort on (key1,key2,position), unique), float arithmetic on "
    "dyadic values of small magnitude being exact (harness sends integers n with value n/2^s), "
    "scipy.sparse coo->csc lookup as a keyed sum",
    "np.argsort(hist) inside rank_order is observed through a module proxy (centrosome.rankorder.np) and replayed",
]
ASSUMPTIONS = [
    "rank_order: non-empty image, nbins >= 1 (nbins = 0 does not terminate in the code; outside 'bin limit')",
    "median_of_labels: labels and requested indices are non-negative integers, request list duplicate-free, "
    "labels non-empty, image and labels of equal shape",
    "Indexes: counts is a rectangular N x M array of non-negative integers, N >= 1, total length < 2^53",
    "values are integers or dyadic floats with |numerator| < 2^40 (no rounding in the implementation)",
]
EXHAUSTIVE = {"quick": False, "thorough": False}
CASE_TIMEOUT = 30
_HERE = os.path.dirname(os.path.dirname(os.path.dirname(os.path.abspath(__file__))))


# ------------------------------------------------------------------------------ generation

def _values(rng, n):
    """(integers, scale): value = integer / 2^scale"""
    kind = rng.choice(["small", "small", "neg", "wide", "dyadic", "dyadic", "const", "two"])
    if kind == "small":
        return rng.randint(0, int(rng.choice([2, 3, 5, 10])), n).tolist(), 0
    if kind == "neg":
        return rng.randint(-6, 7, n).tolist(), 0
    if kind == "wide":
        return rng.randint(-100000, 100000, n).tolist(), 0
    if kind == "dyadic":
        s = int(rng.choice([1, 2, 4, 10]))
        return rng.randint(-40, 41, n).tolist(), s
    if kind == "const":
        return [int(rng.randint(-3, 4))] * n, 0
    a = rng.randint(-3, 4, 2)
    return rng.choice(a, n).tolist(), int(rng.choice([0, 3]))


def _gen_rank(ctx, rng):
    n = int(rng.choice([1, 1, 2, 2, 3, 4, 5, 8, 13, 20, 40, 60, 100, 150]))
    a, s = _values(rng, n)
    shape = None
    if n > 1 and rng.rand() < 0.25:
        d = [k for k in range(1, n + 1) if n % k == 0]
        h = int(rng.choice(d))
        shape = [h, n // h]
    nb = None
    u = rng.rand()
    nd = len(set(a))
    if u < 0.25:
        nb = int(rng.randint(1, 6))
    elif u < 0.45:
        nb = max(1, nd + int(rng.randint(-3, 3)))
    elif u < 0.60:
        nb = int(rng.randint(1, 301))
    return {"fn": "rank", "a": a, "scale": s, "shape": shape, "nbins": nb,
            "float": bool(s > 0 or rng.rand() < 0.5)}


def _gen_median(ctx, rng):
    n = int(rng.choice([1, 2, 3, 4, 6, 10, 20, 40, 80]))
    nl = int(rng.choice([1, 2, 3, 5, 8]))
    labels = rng.randint(0, nl + 1, n)
    if rng.rand() < 0.3:
        labels = np.sort(labels)
    if rng.rand() < 0.3:           # drop one label entirely
        drop = int(rng.randint(0, nl + 1))
        labels = np.where(labels == drop, (drop + 1) % (nl + 1), labels)
    vals, s = _values(rng, n)
    pool = list(range(0, nl + 4))
    rng.shuffle(pool)
    k = int(rng.randint(0, len(pool) + 1))
    if rng.rand() < 0.05:
        k = 0
    idx = pool[:k]
    u = rng.rand()
    if u < 0.3:
        idx = sorted(idx)
    elif u < 0.4 and idx:
        idx = sorted(idx) + [nl + 5]            # trailing absent label (F5 class)
    elif u < 0.5 and idx:
        idx = [nl + 6] + idx                    # leading absent label
    shape = None
    if n > 1 and rng.rand() < 0.3:
        d = [q for q in range(1, n + 1) if n % q == 0]
        h = int(rng.choice(d))
        shape = [h, n // h]
    return {"fn": "median", "image2": [2 * int(v) for v in vals], "scale": s, "labels": labels.tolist(),
            "indices": [int(x) for x in idx], "shape": shape}


def _gen_mode(ctx, rng):
    n = int(rng.choice([0, 1, 2, 3, 5, 8, 13, 25, 40]))
    a, s = _values(rng, n)
    return {"fn": "mode", "a": a, "scale": s}


def _gen_indexes(ctx, rng):
    nd = int(rng.choice([1, 1, 2, 2, 3, 4]))
    m = int(rng.choice([0, 1, 2, 3, 4, 5, 7]))
    hi = int(rng.choice([2, 3, 4, 5]))
    counts = rng.randint(0, hi, (nd, m))
    if rng.rand() < 0.2:
        counts = np.maximum(counts, 1)
    if rng.rand() < 0.1 and m:
        counts[rng.randint(nd)] = 0
    oned = bool(nd == 1 and rng.rand() < 0.5)
    return {"fn": "indexes", "counts": counts.tolist(), "oned": oned}


def _gen_pairs(ctx, rng):
    n = int(rng.choice([0, 1, 2, 3, 4, 6, 9, 14, 22]))
    lo = int(rng.choice([0, 0, -3, 5]))
    i = rng.randint(lo, lo + int(rng.choice([1, 2, 3, 6])) + 1, n)
    if rng.rand() < 0.5:
        j = rng.permutation(60)[:n] - int(rng.choice([0, 20]))
    else:
        j = rng.randint(-3, 6, n)
    return {"fn": "pairs", "i": i.tolist(), "j": j.tolist()}


_GENS = [("rank", _gen_rank, 0.36), ("median", _gen_median, 0.24), ("mode", _gen_mode, 0.12),
         ("indexes", _gen_indexes, 0.14), ("pairs", _gen_pairs, 0.14)]


def _corpus():
    d = os.path.join(_HERE, "corpus", "C18")
    cases = []
    if os.path.isdir(d):
        for name in sorted(os.listdir(d)):
            if name.endswith(".json"):
                with open(os.path.join(d, name)) as f:
                    cases.extend(json.load(f))
    return cases


def generate(ctx):
    rng = ctx.rng
    cases = _corpus()
    total = ctx.n(4000, 100000)
    if not ctx.quick():
        # small exhaustive families (thorough tier): every array of length <= 5 over {0,1,2}
        import itertools
        for n in range(1, 6):
            for a in itertools.product(range(3), repeat=n):
                for nb in (None, 1, 2):
                    cases.append({"fn": "rank", "a": list(a), "scale": 0, "shape": None, "nbins": nb, "float": False})
                cases.append({"fn": "mode", "a": list(a), "scale": 0})
        for c in itertools.product(range(3), repeat=4):
            cases.append({"fn": "indexes", "counts": [[c[0], c[1]], [c[2], c[3]]], "oned": False})
        for n in range(0, 5):
            for i in itertools.product(range(2), repeat=n):
                cases.append({"fn": "pairs", "i": list(i), "j": list(range(10, 10 + n))})
    for name, g, frac in _GENS:
        for _ in range(int(total * frac)):
            cases.append(g(ctx, rng))
    for c in cases:
        ctx.count(c["fn"])
        if c["fn"] == "rank":
            ctx.count("rank:nbins" if c["nbins"] is not None else "rank:plain")
    return cases


# ------------------------------------------------------------------------------ implementation

class _NPProxy(object):
    """stands in for the module global `np` of centrosome.rankorder: records np.argsort calls"""

    def __init__(self):
        self.orders = []

    def __getattr__(self, k):
        return getattr(np, k)

    def argsort(self, a, *args, **kw):
        r = np.argsort(a, *args, **kw)
        self.orders.append([np.asarray(a).tolist(), np.asarray(r).tolist()])
        return r


def _ints(x, scale):
    """float array -> exact integers x*2^scale, or None"""
    y = np.asarray(x, dtype=np.float64) * float(2 ** scale)
    r = np.rint(y)
    if not np.array_equal(r, y):
        return None
    return [int(v) for v in r.ravel().tolist()]


def impl(case):
    fn = case["fn"]
    if fn == "rank":
        from centrosome import rankorder
        s = case["scale"]
        a = np.array(case["a"], dtype=np.int64)
        if case["float"]:
            a = a.astype(np.float64) / float(2 ** s)
        if case["shape"]:
            a = a.reshape(case["shape"])
        keep = a.copy()
        proxy = _NPProxy()
        old = rankorder.np
        rankorder.np = proxy
        try:
            r, v = rankorder.rank_order(a, case["nbins"]) if case["nbins"] is not None else rankorder.rank_order(a)
        finally:
            rankorder.np = old
        vi = _ints(v, s if case["float"] else 0)
        return {"r": [int(x) for x in np.asarray(r).ravel().tolist()], "v": vi,
                "shape_ok": bool(np.asarray(r).shape == a.shape), "unchanged": bool(np.array_equal(keep, a)),
                "orders": [o[1] for o in proxy.orders], "hists": [o[0] for o in proxy.orders]}
    if fn == "median":
        from centrosome.cpmorphology import median_of_labels
        s = case["scale"] + 1
        img = np.array(case["image2"], dtype=np.float64) / float(2 ** s)
        lab = np.array(case["labels"], dtype=np.int64)
        if case["shape"]:
            img = img.reshape(case["shape"]); lab = lab.reshape(case["shape"])
        m = np.asarray(median_of_labels(img, lab, list(case["indices"])), dtype=np.float64)
        res = []
        for x in m.ravel().tolist():
            if x != x:
                res.append([])
            else:
                y = x * float(2 ** s)
                if y != int(y):
                    return {"nonint": x}
                res.append([int(y)])
        return {"m": res, "n": int(m.size)}
    if fn == "mode":
        from centrosome.mode import mode
        s = case["scale"]
        a = np.array(case["a"], dtype=np.int64)
        if s:
            a = a.astype(np.float64) / float(2 ** s)
        return {"m": _ints(mode(a), s)}
    if fn == "indexes":
        from centrosome.index import Indexes
        c = np.array(case["counts"], dtype=np.int64)
        nd = len(case["counts"])
        if c.ndim != 2:
            c = c.reshape(nd, 0)
        ix = Indexes(c[0] if case["oned"] else c)
        idx = np.asarray(ix.idx)
        return {"length": int(ix.length), "fwd": np.asarray(ix.fwd_idx).astype(np.int64).tolist(),
                "rev": np.asarray(ix.rev_idx).astype(np.int64).tolist(),
                "idx": [[int(v) for v in row] for row in idx.tolist()],
                "idx_integral": bool(np.array_equal(idx, np.asarray(idx).astype(np.int64))),
                "counts_ok": bool(np.array_equal(ix.counts, np.atleast_2d(c)))}
    if fn == "pairs":
        from centrosome.cpmorphology import pairwise_permutations
        i = np.array(case["i"], dtype=np.int64)
        j = np.array(case["j"], dtype=np.int64)
        di, d1, d2 = pairwise_permutations(i, j)
        return {"di": [int(x) for x in np.asarray(di).tolist()], "d1": [int(x) for x in np.asarray(d1).tolist()],
                "d2": [int(x) for x in np.asarray(d2).tolist()]}
    raise ValueError(fn)


def _bad(o):
    return (not isinstance(o, dict)) or "exc" in o or "crash" in o or "nonint" in o


# ------------------------------------------------------------------------------ model, compare

def _dispatch(ctx, cases, sel):
    """sel(k, case) -> (entry, arg) or None.  Runs each entry once over its cases."""
    by = {}
    for k, c in enumerate(cases):
        e = sel(k, c)
        if e is not None:
            by.setdefault(e[0], []).append((k, e[1]))
    res = [None] * len(cases)
    for entry, items in by.items():
        for (k, _), r in zip(items, ctx.run_model(entry, [a for _, a in items])):
            res[k] = r
    return res


def _model_arg(k, c, outs):
    fn = c["fn"]
    if fn == "rank":
        if c["nbins"] is None:
            return ("entry_rank", [c["a"]])
        if _bad(outs[k]) or not outs[k]["orders"]:
            # nothing recorded (loop not entered, or the code no longer calls np.argsort): stable oracle
            return ("entry_rank_bins_stable", [c["a"], c["nbins"]])
        return ("entry_rank_bins", [c["a"], c["nbins"], outs[k]["orders"]])
    if fn == "median":
        return ("entry_median", [c["image2"], c["labels"], c["indices"]])
    if fn == "mode":
        return ("entry_mode", [c["a"]])
    if fn == "indexes":
        return ("entry_indexes", c["counts"])
    if fn == "pairs":
        return ("entry_pairs", [c["i"], c["j"]])


def model(ctx, cases, outs):
    return _dispatch(ctx, cases, lambda k, c: _model_arg(k, c, outs))


def _impl_sx(c, o):
    """the implementation's output in the model's wire shape"""
    fn = c["fn"]
    if fn == "rank":
        return [o["r"], o["v"]] if c["nbins"] is None else [[o["r"], o["v"]]]
    if fn == "median":
        return o["m"]
    if fn == "mode":
        return o["m"]
    if fn == "indexes":
        return [o["length"], o["fwd"], o["rev"], o["idx"]]
    if fn == "pairs":
        return [o["di"], o["d1"], o["d2"]]


def compare(case, out, m):
    if _bad(out):
        return "implementation raised/crashed on a valid input: %s" % (str(out)[:300],)
    if isinstance(m, dict):
        return "model error: %s" % (m,)
    exp = _impl_sx(case, out)
    if case["fn"] == "rank" and case["nbins"] is not None and not out["orders"] and m != exp:
        # the merging loop ran but no np.argsort call was observed: the tie order of the implementation's sort is
        # unknown, so this case is judged by the verified checker only (never a false alarm on a refactoring)
        return None
    if case["fn"] == "rank" and case["nbins"] is not None and m == []:
        return ("model rejected a recorded np.argsort(hist) (not a sorting permutation of the model's histogram) or ran "
                "out of fuel; orders %s hists %s" % (str(out["orders"])[:200], str(out["hists"])[:200]))
    if m != exp:
        return "%s differs from the Coq model: impl %s model %s" % (case["fn"], str(exp)[:300], str(m)[:300])
    return None


# ------------------------------------------------------------------------------ the property

def _check_arg(k, c, o):
    fn = c["fn"]
    if _bad(o):
        return None
    if fn == "rank":
        if o["v"] is None:
            return None
        if c["nbins"] is None:
            return ("entry_check_rank", [c["a"], o["r"], o["v"]])
        return ("entry_check_bins", [c["a"], c["nbins"], o["r"], o["v"]])
    if fn == "median":
        return ("entry_median_ref", [c["image2"], c["labels"], c["indices"]])
    if fn == "mode":
        if o["m"] is None:
            return None
        return ("entry_check_mode", [c["a"], sorted(o["m"])])
    if fn == "indexes":
        return ("entry_indexes_ref", c["counts"])
    if fn == "pairs":
        return ("entry_pairs_all", [c["i"], c["j"]])


def check(ctx, cases, outs):
    res = [None] * len(cases)
    rs = _dispatch(ctx, cases, lambda k, c: _check_arg(k, c, outs[k]))
    for k, (c, o) in enumerate(zip(cases, outs)):
        fn = c["fn"]
        if _bad(o):
            res[k] = "%s raised/crashed on a valid input: %s" % (fn, str(o)[:300])
            continue
        r = rs[k]
        if isinstance(r, dict):
            res[k] = "checker error %s" % (r,)
            continue
        if fn == "rank":
            if o["v"] is None:
                res[k] = "rank_order: returned values are not input values (not on the input's dyadic grid)"
            elif not o["shape_ok"]:
                res[k] = "rank_order: rank image has a different shape from the input"
            elif r != 1:
                res[k] = ("rank_order: ranks/values violate Spec.SpecC18.rank_iso_check (order isomorphism, "
                          "values[rank] = input, strictly increasing values)") if c["nbins"] is None else (
                          "rank_order(nbins=%d): output violates Spec.SpecC18.bins_check (<= nbins levels, monotone "
                          "coarsening, representatives are input values)" % c["nbins"])
        elif fn == "median":
            if o["n"] != len(c["indices"]):
                res[k] = "median_of_labels: %d results for %d requested labels" % (o["n"], len(c["indices"]))
            elif r != o["m"]:
                bad = [q for q in range(len(r)) if r[q] != o["m"][q]]
                res[k] = "median_of_labels: label %d: got %s, median (x2^%d) is %s (NaN = [])" % (
                    c["indices"][bad[0]], o["m"][bad[0]], c["scale"] + 1, r[bad[0]])
        elif fn == "mode":
            if o["m"] is None:
                res[k] = "mode: returned values are not input values"
            elif r != 1:
                res[k] = "mode: result %s is not the set of most frequent values (Spec.SpecC18.mode_check)" % (o["m"],)
            elif len(set(o["m"])) != len(o["m"]):
                res[k] = "mode: a value is returned twice"
        elif fn == "indexes":
            if r != _impl_sx(c, o):
                res[k] = "Indexes: not the row-major enumeration: got %s expected %s" % (
                    str(_impl_sx(c, o))[:200], str(r)[:200])
            elif not (o["idx_integral"] and o["counts_ok"]):
                res[k] = "Indexes: idx not integral or counts not preserved"
        elif fn == "pairs":
            got = sorted([g, min(a, b), max(a, b)] for g, a, b in zip(o["di"], o["d1"], o["d2"]))
            if not (len(o["di"]) == len(o["d1"]) == len(o["d2"])):
                res[k] = "pairwise_permutations: result arrays of different lengths"
            elif got != sorted(r):
                res[k] = "pairwise_permutations: not every within-group pair exactly once: got %s expected %s" % (
                    str(got)[:200], str(sorted(r))[:200])
    return res


def nontrivial(case, out):
    fn = case["fn"]
    if _bad(out):
        return False
    if fn == "rank":
        a = case["a"]
        if not (len(set(a)) >= 2 and len(set(a)) < len(a)):
            return False
        return case["nbins"] is None or len(out["orders"]) >= 1
    if fn == "median":
        cnt = {l: case["labels"].count(l) for l in case["indices"]}
        return any(v == 0 for v in cnt.values()) and any(v > 0 and v % 2 == 0 for v in cnt.values())
    if fn == "mode":
        return len(out["m"] or []) >= 2 or len(set(case["a"])) >= 3
    if fn == "indexes":
        c = np.array(case["counts"])
        return c.ndim == 2 and c.shape[0] >= 2 and c.shape[1] >= 1 and bool((c.prod(0) == 0).any()) and out["length"] > 0
    if fn == "pairs":
        return any(case["i"].count(g) >= 3 for g in set(case["i"]))
    return False


def kernel_crosscheck(ctx, cases, outs):
    want = {"entry_rank": 10, "entry_rank_bins": 12, "entry_median": 12, "entry_mode": 8, "entry_indexes": 8,
            "entry_pairs": 8}
    picked = {}
    for k, c in enumerate(cases):
        if _bad(outs[k]):
            continue
        e = _model_arg(k, c, outs)
        size = len(json.dumps(c))
        if e[0] in want and size < 400 and len(picked.setdefault(e[0], [])) < want[e[0]]:
            picked[e[0]].append((k, e[1]))
    n = 0
    for entry, items in picked.items():
        exp = [_impl_sx(cases[k], outs[k]) for k, _ in items]
        r = ctx.coq_eval_eq("Model.EntryC18", entry, [a for _, a in items], exp, tag=entry)
        n += len(items)
        bad = [k for (k, _), b in zip(items, r) if b is not True]
        if bad:
            return "vm_compute evaluation of Model.EntryC18.%s differs from the implementation on case %d: %s" % (
                entry, bad[0], json.dumps(cases[bad[0]])[:300]), n
    return None, n


def search_cases(ctx, rnd):
    rng = ctx.rng
    cases = []
    for name, g, frac in _GENS:
        for _ in range(int(1500 * frac)):
            cases.append(g(ctx, rng))
    return cases


def _drop_each(lst):
    for k in range(len(lst)):
        yield lst[:k] + lst[k + 1:]


def shrink_candidates(case):
    fn = case["fn"]
    c = dict(case)
    if fn == "rank":
        if case["shape"]:
            d = dict(c); d["shape"] = None
            yield d
        a = case["a"]
        if len(a) > 3:
            for part in (a[:len(a) // 2], a[len(a) // 2:]):
                d = dict(c); d["a"] = part; d["shape"] = None
                yield d
        if len(a) > 1:
            for b in _drop_each(a):
                d = dict(c); d["a"] = b; d["shape"] = None
                yield d
        if case["nbins"] is not None and case["nbins"] > 1:
            d = dict(c); d["nbins"] = case["nbins"] - 1
            yield d
    elif fn == "median":
        n = len(case["labels"])
        if case["shape"]:
            d = dict(c); d["shape"] = None
            yield d
        if n > 1:
            for k in range(n):
                d = dict(c); d["shape"] = None
                d["labels"] = case["labels"][:k] + case["labels"][k + 1:]
                d["image2"] = case["image2"][:k] + case["image2"][k + 1:]
                yield d
        for b in _drop_each(case["indices"]):
            if b:
                d = dict(c); d["indices"] = b
                yield d
        if any(case["image2"]):
            d = dict(c); d["image2"] = [0] * n
            yield d
    elif fn == "mode":
        for b in _drop_each(case["a"]):
            d = dict(c); d["a"] = b
            yield d
    elif fn == "indexes":
        cs = case["counts"]
        m = len(cs[0]) if cs else 0
        for o in range(m):
            d = dict(c); d["counts"] = [row[:o] + row[o + 1:] for row in cs]
            yield d
        if len(cs) > 1:
            for b in _drop_each(cs):
                d = dict(c); d["counts"] = b; d["oned"] = False
                yield d
        for q, row in enumerate(cs):
            for o, v in enumerate(row):
                if v > 0:
                    d = dict(c); d["counts"] = [list(r) for r in cs]; d["counts"][q][o] = v - 1
                    yield d
    elif fn == "pairs":
        n = len(case["i"])
        for k in range(n):
            d = dict(c); d["i"] = case["i"][:k] + case["i"][k + 1:]; d["j"] = case["j"][:k] + case["j"][k + 1:]
            yield d


MANIFEST = {
    "level_text": (
        "Machine-checked proofs (Coq 8.16) about line-level executable Gallina models of rank_order (with the "
        "bin-merging loop for ANY admissible argsort of the histogram), median_of_labels, mode, Indexes and "
        "pairwise_permutations, tied to the code by exact comparison of complete outputs on every run (the "
        "histogram argsorts of rank_order are recorded and replayed), with the extracted models cross-checked "
        "against vm_compute; the declarative specifications / verified checkers are also evaluated on the "
        "implementation's own outputs."),
    "level_note": (
        "Trusted: Coq kernel + vm_compute; extraction (ExtrOcamlBasic only) and the S-expression driver; the Python "
        "harness; NumPy primitives as modelled; dyadic data so that no float rounding occurs.  The tie between "
        "model and code is differential, not a proof about Python."),
    "technique": "Coq proof over executable model + exact differential correspondence (extracted OCaml and vm_compute)",
    "design_ref": "DESIGN.md section 7, C18",
}
