"""C12 - masked-out pixels never influence results inside the mask (filter.py, cpmorphology.py, smooth.py)."""
import os
import sys
import numpy as np

_TOOLS = os.path.join(os.path.dirname(os.path.dirname(os.path.dirname(os.path.abspath(__file__)))), "tools")
if _TOOLS not in sys.path:
    sys.path.insert(0, _TOOLS)

ID = "C12"
PROPS_FILE = "theories/Props/C12.v"
EXTRACT = ("theories/Extract/XC12.v", "c12", ["entry_agree_in", "entry_agree_out", "entry_ref"])
PYX = {"_filter.pyx": ["masked_convolution"]}
CASE_TIMEOUT = 60
RULE = ("240 (thorough 3000) reference-model cases (scipy.ndimage correlate/convolve/binary and grey erosion/dilation on "
        "random small integer arrays and kernels, compared exactly with Model.MaskRef); then every listed function x every optional-parameter variant it offers x image shapes (1x1 .. 14x14 skewed to tiny, plus "
        "strips 70-600 x 1-5) x mask classes (random, thin lines, frame, single-pixel holes, masked-out runs ON the border, "
        "one-pixel spokes reaching the border, all-False, all-True, blob) x image dtype (float64/32, int64/32/16, uint8/16 "
        "incl. extremes, bool) x layout of image and of mask (C, Fortran, strided view, read-only) x mask dtype "
        "(bool/uint8/int64 where the function converts it); each case = base run + runs with the masked-out pixels := "
        "{0, 1, +big, -big, noise, +inf, NaN} (binary: False/True/noise) + the base call repeated at the end; non-trivial = the mask has both in and out pixels, some replacement really changes a "
        "masked-out pixel and the base output is not constant inside the mask; distinct by hash of the case")
TRUSTED = [
    "translator tools/gen_maskflow_c12.py (symbolic evaluation of the Python AST -> mask-dataflow program with shared "
    "definitions, fail-closed; all 42 programs: the 40 functions the property names + masked_convolution and branchings) "
    "and ONE hand-written loop summary in tools/maskflow_hand_c12.py (the loop of regional_maximum over the structure's "
    "offsets with clipped slice bounds, as LocS/ErodeS over an abstract structure) pinned to the normalised hash of that "
    "loop only (tools/maskflow_pins_c12.json)",
    "library-symbol locality table of gen_maskflow_c12.py (the interface the theorems quantify over): POINTWISE NumPy "
    "ufuncs/astype/copy; convolve with a literal kxk kernel local with radius k//2 (reflect border reads stay within "
    "that radius) and binary_erosion(m, generate_binary_structure(2,2), border_value=0) = Erode 1 - both tied to the "
    "executable reference models of Model/MaskRef.v (locality and guarantee proved in Proofs/MaskRefLocal.v, the "
    "models compared with scipy.ndimage correlate/convolve/binary_erosion/binary_dilation/grey_erosion/grey_dilation "
    "on random integer arrays on every run); GLOBAL = pure functions "
    "of their array arguments (table_lookup, scind.grey_erosion/dilation, gaussian_filter, label, "
    "distance_transform_edt, rank_order, lstsq, index_lookup, helper functions of the three modules, a user-supplied "
    "smoothing function); in-place kernels skeletonize_loop / _filter.median_filter write only their declared argument; "
    "extract_from_image_lookup(img, i, j) = img at the indexed pixels else 0",
    "loop rule: one symbolic iteration with the loop-carried variables as placeholders; the loop's results are pure "
    "functions of the entry values and of the carry-free sub-terms of that iteration (instances over the iterations "
    "differ only in image-independent constants, which the checker ignores), pointwise in p when every path from a "
    "placeholder to the root is pointwise; x[k,:,:] = v builds a stack of image planes, max/min/sum/mean(axis=0) of a "
    "stack is pointwise; loops with break/continue or data-dependent branches fall back to `pure function of the "
    "entry values of everything read`",
    "NumPy identities: x[m] = gather(where(m,x,0), m) for boolean m; (x with x[s]:=y)[s] = y; x[~m]=c / x[m]=y[m] as "
    "where(); y[k][m[k]] used under the selector m[k] equals where(m,y,0)[k]; x[s1][m[s2]] with literal slices "
    "enumerates x at p + start(s1) - start(s2) over the true pixels p of m in m's order whenever the code combines it "
    "elementwise with a vector gathered by m (NumPy raises otherwise); dtype conversions of a mask keep its truthiness",
    "modelled, not verified: arrays as total functions on Z*Z; determinism of NumPy/SciPy (two runs on equal data give "
    "equal bits); regional_maximum's loop summary: the structure is an abstract offset set",
]
ASSUMPTIONS = ["the Coq programs of listed_progs read the mask as a BOOLEAN array (x[mask] = boolean-mask indexing, ~mask = "
               "logical complement); integer 0/1 masks are covered by the two-run oracle and, for the functions that "
               "handle them, by intmask_handled_progs (integer-mask interpretation); the 23 functions that do not are "
               "known finding F24",
               "image and mask have the same 2-d shape; the smoothing function handed to "
               "smooth_with_function_and_mask is pure"]
EXHAUSTIVE = {"quick": False, "thorough": False}

# ------------------------------------------------------------------------------------------------ static side
# all 40 functions are translated from the source; the one construct the evaluator cannot evaluate (regional_maximum's
# loop over the structure offsets with clipped slice bounds) has a hand-written LOOP SUMMARY pinned to that loop only
HAND_TERMS = []
BINARY = ["bridge", "clean", "diag", "endpoints", "branchpoints", "fill", "fill4", "hbreak", "vbreak", "majority",
          "remove", "spur", "thicken", "thin", "skeletonize"]
LISTED = ["median_filter", "grey_erosion", "grey_dilation", "opening", "closing", "white_tophat", "black_tophat",
          "openlines", "sobel", "hsobel", "vsobel", "prewitt", "hprewitt", "vprewitt", "roberts", "canny",
          "laplacian_of_gaussian", "variance_transform", "circular_average_filter", "smooth_with_function_and_mask",
          "stretch", "fit_polynomial", "circular_hough", "convex_hull_transform", "regional_maximum"] + BINARY
# accept a mask and are implied by "every filter or morphological operation that accepts a mask" though the quantifier
# text does not name them: the masked-convolution wrapper (named in the anchors) and branchings (sibling of branchpoints)
IMPLIED = ["masked_convolution", "branchings"]
NAMED = list(LISTED)
LISTED = LISTED + IMPLIED
# accept a `mask` argument but are NOT claimed (reasons in reports/C12.md); their terms are emitted as comments only
NOT_CLAIMED = {"life": "ignores its mask argument altogether",
               "granulometry_filter": "normalises by image.max() over the whole image, like enhance_dark_holes (excluded by the property text)"}
AUTO = [n for n in LISTED if n not in HAND_TERMS]
# normalised-AST pins of the functions that have hand-written terms (and of the code those terms rely on)
PINS = {}
try:
    import json as _json
    with open(os.path.join(_TOOLS, "maskflow_pins_c12.json")) as _f:
        PINS = _json.load(_f)
except Exception:      # a missing pin file makes every hand term void (translator fails closed)
    PINS = {}


def _untranslatable():
    import gen_maskflow_c12 as G
    return G.Glob("UNTRANSLATABLE", G.Img)                     # a term the checker rejects


def build_terms(sources):
    """sources {module: text} -> (terms {name: lowered term}, rejected {...}, extra {...}, errors [text]).  Fail-closed per
    function: anything unrecognised, a pin mismatch or a missing function yields the REJECTED placeholder term (so the
    function's `_ok` obligation breaks) and an entry in errors."""
    import gen_maskflow_c12 as G
    import maskflow_hand_c12 as Hd
    M = G.Module(sources)
    M.summaries = Hd.summaries(PINS)
    terms, rejected, extra, errors = {}, {}, {}, []
    param = {}

    def attempt(name, thunk, store):
        try:
            store[name] = G.lower(thunk())
        except (G.Unsupported, KeyError, IndexError, TypeError, ValueError, AttributeError) as e:
            store[name] = _untranslatable()
            errors.append("%s: %s: %s" % (name, type(e).__name__, str(e)[:200]))

    def pins_ok(name):
        for n in [name] + Hd.ALSO_PINNED.get(name, []):
            if n not in M.funcs:
                raise G.Unsupported("function %s not found in the source" % n)
            h = G.norm_hash(M.funcs[n])
            if PINS.get(n) != h:
                raise G.Unsupported("hand-written term of %s is void: %s has hash %s, pinned %s" % (name, n, h, PINS.get(n)))

    for name in AUTO:
        attempt(name, lambda name=name: G.translate(
            M, name, callables=("function",) if name == "smooth_with_function_and_mask" else ()), terms)
    for name, builder in Hd.HAND.items():
        attempt(name, lambda name=name, builder=builder: (pins_ok(name), builder(M))[1], terms)
    for name, (fn, builder) in Hd.REJECTED.items():
        attempt(name, lambda builder=builder: builder(M), rejected)
    for name, (fn, builder) in Hd.EXTRA.items():
        attempt(name, lambda fn=fn, builder=builder: (pins_ok(fn), builder(M))[1], extra)
    for name, fn in Hd.PARAM.items():
        attempt(name, lambda fn=fn: G.translate(M, fn, struct_id=Hd.SSYM), param)
    # the same functions under the INTEGER-MASK interpretation (mask = integer array with values 0 / non-zero): an
    # obligation for the functions that handle such masks, documentation of F24 for the others
    emit.intmask = {}
    for n in LISTED:
        store = {}
        before = len(errors)
        attempt(n, lambda n=n: G.translate(M, n, callables=("function",) if n == "smooth_with_function_and_mask" else (),
                                          int_mask=True), store)
        emit.intmask[n] = store[n]
        if n in F24_FUNCS:
            del errors[before:]                      # no obligation there
        else:
            errors[before:] = [e + " (integer-mask interpretation)" for e in errors[before:]]
    emit.not_claimed = {}
    for n, why in NOT_CLAIMED.items():
        try:
            emit.not_claimed[n] = (why, G.show(G.lower(G.translate(M, n)), 300))
        except Exception as e:                      # noqa: documentation only
            emit.not_claimed[n] = (why, "untranslatable: %s" % e)
    for n in LISTED:
        if n not in terms:
            terms[n] = _untranslatable()
            errors.append("%s: no term" % n)
    extra = dict(extra)
    extra["__param__"] = param
    return terms, rejected, extra, errors


def emit(terms, rejected, extra=None):
    extra = dict(extra or {})
    param = extra.pop("__param__", {})
    import gen_maskflow_c12 as G
    em = G.Emitter()
    out = ["(* GENERATED on every run by harness/props/c12.py (tools/gen_maskflow_c12.py) from the STAGED source of",
           "   centrosome/{cpmorphology,filter,smooth}.py - do not edit.  One mask-dataflow term per listed function of C12,",
           "   with the obligation that the verified checker accepts it. *)",
           "From Coq Require Import List Bool ZArith.", "From Centro Require Import Model.MaskFlow.",
           "Import ListNotations.", ""]
    body = []
    order = [n for n in ("median_filter",) if n in terms] + [n for n in LISTED if n != "median_filter"]
    sizes = {}
    for name in list(rejected) + order + list(extra):
        t = rejected[name] if name in rejected else (extra[name] if name in extra else terms[name])
        sizes[name] = (em.dag_size(t), em.tsize(t))
        body.append("(* %s (%d DAG nodes, %d as a tree):  %s *)" % (
            name, sizes[name][0], sizes[name][1], G.show(t).replace("(*", "( *").replace("*)", "* )")))
        body.append("Definition prog_%s : prog :=\n  %s." % (name, em.prog(t)))
        if name in rejected:
            body.append("Example %s_rejected : accepts prog_%s = false.\nProof. vm_compute. reflexivity. Qed." % (name, name))
        else:
            body.append("Example %s_ok : accepts prog_%s = true.\nProof. vm_compute. reflexivity. Qed." % (name, name))
            if name in BINARY:
                body.append("Example %s_restores : restores_outside prog_%s = true.\nProof. vm_compute. reflexivity. Qed."
                            % (name, name))
        body.append("")
    import maskflow_hand_c12 as Hd
    for name, t in param.items():
        body.append("(* %s: the program of %s with a symbolic (abstract) structure s *)" % (name, Hd.PARAM[name]))
        body.append("Definition prog_%s (s : nat) : prog :=\n  %s." % (name, em.prog(t, (Hd.SSYM, "s"))))
        body.append("Lemma %s_ok : forall s, accepts (prog_%s s) = true.\nProof. intros s. unfold accepts, prog_%s. cbn. "
                    "rewrite ?PeanoNat.Nat.eqb_refl. cbn. reflexivity. Qed.\n" % (name, name, name))
    out.append("(* library symbols (index: name) *)")
    out.append("(* " + "; ".join("%d: %s" % (i, n.replace("*)", "* )")) for n, i in em.syms.items()) + " *)")
    out.append("(* constants (index: name) *)")
    out.append("(* " + "; ".join("%d: %s" % (i, n.replace("*)", "* )")) for n, i in em.consts.items()) + " *)")
    import re as _re
    used = set()
    for n, i in em.syms.items():
        ident = "sym_" + _re.sub(r"[^A-Za-z0-9]+", "_", n).strip("_")
        if ident not in used:
            used.add(ident)
            out.append("Definition %s : nat := %d." % (ident, i))
    out.append("")
    out.extend(body)
    im = getattr(emit, "intmask", {})
    if im:
        out.append("")
        out.append("(* ---- the INTEGER-MASK interpretation: the mask argument is an integer array with values 0 / non-zero, so that")
        out.append("   x[mask] is integer fancy indexing and ~mask a bitwise complement unless the code looks at truthiness.  The")
        out.append("   functions that handle such masks must be accepted under this reading too; the others are finding F24. *)")
        for name in LISTED:
            out.append("Definition prog_%s_intmask : prog :=\n  %s." % (name, em.prog(im[name])))
        handled = [n for n in LISTED if n not in F24_FUNCS]
        out.append("Definition intmask_handled_progs : list prog :=\n  [%s]." % "; ".join("prog_%s_intmask" % n for n in handled))
        out.append("Lemma intmask_handled_accepted : forallb accepts intmask_handled_progs = true.\nProof. vm_compute. reflexivity. Qed.")
        out.append("(* F24 (known finding), statically: verdicts of the checker on %s - computed, not an obligation *)"
                   % ", ".join(n for n in LISTED if n in F24_FUNCS))
        out.append("Definition f24_intmask_progs : list prog :=\n  [%s]." % "; ".join(
            "prog_%s_intmask" % n for n in LISTED if n in F24_FUNCS))
        out.append("Definition f24_static_verdicts : list bool := Eval vm_compute in map accepts f24_intmask_progs.")
    for name, why in getattr(emit, "not_claimed", {}).items():
        out.append("(* NOT CLAIMED  %s  (%s): %s *)" % (name, why[0], why[1].replace("(*", "( *").replace("*)", "* )")))
    out.append("Definition listed_progs : list prog :=\n  [%s]." % "; ".join("prog_" + n for n in LISTED))
    out.append("Definition binary_progs : list prog :=\n  [%s]." % "; ".join("prog_" + n for n in BINARY))
    out.append("Lemma listed_accepted : forallb accepts listed_progs = true.\nProof. vm_compute. reflexivity. Qed.")
    out.append("Lemma binary_restore : forallb restores_outside binary_progs = true.\nProof. vm_compute. reflexivity. Qed.")
    out.append("Lemma listed_count : (length listed_progs, length binary_progs) = (%d, %d)%%nat.\nProof. reflexivity. Qed."
               % (len(LISTED), len(BINARY)))
    return "\n".join(out) + "\n"


def gen_files(ctx):
    sources = {m: ctx.staged_source("centrosome/%s.py" % m) for m in ("cpmorphology", "filter", "smooth")}
    terms, rejected, extra, errors = build_terms(sources)
    files = {"theories/Gen/MaskProgC12.v": emit(terms, rejected, extra)}
    if errors:
        # write the file anyway (the placeholder terms break exactly the obligations of the functions concerned),
        # then report the translator failure itself
        from harness import core
        with core.CoqLock():
            for rel, content in files.items():
                core.write_if_changed(os.path.join(core.COQ, rel), content)
        raise RuntimeError("untranslatable: " + " | ".join(errors))
    return files


# ------------------------------------------------------------------------------------------------ dynamic side
def _fl(name, mod="M"):
    return name, mod


def _variants():
    """name -> list of (tag, kind, callable(mods, img, mask))"""
    V = {}

    def add(name, kind, tag, f):
        V.setdefault(name, []).append((tag, kind, f))
    for nm in "grey_erosion grey_dilation opening closing white_tophat black_tophat".split():
        add(nm, "float", "default", lambda m, a, k, nm=nm: getattr(m["M"], nm)(a, mask=k))
        add(nm, "float", "radius2", lambda m, a, k, nm=nm: getattr(m["M"], nm)(a, radius=2, mask=k))
        add(nm, "float", "radius1.5", lambda m, a, k, nm=nm: getattr(m["M"], nm)(a, radius=1.5, mask=k))
        add(nm, "float", "fp_line", lambda m, a, k, nm=nm: getattr(m["M"], nm)(a, mask=k, footprint=m["M"].strel_line(5, 45)))
        add(nm, "float", "fp_1x3", lambda m, a, k, nm=nm: getattr(m["M"], nm)(a, mask=k, footprint=np.ones((1, 3), bool)))
        add(nm, "float", "fp_5x3", lambda m, a, k, nm=nm: getattr(m["M"], nm)(a, mask=k, footprint=np.ones((5, 3), bool)))
    for nm in "grey_erosion grey_dilation opening closing white_tophat black_tophat".split():
        add(nm, "float", "fp_2x2", lambda m, a, k, nm=nm: getattr(m["M"], nm)(a, mask=k, footprint=np.ones((2, 2), bool)))
        add(nm, "float", "fp_corners", lambda m, a, k, nm=nm: getattr(m["M"], nm)(
            a, mask=k, footprint=np.array([[1, 0, 1], [0, 0, 0], [1, 0, 1]], bool)))
        add(nm, "float", "radius3.5", lambda m, a, k, nm=nm: getattr(m["M"], nm)(a, radius=3.5, mask=k))
    add("openlines", "float", "l5a45", lambda m, a, k: m["M"].openlines(a, linelength=5, dAngle=45, mask=k))
    add("openlines", "float", "l3a30", lambda m, a, k: m["M"].openlines(a, linelength=3, dAngle=30, mask=k))
    add("openlines", "float", "default", lambda m, a, k: m["M"].openlines(a, mask=k))
    for nm in "sobel hsobel vsobel prewitt hprewitt vprewitt roberts".split():
        add(nm, "float", "default", lambda m, a, k, nm=nm: getattr(m["F"], nm)(a, k))
    add("masked_convolution", "float", "k3", lambda m, a, k: m["F"].masked_convolution(
        a, np.ascontiguousarray(k, np.uint8), np.array([[1, 2, 1], [2, 4, 2], [1, 2, 1]], float) / 16))
    add("masked_convolution", "float", "k5", lambda m, a, k: m["F"].masked_convolution(
        a, np.ascontiguousarray(k, np.uint8), np.add.outer(np.arange(5.0), np.arange(5.0) * 0.5) - 2))
    add("masked_convolution", "float", "k1", lambda m, a, k: m["F"].masked_convolution(
        a, np.ascontiguousarray(k, np.uint8), np.array([[2.5]])))
    add("branchings", "bool", "default", lambda m, a, k: m["M"].branchings(a, k))
    add("canny", "float", "s1", lambda m, a, k: m["F"].canny(a, k, 1.0, 0.1, 0.2))
    add("canny", "float", "s0.5", lambda m, a, k: m["F"].canny(a, k, 0.5, 0.02, 0.05))
    add("canny", "float", "s2", lambda m, a, k: m["F"].canny(a, k, 2.0, 0.0, 0.01))
    add("canny", "float", "s1hi", lambda m, a, k: m["F"].canny(a, k, 1.0, 0.5, 0.9))
    add("circular_hough", "float", "r4n8", lambda m, a, k: m["F"].circular_hough(a, 4, nangles=8, mask=k))
    add("laplacian_of_gaussian", "float", "5,1", lambda m, a, k: m["F"].laplacian_of_gaussian(a, k, 5, 1.0))
    add("laplacian_of_gaussian", "float", "3,0.7", lambda m, a, k: m["F"].laplacian_of_gaussian(a, k, 3, 0.7))
    add("laplacian_of_gaussian", "float", "9,2", lambda m, a, k: m["F"].laplacian_of_gaussian(a, k, 9, 2.0))
    add("variance_transform", "float", "s1", lambda m, a, k: m["F"].variance_transform(a, 1.0, k))
    add("variance_transform", "float", "s2.5", lambda m, a, k: m["F"].variance_transform(a, 2.5, k))
    add("circular_average_filter", "float", "r2", lambda m, a, k: m["F"].circular_average_filter(a, 2, k))
    add("circular_average_filter", "float", "r1", lambda m, a, k: m["F"].circular_average_filter(a, 1, k))
    add("circular_average_filter", "float", "r3.3", lambda m, a, k: m["F"].circular_average_filter(a, 3.3, k))
    add("circular_average_filter", "float", "r0.6", lambda m, a, k: m["F"].circular_average_filter(a, 0.6, k))

    def _g(s):
        from scipy.ndimage import gaussian_filter, uniform_filter
        return (lambda x: gaussian_filter(x, s, mode="constant")) if s else (lambda x: uniform_filter(x, 3, mode="constant"))
    add("smooth_with_function_and_mask", "float", "gauss1", lambda m, a, k: m["S"].smooth_with_function_and_mask(a, _g(1.0), k))
    add("smooth_with_function_and_mask", "float", "gauss3", lambda m, a, k: m["S"].smooth_with_function_and_mask(a, _g(3.0), k))
    add("smooth_with_function_and_mask", "float", "box3", lambda m, a, k: m["S"].smooth_with_function_and_mask(a, _g(0), k))
    add("stretch", "float", "default", lambda m, a, k: m["F"].stretch(a, k))
    add("stretch", "int", "int", lambda m, a, k: m["F"].stretch(a, k))
    add("fit_polynomial", "float", "clip", lambda m, a, k: m["S"].fit_polynomial(a, k))
    add("fit_polynomial", "float", "noclip", lambda m, a, k: m["S"].fit_polynomial(a, k, False))
    add("fit_polynomial", "signed", "signed", lambda m, a, k: m["S"].fit_polynomial(a, k))
    add("circular_hough", "float", "r3", lambda m, a, k: m["F"].circular_hough(a, 3, mask=k))
    add("circular_hough", "float", "r1", lambda m, a, k: m["F"].circular_hough(a, 1, mask=k))
    add("circular_hough", "float", "r2n5", lambda m, a, k: m["F"].circular_hough(a, 2, nangles=5, mask=k))
    add("convex_hull_transform", "float", "default", lambda m, a, k: m["F"].convex_hull_transform(a, mask=k))
    add("convex_hull_transform", "float", "l8", lambda m, a, k: m["F"].convex_hull_transform(a, levels=8, mask=k))
    add("convex_hull_transform", "int", "int32", lambda m, a, k: m["F"].convex_hull_transform(a, levels=32, mask=k))
    add("convex_hull_transform", "float", "chunk7", lambda m, a, k: m["F"].convex_hull_transform(a, levels=20, mask=k, chunksize=7))
    add("regional_maximum", "float", "default", lambda m, a, k: m["M"].regional_maximum(a, k))
    add("regional_maximum", "float", "ties", lambda m, a, k: m["M"].regional_maximum(a, k, None, True))
    add("regional_maximum", "float", "cross", lambda m, a, k: m["M"].regional_maximum(
        a, k, np.array([[0, 1, 0], [1, 1, 1], [0, 1, 0]], bool)))
    add("regional_maximum", "float", "cross_ties", lambda m, a, k: m["M"].regional_maximum(
        a, k, np.array([[0, 1, 0], [1, 1, 1], [0, 1, 0]], bool), True))
    add("regional_maximum", "float", "5x5_ties", lambda m, a, k: m["M"].regional_maximum(a, k, np.ones((5, 5), bool), True))
    add("regional_maximum", "float", "5x5", lambda m, a, k: m["M"].regional_maximum(a, k, np.ones((5, 5), bool)))
    add("regional_maximum", "float", "asym", lambda m, a, k: m["M"].regional_maximum(
        a, k, np.array([[1, 1, 0], [0, 1, 0], [0, 0, 0]], bool)))
    add("regional_maximum", "float", "asym_ties", lambda m, a, k: m["M"].regional_maximum(
        a, k, np.array([[1, 1, 0], [0, 1, 0], [0, 0, 0]], bool), True))
    add("regional_maximum", "float", "3x5", lambda m, a, k: m["M"].regional_maximum(a, k, np.ones((3, 5), bool)))
    add("median_filter", "float", "r1", lambda m, a, k: m["F"].median_filter(a, k, 1))
    add("median_filter", "int", "r2p0", lambda m, a, k: m["F"].median_filter(a, k, 2, 0))
    add("median_filter", "int", "r4p100", lambda m, a, k: m["F"].median_filter(a, k, 4, 100))
    add("median_filter", "float", "r2", lambda m, a, k: m["F"].median_filter(a, k, 2))
    add("median_filter", "int", "r2int", lambda m, a, k: m["F"].median_filter(a, k, 2))
    add("median_filter", "int", "r3p25", lambda m, a, k: m["F"].median_filter(a, k, 3, 25))
    add("median_filter", "float", "r5p90", lambda m, a, k: m["F"].median_filter(a, k, 5, 90))
    for nm in "bridge clean diag fill fill4 majority spur thicken thin".split():
        add(nm, "bool", "default", lambda m, a, k, nm=nm: getattr(m["M"], nm)(a, k))
        add(nm, "bool", "it3", lambda m, a, k, nm=nm: getattr(m["M"], nm)(a, k, 3))
    for nm in "spur thin".split():
        add(nm, "bool", "itNone", lambda m, a, k, nm=nm: getattr(m["M"], nm)(a, k, None))
    for nm in "hbreak vbreak remove".split():
        add(nm, "bool", "default", lambda m, a, k, nm=nm: getattr(m["M"], nm)(a, k))
        add(nm, "bool", "it2", lambda m, a, k, nm=nm: getattr(m["M"], nm)(a, k, 2))
    for nm in "endpoints branchpoints".split():
        add(nm, "bool", "default", lambda m, a, k, nm=nm: getattr(m["M"], nm)(a, k))
    add("skeletonize", "bool", "default", lambda m, a, k: m["M"].skeletonize(a, k))
    add("skeletonize", "bool", "ordering", lambda m, a, k: m["M"].skeletonize(
        a, k, np.add.outer(np.arange(a.shape[0]), 2.0 * np.arange(a.shape[1])) % 5))
    return V


VARIANTS = _variants()
assert sorted(VARIANTS) == sorted(LISTED), sorted(set(LISTED) ^ set(VARIANTS))
ALT_FLOAT = ["zero", "one", "big", "negbig", "noise"]
ALT_BOOL = ["false", "true", "noise"]


def _shape(rng):
    u = rng.rand()
    if u < 0.10:
        return [(1, 1), (1, 4), (5, 1), (2, 2), (2, 3), (3, 3)][rng.randint(6)]
    if u < 0.28:
        return int(rng.randint(3, 7)), int(rng.randint(3, 7))
    if u < 0.31:                                       # long strips: block / chunk / stride logic
        n, w = int(rng.choice([70, 300, 600])), int(rng.randint(1, 6))
        return (n, w) if rng.rand() < 0.5 else (w, n)
    return int(rng.randint(5, 15)), int(rng.randint(5, 15))


def _mask(rng, H, W):
    u = rng.rand()
    if u < 0.30:
        m = rng.rand(H, W) < rng.choice([0.5, 0.8, 0.95]); cls = "random"
    elif u < 0.40:                                     # thin masks: a few lines
        m = np.zeros((H, W), bool); cls = "thin"
        for _ in range(rng.randint(1, 4)):
            if rng.rand() < 0.5:
                m[rng.randint(H), :] = True
            else:
                m[:, rng.randint(W)] = True
    elif u < 0.50:                                     # frame touching every border, hollow inside
        m = np.ones((H, W), bool); cls = "frame"
        t = rng.randint(1, 3)
        if H > 2 * t and W > 2 * t:
            m[t:-t, t:-t] = rng.rand(H - 2 * t, W - 2 * t) < 0.3
    elif u < 0.62:                                     # single-pixel holes
        m = np.ones((H, W), bool); cls = "holes"
        for _ in range(rng.randint(1, 4)):
            m[rng.randint(H), rng.randint(W)] = False
    elif u < 0.74:                                     # masked-out pixels ON the image border (corners, edge runs)
        m = np.ones((H, W), bool); cls = "border_out"
        for _ in range(rng.randint(1, 5)):
            side = rng.randint(4)
            if side < 2:
                j0 = rng.randint(W); j1 = min(W, j0 + rng.randint(1, 4))
                m[0 if side == 0 else H - 1, j0:j1] = False
            else:
                i0 = rng.randint(H); i1 = min(H, i0 + rng.randint(1, 4))
                m[i0:i1, 0 if side == 2 else W - 1] = False
        if rng.rand() < 0.4:
            m[[0, 0, H - 1, H - 1][rng.randint(4)], [0, W - 1, 0, W - 1][rng.randint(4)]] = False
    elif u < 0.84:                                     # one-pixel-wide mask regions running from the interior to the border
        m = np.zeros((H, W), bool); cls = "spokes"
        for _ in range(rng.randint(1, 4)):
            i, j = rng.randint(H), rng.randint(W)
            di, dj = [(0, 1), (1, 0), (0, -1), (-1, 0), (1, 1), (1, -1), (-1, 1), (-1, -1)][rng.randint(8)]
            while 0 <= i < H and 0 <= j < W:
                m[i, j] = True
                i, j = i + di, j + dj
    elif u < 0.87:
        m = np.zeros((H, W), bool); cls = "allfalse"
    elif u < 0.90:
        m = np.ones((H, W), bool); cls = "alltrue"
    else:                                              # blob: interior only, borders masked out
        m = np.zeros((H, W), bool); cls = "blob"
        i, j = np.mgrid[0:H, 0:W]
        ci, cj, r = rng.rand() * H, rng.rand() * W, 1 + rng.rand() * max(H, W) / 2
        m[(i - ci) ** 2 + (j - cj) ** 2 <= r * r] = True
    return m, cls


DTYPES = {"float": ["float64"] * 5 + ["float32"] * 3 + ["int32", "uint8"],
          "signed": ["float64", "float64", "float32"],
          "int": ["int64", "int64", "int32", "uint8", "uint16", "int16"],
          "bool": ["bool"] * 4 + ["uint8"]}
LAYOUTS = ["C"] * 4 + ["F", "F", "strided", "strided", "readonly"]
# functions that convert the mask themselves (so non-boolean masks are within their contract)
MASK_ANY_DTYPE = {"median_filter", "circular_average_filter", "sobel", "hsobel", "vsobel", "prewitt", "hprewitt",
                  "vprewitt", "roberts"}


# the integer-mask stream: 0/1 masks of integer dtype for EVERY listed function (and, as a separately counted class,
# masks whose truthy value is 2 or 255); mask_true only matters for the non-bool dtypes
MASK_DTYPES = ["bool"] * 7 + ["uint8", "int64", "int32"]
# known finding F24: these index with `image[mask]` / `x[~mask]` without casting the mask to bool, so an integer 0/1 mask
# becomes fancy row indexing / ~mask becomes -1, -2 (or 254, 255)
F24_FUNCS = {"smooth_with_function_and_mask", "canny", "stretch", "circular_hough", "laplacian_of_gaussian",
             "variance_transform", "convex_hull_transform", "bridge", "clean", "diag", "endpoints", "branchpoints", "fill",
             "fill4", "hbreak", "vbreak", "majority", "remove", "spur", "thicken", "thin", "skeletonize", "branchings"}


def _image(rng, kind, dtype, H, W):
    dt = np.dtype(dtype)
    if kind == "bool":
        return (rng.rand(H, W) < rng.choice([0.3, 0.6, 0.85])).astype(int)
    if dt.kind in "iu":
        if kind == "int":
            info = np.iinfo(dt)
            hi = int(rng.choice([4, 40, 256, 3000]))
            lo = -hi // 3 if (info.min < 0 and rng.rand() < 0.3) else 0
            img = rng.randint(lo, min(hi, info.max) + 1, (H, W)).astype(np.int64)
            if rng.rand() < 0.25:                          # extremes of the dtype
                for _ in range(rng.randint(1, 3)):
                    img[rng.randint(H), rng.randint(W)] = info.max if rng.rand() < 0.6 else info.min
            return img
        return rng.randint(0, 16, (H, W))                 # float-valued operation fed an integer image
    if kind == "signed":
        return (rng.randint(-8, 9, (H, W)) / 8.0)
    u = rng.rand()
    if u < 0.45:
        img = rng.randint(0, 16, (H, W)) / 16.0
    elif u < 0.85:
        img = rng.rand(H, W)
    elif u < 0.92:
        img = np.full((H, W), float(rng.randint(0, 3)) / 2)
    else:
        i, j = np.mgrid[0:H, 0:W]
        img = ((i * 3 + j * 5) % 7) / 8.0
    return img.astype(dt).astype(np.float64)              # exactly representable in the case's dtype


def make_case(rng, fn, vi):
    tag, kind, _ = VARIANTS[fn][vi]
    H, W = _shape(rng)
    m, cls = _mask(rng, H, W)
    dtype = str(rng.choice(DTYPES[kind]))
    dt = np.dtype(dtype)
    img = _image(rng, kind, dtype, H, W)
    n_out = int((~m).sum())
    alts = []
    if kind == "bool":
        names = ALT_BOOL
    elif dt.kind == "f":
        names = ALT_FLOAT + ["inf", "nan"]
    else:
        names = ALT_FLOAT
    for a in names:
        if a == "noise":
            if kind == "bool":
                v = (rng.rand(n_out) < 0.5).astype(int).tolist()
            elif dt.kind in "iu":
                v = rng.randint(0, min(300, np.iinfo(dt).max) + 1, n_out).tolist()
            else:
                v = rng.rand(n_out).astype(dt).astype(np.float64).tolist()
        else:
            if dt.kind in "iu" and kind != "bool":
                c = {"zero": 0, "one": 1, "big": int(np.iinfo(dt).max), "negbig": int(np.iinfo(dt).min)}[a]
            else:
                c = {"zero": 0, "one": 1, "big": 1000, "negbig": -1000, "false": 0, "true": 1,
                     "inf": float("inf"), "nan": float("nan")}[a]
            v = [c] * n_out
        alts.append({"kind": a, "vals": v})
    return {"fn": fn, "variant": vi, "tag": tag, "kind": kind, "mask_class": cls, "img": img.tolist(),
            "mask": m.astype(int).tolist(), "alts": alts, "dtype": dtype,
            "mask_dtype": str(rng.choice(MASK_DTYPES)), "mask_true": int(rng.choice([1] * 8 + [2, 255])),
            "layout": str(rng.choice(LAYOUTS)), "mask_layout": str(rng.choice(LAYOUTS))}


# ---- reference models of the SciPy symbols whose locality the table trusts (Model/MaskRef.v), run against SciPy
REF_OPS = ["correlate", "convolve", "binary_erosion", "binary_dilation", "grey_erosion", "grey_dilation"]


def make_ref_case(rng, op=None):
    op = op or REF_OPS[rng.randint(len(REF_OPS))]
    H, W = int(rng.randint(1, 9)), int(rng.randint(1, 9))
    kh, kw = int(rng.choice([1, 3, 3, 3, 5])), int(rng.choice([1, 3, 3, 3, 5]))
    if op in ("correlate", "convolve"):
        img = rng.randint(-9, 10, (H, W))
        ker = rng.randint(-3, 4, (kh, kw))
        if rng.rand() < 0.3:                               # the kernels of the code
            ker = np.array([[[1, 2, 1], [0, 0, 0], [-1, -2, -1]], [[1, 0, -1], [2, 0, -2], [1, 0, -1]],
                            [[1, 1, 1], [0, 0, 0], [-1, -1, -1]], [[1, 0, -1], [1, 0, -1], [1, 0, -1]]][rng.randint(4)])
        mode, cval = (("constant", int(rng.randint(-2, 3))) if rng.rand() < 0.4 else ("reflect", 0))
    else:
        ker = (rng.rand(kh, kw) < 0.7).astype(int)
        if rng.rand() < 0.4:
            ker = np.ones((3, 3), int)
        if not ker.any():
            ker[kh // 2, kw // 2] = 1
        if op.startswith("binary"):
            img = (rng.rand(H, W) < 0.75).astype(int)
            mode, cval = "constant", 0                    # border_value=0
        else:
            img = rng.randint(0, 20, (H, W))
            mode, cval = "reflect", 0
    return {"fn": "__ref__", "op": op, "img": img.tolist(), "ker": np.asarray(ker).tolist(), "mode": mode, "cval": cval,
            "tag": op, "mask_class": "ref", "kind": "ref"}


def _ref_impl(case):
    import scipy.ndimage as nd
    img = np.array(case["img"], dtype=np.int64)
    ker = np.array(case["ker"], dtype=np.int64)
    op = case["op"]
    if op == "correlate":
        r = nd.correlate(img, ker, mode=case["mode"], cval=case["cval"])
    elif op == "convolve":
        r = nd.convolve(img, ker, mode=case["mode"], cval=case["cval"])
    elif op == "binary_erosion":
        r = nd.binary_erosion(img.astype(bool), ker.astype(bool), border_value=0)
    elif op == "binary_dilation":
        r = nd.binary_dilation(img.astype(bool), ker.astype(bool), border_value=0)
    elif op == "grey_erosion":
        r = nd.grey_erosion(img, footprint=ker.astype(bool))
    else:
        r = nd.grey_dilation(img, footprint=ker.astype(bool))
    return {"ref": np.asarray(r).astype(np.int64).tolist()}


def _ref_arg(case):
    """wire argument of Model.MaskRef.entry_ref: (op grid offsets weights mode cval)"""
    ker = np.array(case["ker"], dtype=np.int64)
    ch, cw = ker.shape[0] // 2, ker.shape[1] // 2
    op = case["op"]
    flip = op in ("convolve", "binary_dilation", "grey_dilation")          # these read a(p - d)
    ds, ws = [], []
    for i in range(ker.shape[0]):
        for j in range(ker.shape[1]):
            if op in ("correlate", "convolve") or ker[i, j]:
                d = (i - ch, j - cw)
                ds.append([-d[0], -d[1]] if flip else [d[0], d[1]])
                ws.append(int(ker[i, j]))
    code = {"correlate": 0, "convolve": 0, "binary_erosion": 1, "binary_dilation": 2, "grey_erosion": 3, "grey_dilation": 4}[op]
    return [code, case["img"], ds, ws, 0 if case["mode"] == "constant" else 1, case["cval"]]


def model(ctx, cases, outs):
    idx = [k for k, c in enumerate(cases) if c.get("fn") == "__ref__"]
    res = [None] * len(cases)
    if idx:
        for k, r in zip(idx, ctx.run_model("entry_ref", [_ref_arg(cases[k]) for k in idx])):
            res[k] = r
    return res


def compare(case, out, mout):
    if case.get("fn") != "__ref__":
        return None
    if not isinstance(out, dict) or "ref" not in out:
        return "SciPy reference call failed: %s" % (str(out)[:200],)
    if mout != out["ref"]:
        return "scipy.ndimage.%s differs from Model.MaskRef (%s border): scipy %s model %s" % (
            case["op"], case["mode"], str(out["ref"])[:160], str(mout)[:160])
    return None


def _corpus():
    import json
    d = os.path.join(os.path.dirname(_TOOLS), "corpus", "C12")
    res = []
    if os.path.isdir(d):
        for f in sorted(os.listdir(d)):
            if f.endswith(".json"):
                with open(os.path.join(d, f)) as fh:
                    x = json.load(fh)
                res.extend(x if isinstance(x, list) else [x])
    return res


def generate(ctx):
    cases = _corpus()
    for c in cases:
        ctx.count("corpus")
    for k in range(ctx.n(240, 3000)):
        cases.append(make_ref_case(ctx.rng, REF_OPS[k % len(REF_OPS)]))
        ctx.count("ref:" + cases[-1]["op"])
    per = ctx.n(60, 400)
    for fn in LISTED:
        nv = len(VARIANTS[fn])
        for k in range(per):
            c = make_case(ctx.rng, fn, k % nv)
            cases.append(c)
            ctx.count("mask:" + c["mask_class"])
            ctx.count("dtype:" + c["dtype"])
            ctx.count("layout:" + c["layout"] + "/" + c["mask_layout"])
            if c["mask_dtype"] != "bool":
                ctx.count("mask_dtype:" + c["mask_dtype"])
                ctx.count("int_mask_truthy_value:%d" % c["mask_true"])
            hh, ww = len(c["img"]), len(c["img"][0])
            ctx.count("shape:" + ("strip" if max(hh, ww) >= 70 else "tiny" if min(hh, ww) <= 3 else "small"))
    return cases


def _layout(a, layout):
    """the same values in the requested memory layout (fresh array every time)"""
    if layout == "F":
        return np.asfortranarray(a)
    if layout == "strided":
        big = np.zeros((a.shape[0] * 2 + 1, a.shape[1] * 3 + 2), a.dtype)
        v = big[1::2, 2::3][: a.shape[0], : a.shape[1]]
        v[...] = a
        return v
    a = np.array(a, order="C")
    if layout == "readonly":
        a.setflags(write=False)
    return a


def _arr(case, img):
    """image values as an array of the case's dtype (C order; _layout is applied per run)"""
    kind = case["kind"]
    dtype = case.get("dtype") or {"bool": "bool", "int": "int64"}.get(kind, "float64")
    if dtype == "bool":
        return np.array(img, dtype=int).astype(bool)
    if np.dtype(dtype).kind in "iu":
        return np.array(img, dtype=np.int64).astype(dtype)
    return np.array(img, dtype=np.float64).astype(dtype)


def canon(x):
    x = np.asarray(x)
    if x.dtype == bool or np.issubdtype(x.dtype, np.integer):
        return x.astype(np.int64).ravel().tolist(), list(x.shape)
    y = np.array(x, dtype=np.float64) + 0.0                    # -0.0 -> +0.0
    y[np.isnan(y)] = np.nan                                    # one NaN pattern
    return y.view(np.int64).ravel().tolist(), list(x.shape)


_MODS = {}


def _mods():
    if not _MODS:
        import centrosome.cpmorphology as M
        import centrosome.filter as F
        import centrosome.smooth as S
        _MODS.update({"M": M, "F": F, "S": S})
    return _MODS


def _mask_array(case, mask):
    dt = case.get("mask_dtype", "bool")
    if dt == "bool":
        return mask
    return mask.astype(dt) * np.array(case.get("mask_true", 1)).astype(dt)


def _run(f, case, img, mask):
    try:
        a = _layout(img, case.get("layout", "C"))
        k = _layout(_mask_array(case, mask), case.get("mask_layout", "C"))
        return {"out": canon(f(_mods(), a, k))}
    except Exception as e:                                     # noqa
        return {"exc": type(e).__name__, "msg": str(e)[:200]}


def _variant(case):
    """variants are addressed by tag (the index only breaks ties), so stored cases survive added variants"""
    vs = VARIANTS[case["fn"]]
    for v in vs:
        if v[0] == case.get("tag"):
            return v
    return vs[case["variant"]]


def _runs(case, f, img, mask):
    base = _run(f, case, img, mask)
    res = {"base": base, "alts": [], "inputs": []}
    for a in case["alts"]:
        img2 = img.copy()
        img2[~mask] = np.array(a["vals"], dtype=np.float64 if img.dtype.kind == "f" else np.int64).astype(img.dtype)
        res["alts"].append(_run(f, case, img2, mask))
        res["inputs"].append(canon(img2)[0])
    res["input0"] = canon(img)[0]
    res["base_again"] = _run(f, case, img, mask)               # same call after the others: no state kept between calls
    return res


def impl(case):
    if case.get("fn") == "__ref__":
        return _ref_impl(case)
    f = _variant(case)[2]
    mask = np.array(case["mask"], dtype=int).astype(bool)
    img = _arr(case, case["img"])
    res = _runs(case, f, img, mask)
    if case.get("mask_dtype", "bool") != "bool":
        # control for the attribution of F24: the very same calls with mask.astype(bool)
        res["control"] = _runs(dict(case, mask_dtype="bool"), f, img, mask)
    return res


def _bad(o):
    return (not isinstance(o, dict)) or "crash" in o or ("exc" in o and "base" not in o)


def check(ctx, cases, outs):
    res = [None] * len(cases)
    jobs_in, jobs_out = [], []
    for k, (c, o) in enumerate(zip(cases, outs)):
        if c.get("fn") == "__ref__":
            continue                                   # reference-model correspondence: judged by compare()
        if _bad(o):
            res[k] = "implementation raised/crashed: %s" % (str(o)[:300],)
            continue
        mflat = [v for row in c["mask"] for v in row]
        base = o["base"]
        runs = [(None, base, o["input0"])] + [(a["kind"], r, i) for a, r, i in zip(c["alts"], o["alts"], o["inputs"])]
        for kind, r, _ in runs[1:]:
            if ("exc" in base) != ("exc" in r) or ("exc" in base and base["exc"] != r["exc"]):
                res[k] = "%s: base run %s but run with masked-out pixels := %s %s" % (
                    c["fn"], "raised " + base["exc"] if "exc" in base else "returned", kind,
                    "raised " + r["exc"] if "exc" in r else "returned")
        again = o.get("base_again")
        if again is not None and again != base and not res[k]:
            res[k] = "%s[%s]: the same call repeated after other calls in the process returns a different result" % (
                c["fn"], c["tag"])
        if res[k] or "exc" in base:
            continue
        for kind, r, inp in runs:
            vals, shape = r["out"]
            same_shape = shape == [len(c["mask"]), len(c["mask"][0])]
            if kind is not None:
                if same_shape and base["out"][1] == shape:
                    jobs_in.append((k, kind, [mflat, base["out"][0], vals]))
                elif base["out"] != r["out"]:
                    res[k] = "%s: output of a different shape than the mask changes with masked-out pixels := %s" % (c["fn"], kind)
            if c["fn"] in BINARY:
                if not same_shape:
                    res[k] = "%s: binary operation returned shape %s" % (c["fn"], shape)
                else:
                    jobs_out.append((k, kind or "base", [mflat, vals, inp]))
    if jobs_in:
        for (k, kind, _), r in zip(jobs_in, ctx.run_model("entry_agree_in", [j[2] for j in jobs_in])):
            if r != 1 and not res[k]:
                res[k] = "%s[%s]: output INSIDE the mask changes when masked-out pixels := %s (Spec.MaskCheck.agree_in false)" % (
                    cases[k]["fn"], cases[k]["tag"], kind)
    if jobs_out:
        for (k, kind, _), r in zip(jobs_out, ctx.run_model("entry_agree_out", [j[2] for j in jobs_out])):
            if r != 1 and not res[k]:
                res[k] = "%s[%s]: output OUTSIDE the mask differs from the input (run %s; Spec.MaskCheck.agree_out false)" % (
                    cases[k]["fn"], cases[k]["tag"], kind)
    return res


def attribute(ctx, case, out, clause):
    """F24 (known): a two-run leak / unrestored outside pixel / exception with a mask of NON-BOOL INTEGER dtype, in a function
    of F24_FUNCS, when the very same calls with mask.astype(bool) pass the check.  Anything else stays a violation."""
    if case.get("fn") not in F24_FUNCS or case.get("mask_dtype", "bool") == "bool":
        return None
    if not isinstance(out, dict) or "control" not in out:
        return None
    c2 = dict(case, mask_dtype="bool")
    if check(ctx, [c2], [out["control"]])[0] is not None:
        return None                                   # it also fails with a boolean mask: not F24
    return "F24"


def reproduce_finding(ctx, finding):
    case = finding["witness"]
    o = ctx.run_impl([case])[0]
    v = check(ctx, [case], [o])[0]
    return bool(v) and attribute(ctx, case, o, v) == finding["id"]


def nontrivial(case, out):
    if case.get("fn") == "__ref__":
        return isinstance(out, dict) and "ref" in out and len({v for row in out["ref"] for v in row}) > 1
    m = np.array(case["mask"], bool)
    if m.all() or not m.any() or _bad(out) or "exc" in out["base"]:
        return False
    if not any(i != out["input0"] for i in out["inputs"]):
        return False
    vals, shape = out["base"]["out"]
    if shape != list(m.shape):
        return True
    inside = np.array(vals).reshape(m.shape)[m]
    return len(set(inside.tolist())) > 1


def kernel_crosscheck(ctx, cases, outs):
    args, exp = [], []
    for c, o in zip(cases, outs):
        if c.get("fn") == "__ref__":
            continue
        if len(args) >= 40 or _bad(o) or "exc" in o["base"] or len(c["mask"]) * len(c["mask"][0]) > 36:
            continue
        mflat = [v for row in c["mask"] for v in row]
        r = o["alts"][-1]
        if "exc" in r or r["out"][1] != o["base"]["out"][1] or len(r["out"][0]) != len(mflat):
            continue
        a, b = o["base"]["out"][0], r["out"][0]
        args.append([mflat, a, b])
        exp.append(1 if all((not mk) or x == y for mk, x, y in zip(mflat, a, b)) else 0)
    # add negative cases so that both verdicts are exercised
    for k in range(min(10, len(args))):
        m, a, b = args[k]
        if any(m):
            j = m.index(1)
            b2 = list(b); b2[j] = b2[j] + 1
            args.append([m, a, b2]); exp.append(0)
    r = ctx.coq_eval_eq("Spec.MaskCheck", "entry_agree_in", args, exp, tag="agree")
    bad = [k for k, b in enumerate(r) if b is not True]
    if bad:
        return "vm_compute evaluation of Spec.MaskCheck.entry_agree_in differs from the expected verdict on sub-case %d" % bad[0], len(args)
    # the reference models of the SciPy symbols, evaluated by the kernel against SciPy's own output
    rc = [(c, o) for c, o in zip(cases, outs) if c.get("fn") == "__ref__" and isinstance(o, dict) and "ref" in o
          and len(c["img"]) * len(c["img"][0]) <= 30][:24]
    r2 = ctx.coq_eval_eq("Model.MaskRef", "entry_ref", [_ref_arg(c) for c, _ in rc], [o["ref"] for _, o in rc], tag="ref")
    bad = [k for k, b in enumerate(r2) if b is not True]
    if bad:
        return "vm_compute evaluation of Model.MaskRef.entry_ref differs from SciPy on %s" % rc[bad[0]][0]["op"], len(args) + len(rc)
    return None, len(args) + len(rc)


def search_cases(ctx, rnd):
    cases = []
    for fn in LISTED:
        nv = len(VARIANTS[fn])
        for k in range(12):
            cases.append(make_case(ctx.rng, fn, (k + rnd) % nv))
    return cases


def shrink_candidates(case):
    if case.get("fn") == "__ref__":
        return
    img, mask = case["img"], case["mask"]
    H, W = len(img), len(img[0])
    m = np.array(mask, bool)

    def rebuild(rows, cols, alts_keep=None):
        mm = m[np.ix_(rows, cols)]
        keep = (~m)[np.ix_(rows, cols)]
        c = dict(case)
        c["img"] = np.array(img)[np.ix_(rows, cols)].tolist()
        c["mask"] = mm.astype(int).tolist()
        pos = np.cumsum((~m).ravel()).reshape(H, W) - 1          # index of each masked-out pixel in vals
        idx = pos[np.ix_(rows, cols)][keep]
        c["alts"] = [{"kind": a["kind"], "vals": [a["vals"][int(t)] for t in idx]} for a in case["alts"]
                     if alts_keep is None or a["kind"] in alts_keep]
        return c
    rows, cols = list(range(H)), list(range(W))
    if len(case["alts"]) > 1:
        for a in case["alts"]:
            yield rebuild(rows, cols, [a["kind"]])
    if H > 1:
        yield rebuild(rows[: H // 2 + 1], cols); yield rebuild(rows[H // 2:], cols)
        for r in range(H):
            yield rebuild(rows[:r] + rows[r + 1:], cols)
    if W > 1:
        yield rebuild(rows, cols[: W // 2 + 1]); yield rebuild(rows, cols[W // 2:])
        for q in range(W):
            yield rebuild(rows, cols[:q] + cols[q + 1:])


MANIFEST = {
    "level_text": (
        "Machine-checked proof (Coq 8.16): a mask-dataflow language (programs with shared definitions; pointwise / "
        "radius-local / footprint-local / pure library symbols, mask erosion, select-by-mask, the concrete masked-"
        "convolution kernel) with a dependence checker proved sound for EVERY interpretation of the library symbols that "
        "respects the declared locality: an accepted program is non-interfering inside the mask, a program ending every "
        "path in `result[~mask] = image[~mask]` returns its input outside. On every run a fail-closed symbolic evaluator "
        "translates the staged source of all 42 masked operations (the 40 the property names, masked_convolution, "
        "branchings) into such programs - no hand-written term; one loop of regional_maximum has a hand-written summary "
        "pinned to that loop - and the kernel re-checks that every program is accepted (and that the 15 binary "
        "operations restore), incl. regional_maximum for every structure. The locality the table assumes of "
        "scipy.ndimage correlate/convolve and binary/grey erosion/dilation is proved for executable reference models "
        "(radius = footprint extent, constant and reflect borders) that are compared with SciPy on every run. "
        "Dynamically every function and optional-parameter variant is run on (img, mask) and on images differing outside "
        "the mask; outputs are compared bit for bit inside the mask (binary family: also outside against the input) "
        "through the extracted verified checker."),
    "level_note": (
        "Trusted: Coq kernel + vm_compute; the symbolic evaluator, its NumPy identities and the one loop summary; the "
        "locality table of NumPy/SciPy symbols (the theorems quantify over all interpretations satisfying it; for "
        "correlate/convolve and erosion/dilation it is additionally tied to reference models checked against SciPy); "
        "extraction (ExtrOcamlBasic only). The tie between programs and code is by translation, not a proof about Python. "
        "Known finding F24: with 0/1 masks of integer dtype 23 of the listed functions index with the mask without casting "
        "it to bool and leak / do not restore / raise; such failures are attributed (function in the list, non-bool integer "
        "mask, the same calls with mask.astype(bool) pass) and reported as KNOWN-FINDING, everything else is a violation; the "
        "main theorems read the mask as a boolean array, C12_integer_masks_handled covers the other 19 functions under the "
        "integer-mask reading."),
    "technique": "Coq proof of a dataflow checker + per-run AST translation of the source + two-run differential oracle",
    "design_ref": "DESIGN.md section 7, C12",
}
