"""C09 - the Kalman step equals the textbook filter per feature over any track history."""
import ast
import json
import os
from concurrent.futures import ThreadPoolExecutor
from fractions import Fraction as Fr

import numpy as np

ID = "C09"
PROPS_FILE = "theories/Props/C09.v"
EXTRACT = ("theories/Extract/XC09.v", "c09",
           ["entry_run", "entry_spec_run", "entry_abs_run", "entry_run_abs", "entry_run_lite", "entry_models", "entry_alg"])
PYX = {}
CASE_TIMEOUT = 60
TOL = 1e-9
RULE = ("random track histories of 2-16 frames (quick: 110, thorough: 700) on the velocity, reverse-velocity and static "
        "models and on custom KalmanState(om, tm) objects (1-D constant velocity obs_len 1, 3-D static obs_len 3, a "
        "scaled/partly hidden model, float-matrix velocity), 0-7 features per frame (thorough 0-12); every frame draws a "
        "pattern (random keep/permute/drop/add, empty, all-new, identity, reversal, rotation, single survivor, drop only "
        "trailing / leading / middle, drop-and-re-add in place); 60 % of the histories vary the argument forms per call "
        "(old_indices int8..int64/intp/uint8..64/list/tuple/strided/read-only, coordinates float64/32/16/int64/Fortran/"
        "strided/read-only, q and r float64/32/int64/Fortran/strided/read-only/np.broadcast_to; exact conversions only); a "
        "fifth run as `multi` cases (2-4 independent states interleaved in one process, forks continuing from a shared "
        "state object; every other live state byte-compared around each call); large frames (quick 12x40 and 3x300 "
        "features, thorough up to 32x300 and 40x160); data dyadic (multiples of 1/4, 1/64 or integers; q = B B^T/d + I so "
        "SPD with condition number < 10^3 - counted as excluded otherwise), 5 % short histories of arbitrary doubles; a "
        "track restarts in place as a new feature after 6-9 frames (counted +age_capped: exact rationals of an old track and "
        "of the variance over its history grow to thousands of bits); plus direct cases for dot_n (three broadcast forms), "
        "inv_n/det_n/cofactor_n (sizes 1-4, |det| >= 1/8), parity and permutations (all permutations of <= 5 elements). "
        "Each history is replayed once through the batched Gallina model, whose per-feature abstraction is the "
        "specification (theorem C09_fresh_refines_trace; re-checked against the separately extracted specification on "
        "every 8th history); integers (state_noise_idx, shapes, dtypes) and copied values (new-feature initialisation, "
        "carried history rows) are compared exactly, computed rationals against floats at |impl - model| <= 1e-9 * "
        "max(1, max|model array|).  non-trivial = some frame keeps >= 2 features in non-identity order or with a drop, "
        "after >= 1 earlier update (history renumbering exercised); distinct by hash of the case")
TRUSTED = ["modelled, not verified: IEEE rounding of the float implementation (model is exact over Q; compared at "
           "relative tolerance 1e-9 on well-conditioned inputs)",
           "modelled, not verified: NumPy fancy indexing / boolean masks / vstack, scipy.ndimage.variance "
           "(population variance per label) as transcribed",
           "parity() is modelled by inversion counting (proved: the sign; equal to the cycle-counting algorithm as written "
           "for n <= 5), permutations() by structural lexicographic enumeration; both tied to the code by exact comparison "
           "on every permutation of up to 5 elements",
           "the executable model uses shortcut operations for operands 0 and 1 (proved equal to the Qc field operations)",
           "translator harness/props/c09.py:gen_files (LARGE/SMALL_KALMAN_COV and the three motion models' matrices: "
           "values obtained by evaluating the staged module, cross-checked by a whitelisting symbolic evaluation of "
           "the definitions' AST)"]
ASSUMPTIONS = ["old_indices entries are -1 or valid, pairwise distinct indices into the previous frame's features",
               "q, r symmetric positive definite with condition number <= 10^3; innovation covariance invertible",
               "coordinates, q, r have one entry per feature of the frame"]
EXHAUSTIVE = {"quick": False, "thorough": False}

MODELS = ["velocity", "reverse_velocity", "static"]
# the documented motion models (docstrings of the three *_kalman_model functions)
DOC = {
    "velocity": ([[1, 0, 0, 0], [0, 1, 0, 0]], [[1, 0, 1, 0], [0, 1, 0, 1], [0, 0, 1, 0], [0, 0, 0, 1]]),
    "reverse_velocity": ([[1, 0, 0, 0], [0, 1, 0, 0]], [[1, 0, -1, 0], [0, 1, 0, -1], [0, 0, 1, 0], [0, 0, 0, 1]]),
    "static": ([[1, 0], [0, 1]], [[1, 0], [0, 1]]),
}


# ------------------------------------------------------------------------------- translator
# Gen/ConstsC09.v holds LARGE/SMALL_KALMAN_COV and the matrices of the three motion models.  The values are
# taken from the STAGED code by evaluating it (import the staged module, call the three *_kalman_model
# functions), so any behaviour-preserving rewrite of those definitions (reformatted literals, named temporaries,
# np.eye vs literal, helper functions) yields the same file.  Independently the definitions are evaluated
# symbolically from the AST by a small whitelisting interpreter; where that interpreter understands the source it
# must agree with the runtime values (a disagreement means the values depend on something other than the
# definitions: fail closed); where it does not, the runtime values stand and the fact is noted.

_RUNTIME = r'''
import json, fractions
import numpy as np
import centrosome.filter as F
def fr(x):
    if isinstance(x, bool) or not isinstance(x, (int, float, np.integer, np.floating)):
        raise TypeError("not a real number: %r" % (x,))
    f = fractions.Fraction(float(x)) if isinstance(x, (float, np.floating)) else fractions.Fraction(int(x))
    return [str(f.numerator), str(f.denominator)]
def mat(a):
    a = np.asarray(a)
    if a.ndim != 2 or a.size == 0 or not np.all(np.isfinite(a.astype(float))):
        raise ValueError("model matrix is not a finite 2-D array")
    return [[fr(x) for x in row] for row in a.tolist()]
out = {"consts": {k: fr(getattr(F, k)) for k in ("LARGE_KALMAN_COV", "SMALL_KALMAN_COV")}, "models": {}}
for m in ("velocity", "reverse_velocity", "static"):
    ks = getattr(F, m + "_kalman_model")()
    if not isinstance(ks, F.KalmanState):
        raise TypeError(m + "_kalman_model does not return a KalmanState")
    if len(ks.state_vec) or len(ks.state_noise_idx):
        raise ValueError(m + "_kalman_model returns a non-empty state")
    out["models"][m] = [mat(ks.observation_matrix), mat(ks.translation_matrix)]
print(json.dumps(out))
'''


class _Unsupported(Exception):
    pass


def _sym_eval(node, env):
    """symbolic evaluation of a whitelisted expression; matrices are numpy float arrays"""
    if isinstance(node, ast.Constant) and isinstance(node.value, (int, float)) and not isinstance(node.value, bool):
        return node.value
    if isinstance(node, (ast.List, ast.Tuple)):
        return [_sym_eval(e, env) for e in node.elts]
    if isinstance(node, ast.Name):
        if node.id in env:
            return env[node.id]
        raise _Unsupported("name " + node.id)
    if isinstance(node, ast.UnaryOp) and isinstance(node.op, (ast.USub, ast.UAdd)):
        v = np.asarray(_sym_eval(node.operand, env), float)
        return -v if isinstance(node.op, ast.USub) else v
    if isinstance(node, ast.BinOp) and isinstance(node.op, (ast.Add, ast.Sub, ast.Mult, ast.Div)):
        a = np.asarray(_sym_eval(node.left, env), float)
        b = np.asarray(_sym_eval(node.right, env), float)
        return {ast.Add: np.add, ast.Sub: np.subtract, ast.Mult: np.multiply, ast.Div: np.divide}[type(node.op)](a, b)
    if isinstance(node, ast.Attribute) and node.attr == "T":
        return np.asarray(_sym_eval(node.value, env), float).T
    if isinstance(node, ast.Call):
        f = node.func
        if isinstance(f, ast.Attribute) and isinstance(f.value, ast.Name) and f.value.id in ("np", "numpy"):
            args = [_sym_eval(a, env) for a in node.args]
            for k in node.keywords:
                if k.arg != "dtype":
                    raise _Unsupported("keyword " + str(k.arg))
            if f.attr in ("array", "asarray", "asanyarray") and len(args) == 1:
                return np.array(args[0], float)
            if f.attr in ("eye", "identity") and len(args) == 1:
                return np.eye(int(args[0]))
            if f.attr in ("zeros", "ones") and len(args) == 1:
                return getattr(np, f.attr)(tuple(int(x) for x in np.atleast_1d(args[0])))
            if f.attr == "diag" and len(args) == 1:
                return np.diag(np.asarray(args[0], float))
            raise _Unsupported("np." + f.attr)
        if isinstance(f, ast.Attribute) and f.attr in ("astype", "copy", "transpose") and not node.keywords:
            v = np.asarray(_sym_eval(f.value, env), float)
            if f.attr == "transpose":
                if node.args:
                    raise _Unsupported("transpose with axes")
                return v.T
            return v
        if isinstance(f, ast.Name) and f.id == "KalmanState":
            names = ["observation_matrix", "translation_matrix"]
            got = {}
            for n, a in zip(names, node.args):
                got[n] = a
            if len(node.args) > 2:
                raise _Unsupported("KalmanState with state arguments")
            for k in node.keywords:
                if k.arg not in names or k.arg in got:
                    raise _Unsupported("KalmanState keyword " + str(k.arg))
                got[k.arg] = k.value
            if set(got) != set(names):
                raise _Unsupported("KalmanState arguments")
            return ("KalmanState", np.asarray(_sym_eval(got[names[0]], env), float),
                    np.asarray(_sym_eval(got[names[1]], env), float))
        raise _Unsupported("call")
    raise _Unsupported(type(node).__name__)


def _sym_function(fn, genv):
    env = dict(genv)
    for st in fn.body:
        if isinstance(st, ast.Expr) and isinstance(st.value, ast.Constant):
            continue                                    # docstring
        if isinstance(st, ast.Assign) and len(st.targets) == 1 and isinstance(st.targets[0], ast.Name):
            env[st.targets[0].id] = _sym_eval(st.value, env)
            continue
        if isinstance(st, ast.Return) and st.value is not None:
            v = _sym_eval(st.value, env)
            if isinstance(v, tuple) and v and v[0] == "KalmanState":
                return v[1], v[2]
            raise _Unsupported("return value")
        raise _Unsupported(type(st).__name__)
    raise _Unsupported("no return")


def symbolic(src):
    """{'consts': {...}, 'models': {...}} for whatever the whitelisting interpreter understands"""
    tree = ast.parse(src)
    genv, res = {}, {"consts": {}, "models": {}, "skipped": []}
    for st in tree.body:
        if isinstance(st, ast.Assign) and len(st.targets) == 1 and isinstance(st.targets[0], ast.Name):
            try:
                v = _sym_eval(st.value, genv)
            except _Unsupported:
                genv.pop(st.targets[0].id, None)
                continue
            except Exception:
                genv.pop(st.targets[0].id, None)
                continue
            genv[st.targets[0].id] = v
    for k in ("LARGE_KALMAN_COV", "SMALL_KALMAN_COV"):
        if k in genv and np.ndim(genv[k]) == 0:
            res["consts"][k] = Fr(float(genv[k])) if isinstance(genv[k], float) else Fr(genv[k])
        else:
            res["skipped"].append(k)
    for st in tree.body:
        if isinstance(st, ast.FunctionDef) and st.name in [m + "_kalman_model" for m in MODELS]:
            m = st.name[:-len("_kalman_model")]
            try:
                om, tm = _sym_function(st, genv)
                res["models"][m] = ([[Fr(float(x)) for x in r] for r in np.atleast_2d(om).tolist()],
                                    [[Fr(float(x)) for x in r] for r in np.atleast_2d(tm).tolist()])
            except _Unsupported as e:
                res["skipped"].append("%s (%s)" % (m, e))
            except Exception as e:
                res["skipped"].append("%s (%s: %s)" % (m, type(e).__name__, e))
    return res


def _coq_q(f):
    return "(Q2Qc (%s # %d))" % (("%d" % f.numerator) if f.numerator >= 0 else "(%d)" % f.numerator, f.denominator)


def _coq_zmat(m):
    for r in m:
        for e in r:
            if e.denominator != 1:
                raise ValueError("C09 translator: non-integer model matrix entry %s" % e)
    if not m or len(set(map(len, m))) != 1:
        raise ValueError("C09 translator: ragged model matrix")
    return "[" + "; ".join("[" + "; ".join(("%d" % e) if e >= 0 else "(%d)" % e for e in r) + "]" for r in m) + "]"


def render(consts, models):
    out = ["(* GENERATED by harness/props/c09.py from the staged centrosome/filter.py - do not edit. *)",
           "From Coq Require Import ZArith List QArith Qcanon.", "Import ListNotations.", "Open Scope Z_scope.", ""]
    for k in ("LARGE_KALMAN_COV", "SMALL_KALMAN_COV"):
        out.append("Definition %s : Qc := %s." % (k, _coq_q(consts[k])))
    for m in MODELS:
        out.append("Definition %s_om : list (list Z) := %s." % (m, _coq_zmat(models[m][0])))
        out.append("Definition %s_tm : list (list Z) := %s." % (m, _coq_zmat(models[m][1])))
    return "\n".join(out) + "\n"


def translate(runtime_json, src, note=None):
    rt = json.loads(runtime_json)
    consts = {k: Fr(int(v[0]), int(v[1])) for k, v in rt["consts"].items()}
    models = {m: tuple([[Fr(int(x[0]), int(x[1])) for x in r] for r in mat] for mat in mats)
              for m, mats in rt["models"].items()}
    if set(consts) != {"LARGE_KALMAN_COV", "SMALL_KALMAN_COV"} or set(models) != set(MODELS):
        raise ValueError("C09 translator: constants or model functions not found")
    sym = symbolic(src)
    for k, v in sym["consts"].items():
        if v != consts[k]:
            raise ValueError("C09 translator: %s is %s in the source text but %s at run time" % (k, v, consts[k]))
    for m, (om, tm) in sym["models"].items():
        if (om, tm) != (models[m][0], models[m][1]):
            raise ValueError("C09 translator: %s model matrices differ between source text and run time" % m)
    if sym["skipped"] and note:
        note("C09 translator: not evaluated symbolically (run-time values used): " + "; ".join(sym["skipped"]))
    return render(consts, models)


def gen_files(ctx):
    rt = ctx.run_staged_python(_RUNTIME, timeout=120)
    return {"theories/Gen/ConstsC09.v": translate(rt, ctx.staged_source("centrosome/filter.py"), ctx.note)}


# ------------------------------------------------------------------------------- generator

CUSTOM = {
    # 1-D position + velocity: obs_len 1 (inv_n of 1x1)
    "cv1d": ([[1, 0]], [[1, 1], [0, 1]], True),
    # 3-D static: obs_len 3 (inv_n of 3x3: 2x2 cofactors)
    "static3d": ([[1.0, 0, 0], [0, 1.0, 0], [0, 0, 1.0]], [[1.0, 0, 0], [0, 1.0, 0], [0, 0, 1.0]], False),
    # non-0/1 entries, a hidden third state: SMALL/2, SMALL, LARGE initial variances
    "scaled": ([[2.0, 0, 0], [0, 1.0, 0]], [[1.0, 0, 0.5], [0, 1.0, 0], [0, 0, 1.0]], False),
    # the velocity model built by the caller from float matrices
    "velocity_float": ([[1.0, 0, 0, 0], [0, 1.0, 0, 0]],
                       [[1.0, 0, 1.0, 0], [0, 1.0, 0, 1.0], [0, 0, 1.0, 0], [0, 0, 0, 1.0]], False),
}


def _case_mats(case):
    """(om, tm) as nested lists of numbers"""
    if case["model"] == "custom":
        return case["om"], case["tm"]
    return DOC[case["model"]]


def _spd(rng, n, den):
    """B B^T / den + I with small integer B: dyadic, SPD, modest condition number"""
    b = rng.randint(-3, 4, size=(n, n)).astype(float)
    return b @ b.T / den + np.eye(n)


def _pattern(rng, nold, maxf):
    """one frame's old_indices"""
    u = rng.rand()
    if u < 0.06:
        return [], "empty"
    if u < 0.12 or nold == 0:
        return [-1] * int(rng.randint(1, maxf + 1)), "all_new"
    if u < 0.17:
        return list(range(nold)), "identity"
    if u < 0.22:
        return list(range(nold))[::-1], "reversal"
    if u < 0.27:
        k = int(rng.randint(0, nold))
        return list(range(k, nold)) + list(range(k)), "rotation"
    if u < 0.31:
        return [int(rng.randint(nold))], "single_survivor"
    if u < 0.36:
        return list(range(nold - int(rng.randint(1, nold + 1)))) or [-1], "drop_trailing"
    if u < 0.41:
        return list(range(int(rng.randint(1, nold + 1)), nold)) or [-1], "drop_leading"
    if u < 0.46 and nold >= 3:
        a = int(rng.randint(1, nold - 1))
        b = int(rng.randint(a + 1, nold))
        return list(range(a)) + list(range(b, nold)), "drop_middle"
    if u < 0.52:
        # drop some and re-add the same number of new features in their slots
        return [(-1 if rng.rand() < 0.4 else i) for i in range(nold)], "drop_and_readd"
    kept = [i for i in range(nold) if rng.rand() < 0.75]
    rng.shuffle(kept)
    nnew = int(rng.choice([0, 0, 1, 1, 2, 3]))
    slots = kept + [-1] * nnew
    rng.shuffle(slots)
    slots = [int(x) for x in slots][:maxf]
    if not slots:
        return [-1], "all_new"
    return slots, "random"


OLD_VARIANTS = ["i64", "i32", "i16", "i8", "u8", "u32", "u64", "intp", "list", "tuple", "strided", "ro"]
CO_VARIANTS = ["f64", "f32", "f16", "int", "fort", "strided", "ro"]
Q_VARIANTS = ["f64", "f32", "fort", "strided", "ro", "bcast", "int"]


def _exact_in(vals, dt):
    a = np.array(vals, float)
    with np.errstate(all="ignore"):
        return bool(np.array_equal(a.astype(dt).astype(float), a))


def _variant(rng, old, coords, q, r):
    """argument dtypes / layouts for one call; only conversions that keep every value exact"""
    v = {}
    o = str(rng.choice(OLD_VARIANTS))
    if o in ("u8", "u32", "u64") and any(x < 0 for x in old):
        o = "i32"
    if o in ("i8", "u8") and old and max(old) > 100:
        o = "i16"
    v["old"] = o
    c = str(rng.choice(CO_VARIANTS))
    if (c == "f32" and not _exact_in(coords, np.float32)) or (c == "f16" and not _exact_in(coords, np.float16)) \
            or (c == "int" and not _exact_in(coords, np.int64)):
        c = "f64"
    v["co"] = c
    for name, m in (("q", q), ("r", r)):
        t = str(rng.choice(Q_VARIANTS))
        if (t == "f32" and not _exact_in(m, np.float32)) or (t == "int" and not _exact_in(m, np.int64)):
            t = "f64"
        if t == "bcast" and any(x != m[0] for x in m):
            t = "fort"
        v[name] = t
    return v


def _history(rng, maxf, nframes, den, model, floats=False, custom=None, variants=False, survive=None, same_q=False,
             age_cap=None):
    if custom:
        om, tm, int_mats = CUSTOM[custom]
    else:
        om, tm = DOC[model]
    ol, sl = len(om), len(om[0])
    frames = []
    nold = 0
    ages = []
    for _ in range(nframes):
        if survive is not None:
            # large frames: most tracks are short-lived, a few insertions, order shuffled in blocks
            kept = [i for i in range(nold) if rng.rand() < survive]
            if rng.rand() < 0.5:
                rng.shuffle(kept)
            nnew = max(0, maxf - len(kept) - int(rng.randint(0, max(2, maxf // 8))))
            slots = [int(x) for x in kept] + [-1] * nnew
            if rng.rand() < 0.5:
                rng.shuffle(slots)
            old, kind = slots, "large"
        else:
            old, kind = _pattern(rng, nold, maxf)
        # exact rationals: a track's numbers grow with its age; old tracks restart as new features in place
        cap = age_cap if age_cap is not None else (6 if (sl >= 4 and den > 4) else 7 if sl >= 4 else 9)
        capped = [(-1 if (o >= 0 and ages[o] >= cap) else o) for o in old]
        if capped != old:
            old, kind = capped, kind + "+age_capped"
        ages = [(ages[o] + 1 if o >= 0 else 0) for o in old]
        n = len(old)
        if floats:
            coords = (rng.randn(n, ol) * 10).tolist()
            q = [(_spd(rng, sl, 1) + 0.01 * np.diag(rng.rand(sl))).tolist() for _ in range(n)]
            r = [(_spd(rng, ol, 1) + 0.01 * np.diag(rng.rand(ol))).tolist() for _ in range(n)]
        else:
            coords = (rng.randint(-40 * den, 40 * den + 1, size=(n, ol)) / float(den)).tolist()
            if same_q or rng.rand() < 0.15:
                q0, r0 = _spd(rng, sl, den).tolist(), _spd(rng, ol, den).tolist()
                q, r = [q0] * n, [r0] * n
            else:
                q = [_spd(rng, sl, den).tolist() for _ in range(n)]
                r = [_spd(rng, ol, den).tolist() for _ in range(n)]
        f = {"old": old, "coords": coords, "q": q, "r": r, "kind": kind}
        if variants:
            f["variant"] = _variant(rng, old, coords, q, r)
        frames.append(f)
        nold = n
    c = {"fn": "kalman", "model": model, "frames": frames}
    if custom:
        c.update({"model": "custom", "custom": custom, "om": om, "tm": tm, "int_mats": int_mats})
    return c


def _textbook(case, exact):
    """per frame, per feature (x, P, correction or None) of the textbook filter, in exact Fractions or in float64
    (an evaluation independent of the implementation: used only to exclude ill-conditioned inputs)"""
    om, tm = _case_mats(case)
    conv = (lambda v: Fr(v)) if exact else float
    H = np.array([[conv(v) for v in r] for r in om], object if exact else float)
    A = np.array([[conv(v) for v in r] for r in tm], object if exact else float)
    ol, sl = H.shape

    def inv(S):
        if not exact:
            return np.linalg.inv(S)
        n = len(S)
        M = [[S[i][j] for j in range(n)] + [Fr(int(i == j)) for j in range(n)] for i in range(n)]
        for c in range(n):
            piv = next(r for r in range(c, n) if M[r][c] != 0)
            M[c], M[piv] = M[piv], M[c]
            pv = M[c][c]
            M[c] = [v / pv for v in M[c]]
            for r in range(n):
                if r != c and M[r][c] != 0:
                    f = M[r][c]
                    M[r] = [a - f * b for a, b in zip(M[r], M[c])]
        return np.array([row[n:] for row in M], object)

    rowsum = H.T.dot(np.array([conv(1)] * ol, object if exact else float))
    prev, out = [], []
    for f in case["frames"]:
        cur = []
        for k, o in enumerate(f["old"]):
            z = np.array([conv(v) for v in f["coords"][k]], object if exact else float)
            if o == -1:
                cov = [(conv(1) / rs if rs != 0 else conv(2000)) for rs in rowsum]
                P = np.array([[cov[i] if i == j else conv(0) for j in range(sl)] for i in range(sl)], object if exact else float)
                cur.append((H.T.dot(z), P, None))
                continue
            x, P, _c = prev[o]
            q = np.array([[conv(v) for v in r] for r in f["q"][k]], object if exact else float)
            r_ = np.array([[conv(v) for v in r] for r in f["r"][k]], object if exact else float)
            xp = A.dot(x)
            Pp = A.dot(P).dot(A.T) + q
            S = H.dot(Pp).dot(H.T) + r_
            K = Pp.dot(H.T).dot(inv(S))
            c = K.dot(z - H.dot(xp))
            cur.append((xp + c, Pp - K.dot(H).dot(Pp), c))
        out.append(cur)
        prev = cur
    return out


def _float_ok(case, margin=1e-11):
    """a float64 evaluation of the textbook filter reproduces the exact one to [margin] relative to each feature's
    own arrays: otherwise the input is ill-conditioned for ANY float implementation and is excluded (counted)"""
    try:
        ex, fl = _textbook(case, True), _textbook(case, False)
    except (StopIteration, ZeroDivisionError, np.linalg.LinAlgError):
        return False
    for fe, ff, f in zip(ex, fl, case["frames"]):
        for k, ((xe, Pe, ce), (xf, Pf, cf)) in enumerate(zip(fe, ff)):
            zs = max([abs(v) for v in f["coords"][k]] + [0.0])
            for e, g, floor in ((xe, xf, zs), (Pe, Pf, 0.0), (ce, cf, zs)):
                if e is None:
                    continue
                e = np.array([float(v) for v in np.ravel(e)])
                g = np.array(np.ravel(g), float)
                scale = np.max(np.abs(e)) if e.size and np.max(np.abs(e)) > 0 else floor
                if not np.all(np.isfinite(g)) or np.any(np.abs(e - g) > margin * scale):
                    return False
    return True


def _rescale(rng, case):
    """give every track its own magnitude: q and r of each feature of each frame are multiplied by independent
    powers of two between 2^-40 and 2^+30 (exact in float64), chosen per TRACK with occasional jumps, so one frame
    mixes features whose innovation covariances differ by up to ~2^140 in determinant; r is kept above 2^-13 times
    the predicted variance (below that the covariance update cancels catastrophically in any float filter)"""
    om, tm = _case_mats(case)
    H, A = np.array(om, float), np.array(tm, float)
    ol, sl = H.shape
    rowsum = H.T.dot(np.ones(ol))
    P0 = np.diag([1.0 / v if v != 0 else 2000.0 for v in rowsum])
    tracks = []                          # per current feature: [P (float), e_q, e_r]
    for f in case["frames"]:
        cur = []
        for k, o in enumerate(f["old"]):
            if o == -1:
                cur.append([P0.copy(), int(rng.choice([-40, -30, -20, -10, 0, 0, 10, 20, 30])),
                            int(rng.choice([-40, -30, -20, -10, 0, 0, 10, 20, 30]))])
                continue
            P, eq, er = tracks[o]
            if rng.rand() < 0.25:
                eq = int(rng.randint(-40, 31))
            if rng.rand() < 0.25:
                er = int(rng.randint(-40, 31))
            q = np.array(f["q"][k], float) * 2.0 ** eq
            Pp = A.dot(P).dot(A.T) + q
            need = int(np.ceil(np.log2(np.max(np.abs(H.dot(Pp).dot(H.T)))))) - 13
            er_eff = max(er, need)
            r_ = np.array(f["r"][k], float) * 2.0 ** er_eff
            f["q"][k] = q.tolist()
            f["r"][k] = r_.tolist()
            S = H.dot(Pp).dot(H.T) + r_
            K = Pp.dot(H.T).dot(np.linalg.inv(S))
            cur.append([Pp - K.dot(H).dot(Pp), eq, er])
        f["kind"] = f["kind"] + "+scaled"
        tracks = cur
    case["scaled"] = True
    return case


def _cond_ok(case):
    for f in case["frames"]:
        seen = []
        for m in f["q"] + f["r"]:
            if any(m is s for s in seen):
                continue
            seen.append(m)
            a = np.array(m, float)
            if not np.allclose(a, a.T) or np.linalg.cond(a) > 1e3 or np.min(np.linalg.eigvalsh(a)) <= 0:
                return False
    return True


def _multi(rng, subs, nforks):
    """several independent KalmanStates advanced in an interleaved order inside one process; a fork continues
    from the very state object another history reached (which must stay untouched by both)"""
    subs = list(subs)
    forks = {}
    for _ in range(nforks):
        p = int(rng.randint(len(subs)))
        if str(p) in forks or len(subs[p]["frames"]) < 2 or subs[p].get("scaled"):
            continue
        t = int(rng.randint(1, len(subs[p]["frames"])))          # share frames[:t] with the parent
        nold = len(subs[p]["frames"][t - 1]["old"])
        tail = []
        for _k in range(int(rng.randint(1, 4))):
            old, kind = _pattern(rng, nold, 5)
            n = len(old)
            g = _frame_like(rng, subs[p], old, kind)
            tail.append(g)
            nold = n
        child = dict(subs[p])
        child["frames"] = subs[p]["frames"][:t] + tail
        forks[str(len(subs))] = [p, t]
        subs.append(child)
    # a random interleaving that respects each history's order and the fork points
    done = [0] * len(subs)
    for j, (p, t) in forks.items():
        done[int(j)] = t
    schedule = []
    while True:
        ready = [j for j in range(len(subs)) if done[j] < len(subs[j]["frames"])
                 and (str(j) not in forks or done[forks[str(j)][0]] >= forks[str(j)][1])]
        if not ready:
            break
        j = int(ready[int(rng.randint(len(ready)))])
        schedule.append(j)
        done[j] += 1
    return {"fn": "multi", "subs": subs, "forks": forks, "schedule": schedule}


def _frame_like(rng, case, old, kind):
    om, _tm = _case_mats(case)
    ol, sl = len(om), len(om[0])
    n = len(old)
    return {"old": old, "coords": (rng.randint(-160, 161, size=(n, ol)) / 4.0).tolist(),
            "q": [_spd(rng, sl, 4).tolist() for _ in range(n)], "r": [_spd(rng, ol, 4).tolist() for _ in range(n)],
            "kind": kind}


def _alg_cases(rng, k):
    cases = []
    for _ in range(k):
        n = int(rng.randint(0, 4))
        i, kk, j = (int(x) for x in rng.randint(1, 5, size=3))
        a = (rng.randint(-16, 17, size=(n, i, kk)) / 4.0)
        b = (rng.randint(-16, 17, size=(n, kk, j)) / 4.0)
        form = int(rng.randint(3))
        if form == 0:
            cases.append({"fn": "alg", "op": 0, "a": a[0].tolist() if n else np.ones((i, kk)).tolist(), "b": b.tolist()})
        elif form == 1:
            cases.append({"fn": "alg", "op": 1, "a": a.tolist(), "b": b[0].tolist() if n else np.ones((kk, j)).tolist()})
        else:
            cases.append({"fn": "alg", "op": 2, "a": a.tolist(), "b": b.tolist()})
        m = int(rng.randint(1, 5))
        mats = []
        while len(mats) < int(rng.randint(1, 4)):
            x = rng.randint(-12, 13, size=(m, m)) / 4.0
            if abs(np.linalg.det(x)) >= 0.125:
                mats.append(x.tolist())
        cases.append({"fn": "alg", "op": 3, "a": mats, "b": []})
        cases.append({"fn": "alg", "op": 4, "a": mats, "b": []})
        if m >= 2:
            cases.append({"fn": "alg", "op": 7, "a": mats, "b": [int(rng.randint(m)), int(rng.randint(m))]})
        # the same batched operations on matrices of wildly different magnitude inside ONE batch (powers of two:
        # exact); determinants differ by up to 2^(50 m) >= 2^100 for m >= 2
        nb = int(rng.randint(2, 6))
        exps = [int(e) for e in rng.randint(-25, 26, size=nb)]
        if rng.rand() < 0.5:
            exps[0], exps[-1] = -25, 25
        smats = []
        while len(smats) < nb:
            x = rng.randint(-12, 13, size=(m, m)) / 4.0
            if abs(np.linalg.det(x)) >= 0.125:
                smats.append((x * 2.0 ** exps[len(smats)]).tolist())
        cases.append({"fn": "alg", "op": 3, "a": smats, "b": [], "scaled": True})
        cases.append({"fn": "alg", "op": 4, "a": smats, "b": [], "scaled": True})
        if m >= 2:
            cases.append({"fn": "alg", "op": 7, "a": smats, "b": [int(rng.randint(m)), int(rng.randint(m))], "scaled": True})
        ys = [(rng.randint(-16, 17, size=(m, j)) / 4.0 * 2.0 ** int(rng.randint(-25, 26))).tolist() for _ in range(nb)]
        cases.append({"fn": "alg", "op": 2, "a": smats, "b": ys, "scaled": True})
    return cases


def _perm_cases():
    import itertools
    cases = []
    for n in range(1, 6):
        cases.append({"fn": "alg", "op": 6, "a": list(range(n)), "b": []})
        cases.append({"fn": "alg", "op": 6, "a": [3 * x + 1 for x in range(n)][::-1], "b": []})
        for p in itertools.permutations(range(n)):
            cases.append({"fn": "alg", "op": 5, "a": list(p), "b": []})
    return cases


def _corpus():
    """hand-written histories: the shapes of the property's quantifier"""
    def fr(old, seed):
        rng = np.random.RandomState(seed)
        n = len(old)
        return {"old": old, "coords": (rng.randint(-20, 21, size=(n, 2)) / 2.0).tolist(),
                "q": [_spd(rng, 4, 4).tolist() for _ in range(n)], "r": [_spd(rng, 2, 4).tolist() for _ in range(n)],
                "kind": "corpus"}
    hs = [
        [[-1, -1, -1], [2, 0, 1], [1, 2, 0], [0, 2]],                 # permute, permute, drop the middle one
        [[-1, -1], [1, -1, 0], [-1, 2, 0, -1], [3, 1], [1, 0]],        # insertions between kept features
        [[-1, -1, -1, -1], [3, 1], [1, -1, 0], [], [-1]],              # drop, then empty frame, then restart
        [[-1], [0], [0], [0], [-1, 0], [1, 0]],                        # long own history, then overtaken index
        [[-1, -1, -1], [-1, -1], [1, 0, -1]],                          # all dropped and all new in one frame
        [[], [-1, -1], [1], [0, -1], [1, 0]],
        [[-1, -1, -1, -1], [0, 1], [0, 1, -1, -1], [2, 3], [1, 0]],    # trailing dropped, re-added, leading dropped
        [[-1, -1, -1, -1, -1], [0, 4], [0, -1, -1, -1, 1], [4, 2, 0]],  # middle dropped, re-added in the middle
    ]
    cases = []
    for k, h in enumerate(hs):
        for model in MODELS:
            sl = 2 if model == "static" else 4
            frames = [fr(old, 100 * k + t) for t, old in enumerate(h)]
            if sl == 2:
                for f in frames:
                    f["q"] = [np.array(m)[:2, :2].tolist() for m in f["q"]]
            cases.append({"fn": "kalman", "model": model, "frames": frames})
    # mixed magnitudes in ONE frame: a precisely localised long-tracked feature (q, r shrinking to * 2^-24), an ordinary one whose r
    # jumps to * 2^26, and a feature that receives its FIRST update (innovation covariance ~ LARGE) in the last frame
    for model in MODELS:
        sl = 2 if model == "static" else 4
        h = [[-1, -1], [0, 1], [1, 0], [1, 0, -1], [2, 1, 0]]
        frames = [fr(old, 900 + t) for t, old in enumerate(h)]
        ident = [[0], [0]]                       # track identity per slot: 0 = tiny, 1 = ordinary
        slots = [0, 1]
        for t, f in enumerate(frames):
            if t > 0:
                slots = [(slots[o] if o != -1 else 2) for o in f["old"]]
            if sl == 2:
                f["q"] = [np.array(m)[:2, :2].tolist() for m in f["q"]]
            for k, tr in enumerate(slots if t > 0 else [0, 1]):
                if f["old"][k] == -1:
                    continue
                e = [0, 0, -8, -16, -24][t] if tr == 0 else (26 if (tr == 1 and t == len(frames) - 1) else 0)
                f["q"][k] = (np.array(f["q"][k]) * 2.0 ** (e if tr == 0 else 0)).tolist()
                f["r"][k] = (np.array(f["r"][k]) * 2.0 ** e).tolist()
            f["kind"] = "corpus+scaled"
        c = {"fn": "kalman", "model": model, "frames": frames, "scaled": True}
        if _float_ok(c):
            cases.append(c)
    return cases


def _long_history(rng, nframes, nfeat, model, custom=None):
    """the same few tracks kept (and permuted) through every frame: no age cap.  Replayed through the
    noise_var-free model (kalman_filter_lite); noise_var is checked against the implementation's own rows"""
    c = _history(rng, nfeat, 1, 2, model, custom=custom)
    c["frames"][0] = _frame_like2(rng, c, [-1] * nfeat, "long")
    for _ in range(nframes - 1):
        u = rng.rand()
        old = list(range(nfeat))
        if u < 0.3:
            old = old[::-1]
        elif u < 0.6:
            k = int(rng.randint(nfeat))
            old = old[k:] + old[:k]
        elif u < 0.8:
            rng.shuffle(old)
        c["frames"].append(_frame_like2(rng, c, [int(x) for x in old], "long"))
    c["long"] = True
    return c


def _frame_like2(rng, case, old, kind):
    om, _tm = _case_mats(case)
    ol, sl = len(om), len(om[0])
    n = len(old)
    return {"old": old, "coords": (rng.randint(-40, 41, size=(n, ol)) / 2.0).tolist(),
            "q": [_spd(rng, sl, 2).tolist() for _ in range(n)], "r": [_spd(rng, ol, 2).tolist() for _ in range(n)],
            "kind": kind}


def _count(ctx, c):
    if c["fn"] == "kalman" and c.get("long"):
        ctx.count("long_track_cases")
        ctx.count("long_track_frames", len(c["frames"]))
        ctx.count("long_track_feature_steps_beyond_cap", sum(len(f["old"]) for f in c["frames"][9:]))
    if c["fn"] == "kalman":
        ctx.count("kalman_" + (c.get("custom") or c["model"]))
        for f in c["frames"]:
            ctx.count("frame_" + f["kind"])
            if "variant" in f:
                for k, v in f["variant"].items():
                    ctx.count("arg_%s_%s" % (k, v))
        if c.get("scaled"):
            ctx.count("scaled_histories")
        ctx.count("frames_total", len(c["frames"]))
        ctx.count("max_features_%s" % ("<10" if max([len(f["old"]) for f in c["frames"]] + [0]) < 10 else
                                       "<100" if max(len(f["old"]) for f in c["frames"]) < 100 else ">=100"))
    elif c["fn"] == "multi":
        ctx.count("multi")
        ctx.count("multi_forks", len(c["forks"]))
        for s in c["subs"]:
            _count(ctx, s)
    else:
        ctx.count("alg_op%d%s" % (c["op"], "_scaled_batch" if c.get("scaled") else ""))


def generate(ctx):
    rng = ctx.rng
    cases = _corpus() + _perm_cases() + _alg_cases(rng, ctx.n(25, 150))
    nh = ctx.n(110, 700)
    maxf_hi = ctx.n(7, 12)
    hist = []
    while len(hist) < nh:
        u = rng.rand()
        custom = None
        model = MODELS[int(rng.randint(3))]
        if u < 0.22:
            custom = sorted(CUSTOM)[int(rng.randint(len(CUSTOM)))]
        floats = rng.rand() < 0.05
        if floats:
            c = _history(rng, 3, int(rng.randint(2, 4)), 1, model, floats=True, custom=custom,
                         variants=rng.rand() < 0.5)
        else:
            maxf = int(rng.choice([1, 2, 3, 4, 5, maxf_hi]))
            nfr = int(rng.randint(2, 9)) if rng.rand() < 0.9 else int(rng.randint(9, ctx.n(13, 17)))
            c = _history(rng, maxf, nfr, int(rng.choice([4, 4, 64])), model, custom=custom,
                         variants=rng.rand() < 0.6)
        if not _cond_ok(c):
            ctx.count("excluded_ill_conditioned")
            continue
        if not floats and rng.rand() < 0.22 and max(len(f["old"]) for f in c["frames"]) <= 4:
            c["frames"] = c["frames"][:5]
            # independent magnitudes per feature inside one frame
            for f in c["frames"]:
                f["q"] = [[list(r) for r in m] for m in f["q"]]          # unshare
                f["r"] = [[list(r) for r in m] for m in f["r"]]
                if "variant" in f:
                    f["variant"]["q"] = "f64" if f["variant"]["q"] in ("bcast", "f32", "int") else f["variant"]["q"]
                    f["variant"]["r"] = "f64" if f["variant"]["r"] in ("bcast", "f32", "int") else f["variant"]["r"]
            c = _rescale(rng, c)
            if not _float_ok(c):
                ctx.count("excluded_ill_conditioned_scaled")
                continue
        hist.append(c)
    # a fifth of the histories run interleaved in one process, some continuing from a shared state object
    nm = len(hist) // 5
    pool, singles = hist[:nm], hist[nm:]
    k = 0
    while k < len(pool):
        g = int(rng.randint(2, 5))
        cases.append(_multi(rng, pool[k:k + g], int(rng.randint(0, 3))))
        k += g
    cases.extend(singles)
    # large frames / long histories (exact rationals: most tracks short-lived, integer q and r)
    big = [(40, 12, "static", 0.55), (300, 3, "static", 0.9)] if ctx.quick() else \
          [(300, 32, "static", 0.5), (160, 40, "static", 0.6), (120, 30, "velocity", 0.45), (200, 30, "reverse_velocity", 0.35)]
    for maxf, nfr, model, surv in big:
        while True:
            c = _history(rng, maxf, nfr, 1, model, variants=True, survive=surv, same_q=rng.rand() < 0.3)
            if _cond_ok(c):
                break
            ctx.count("excluded_ill_conditioned")
        cases.append(c)
    # long single tracks (no age cap): exact state_vec / state_cov / corrections through the noise_var-free model
    longs = [(20, 1, "static", None), (14, 2, "velocity", None)] if ctx.quick() else \
            [(40, 1, "velocity", None), (40, 2, "static", None), (40, 1, "reverse_velocity", None), (40, 3, "static", None),
             (30, 2, "velocity", None), (40, 1, "custom", "cv1d"), (25, 2, "custom", "scaled")]
    for nfr, nfeat, model, custom in longs:
        while True:
            c = _long_history(rng, nfr, nfeat, model if model != "custom" else "static", custom=custom)
            if _cond_ok(c):
                break
            ctx.count("excluded_ill_conditioned")
        cases.append(c)
    for c in cases:
        _count(ctx, c)
    return cases


# ------------------------------------------------------------------------------- implementation

def _snap(ks):
    return [np.asarray(getattr(ks, a)).tobytes() + str(np.asarray(getattr(ks, a)).shape).encode()
            + str(np.asarray(getattr(ks, a)).dtype).encode()
            for a in ("observation_matrix", "translation_matrix", "state_vec", "state_cov", "noise_var",
                      "state_noise", "state_noise_idx")] + [repr(sorted(vars(ks).keys())).encode()]


def _strided(a):
    b = np.zeros((a.shape[0] * 2,) + a.shape[1:], a.dtype)
    b[::2] = a
    return b[::2]


def _ro(a):
    a = a.copy()
    a.setflags(write=False)
    return a


def _conv_old(name, old):
    if name == "list":
        return list(old)
    if name == "tuple":
        return tuple(old)
    dt = {"i64": np.int64, "i32": np.int32, "i16": np.int16, "i8": np.int8, "u8": np.uint8, "u32": np.uint32,
          "u64": np.uint64, "intp": np.intp, "strided": np.int64, "ro": np.int64}[name]
    a = np.array(old, dt)
    if a.tolist() != list(old):
        raise AssertionError("harness: old_indices not representable in " + name)
    return _strided(a) if name == "strided" else _ro(a) if name == "ro" else a


def _conv_arr(name, a):
    """a: float64 C-contiguous array"""
    if name in ("f32", "f16", "int"):
        b = a.astype({"f32": np.float32, "f16": np.float16, "int": np.int64}[name])
        if not np.array_equal(b.astype(float), a):
            raise AssertionError("harness: values not representable in " + name)
        return b
    if name == "fort":
        return np.asfortranarray(a)
    if name == "strided":
        return _strided(a)
    if name == "ro":
        return _ro(a)
    if name == "bcast":
        if len(a) == 0:
            return a
        if not all(np.array_equal(a[0], x) for x in a):
            raise AssertionError("harness: bcast needs equal matrices")
        return np.broadcast_to(a[0].copy(), a.shape)
    return a


def _arg_bytes(x):
    return repr(x).encode() if isinstance(x, (list, tuple)) else np.asarray(x).tobytes() + str(np.asarray(x).dtype).encode()


def _mk_state(F, case):
    if case["model"] == "custom":
        dt = int if case.get("int_mats") else float
        return F.KalmanState(np.array(case["om"], dt), np.array(case["tm"], dt))
    return getattr(F, case["model"] + "_kalman_model")()


def _call(F, ks, f, watch):
    """one kalman_filter call; watch = other live states that must not change"""
    ol, sl = ks.obs_len, ks.state_len
    n = len(f["old"])
    v = f.get("variant", {})
    old = _conv_old(v.get("old", "i64"), f["old"])
    coords = _conv_arr(v.get("co", "f64"), np.array(f["coords"], float).reshape(n, ol))
    q = _conv_arr(v.get("q", "f64"), np.array(f["q"], float).reshape(n, sl, sl))
    r = _conv_arr(v.get("r", "f64"), np.array(f["r"], float).reshape(n, ol, ol))
    before = _snap(ks)
    others = [_snap(w) for w in watch]
    args_before = [_arg_bytes(x) for x in (old, coords, q, r)]
    ks2 = F.kalman_filter(ks, old, coords, q, r)
    unmodified = before == _snap(ks) and args_before == [_arg_bytes(x) for x in (old, coords, q, r)]
    leak = others != [_snap(w) for w in watch]
    rec = {
        "svec": np.asarray(ks2.state_vec).tolist(), "scov": np.asarray(ks2.state_cov).tolist(),
        "nvar": np.asarray(ks2.noise_var).tolist(), "snoise": np.asarray(ks2.state_noise).tolist(),
        "sidx": [int(x) for x in np.asarray(ks2.state_noise_idx).tolist()],
        "shapes": [list(np.asarray(getattr(ks2, a)).shape) for a in
                   ("state_vec", "state_cov", "noise_var", "state_noise", "state_noise_idx")],
        "dtypes": [str(np.asarray(getattr(ks2, a)).dtype) for a in ("state_vec", "state_cov", "noise_var", "state_noise")],
        "psv": np.asarray(ks2.predicted_state_vec).tolist(), "pov": np.asarray(ks2.predicted_obs_vec).tolist(),
        "pred_cached": [bool(ks2.has_cached_predicted_state_vec), bool(ks2.has_cached_obs_vec)],
        "same_object": ks2 is ks, "unmodified": bool(unmodified), "other_state_changed": bool(leak),
        "om_tm_kept": bool(np.array_equal(ks2.observation_matrix, ks.observation_matrix)
                           and np.array_equal(ks2.translation_matrix, ks.translation_matrix))}
    return ks2, rec


def _impl_alg(F, case):
    op = case["op"]
    a = np.array(case["a"], float)
    b = np.array(case["b"], float)
    if op == 0:
        if b.ndim != 3:
            b = b.reshape((0, a.shape[1], 1))
        return {"v": F.dot_n(a, b).tolist()}
    if op == 1:
        if a.ndim != 3:
            a = a.reshape((0, 1, b.shape[0]))
        return {"v": F.dot_n(a, b).tolist()}
    if op == 2:
        if a.ndim != 3:
            return {"v": []}
        return {"v": F.dot_n(a, b).tolist()}
    if op == 3:
        return {"v": F.inv_n(a).tolist()}
    if op == 4:
        return {"v": np.asarray(F.det_n(a)).tolist()}
    if op == 5:
        return {"v": int(F.parity(np.array(case["a"], int)))}
    if op == 6:
        return {"v": [[int(x) for x in p] for p in F.permutations(case["a"])]}
    if op == 7:
        return {"v": np.asarray(F.cofactor_n(a, case["b"][0], case["b"][1])).tolist()}
    raise ValueError("op")


def _head(ks):
    return {"om": np.asarray(ks.observation_matrix).tolist(), "tm": np.asarray(ks.translation_matrix).tolist(),
            "fresh": {"shapes": [list(np.asarray(getattr(ks, a)).shape) for a in
                                 ("state_vec", "state_cov", "noise_var", "state_noise", "state_noise_idx")],
                      "idx_int": bool(np.issubdtype(np.asarray(ks.state_noise_idx).dtype, np.integer)),
                      "state_len": int(ks.state_len), "obs_len": int(ks.obs_len),
                      "cached": [bool(ks.has_cached_predicted_state_vec), bool(ks.has_cached_obs_vec)]},
            "frames": []}


def impl(case):
    from centrosome import filter as F
    if case["fn"] == "alg":
        return _impl_alg(F, case)
    if case["fn"] == "kalman":
        ks = _mk_state(F, case)
        res = _head(ks)
        for f in case["frames"]:
            ks, rec = _call(F, ks, f, [])
            res["frames"].append(rec)
        return res
    # multi: interleaved independent states, forks continue from a shared state object
    subs, forks = case["subs"], case["forks"]
    states = [[_mk_state(F, s)] for s in subs]          # states[j][t] = state of history j after t frames
    res = [_head(states[j][0]) for j in range(len(subs))]
    for j, (p, t) in forks.items():
        states[int(j)] = [None] * t + [None]
    for j in case["schedule"]:
        if str(j) in forks and states[j][-1] is None:
            p, t = forks[str(j)]
            states[j] = list(states[p][:t + 1])          # the parent's very objects
            res[j]["frames"] = [dict(x) for x in res[p]["frames"][:t]]
        t = len(states[j]) - 1
        watch = [s for k, st in enumerate(states) for s in st if s is not None and s is not states[j][-1]]
        seen, uniq = set(), []
        for s in watch:
            if id(s) not in seen:
                seen.add(id(s)); uniq.append(s)
        ks2, rec = _call(F, states[j][-1], subs[j]["frames"][t], uniq)
        states[j].append(ks2)
        res[j]["frames"].append(rec)
    return {"subs": res}


# ------------------------------------------------------------------------------- wire helpers

def _q(x):
    f = Fr(x)
    return [f.numerator, f.denominator]


def _qv(v):
    return [_q(x) for x in v]


def _qm(m):
    return [_qv(r) for r in m]


def _unq(p):
    return Fr(p[0], p[1])


def _frames_sx(case):
    return [[f["old"], [_qv(z) for z in f["coords"]], [_qm(m) for m in f["q"]], [_qm(m) for m in f["r"]]]
            for f in case["frames"]]


def _bad(o):
    return (not isinstance(o, dict)) or "exc" in o or "crash" in o


def _cost(arg):
    """rough cost of replaying a history: the rationals of a track grow linearly with its age, and the variance
    over its own history sums fractions with unrelated denominators"""
    sl = len(arg[1])
    ages, cost = [], 1
    for f in arg[2]:
        ages = [(ages[o] + 1 if 0 <= o < len(ages) else 0) for o in f[0]]
        cost += sum((a + 1) ** 4 for a in ages) * sl ** 3
    # magnitudes spread over many binary orders (per-feature scales) make every rational longer
    bits = 4
    for f in arg[2][:3]:
        for m in (f[2][:4] + f[3][:4]):
            for row in m:
                for nd in row:
                    bits = max(bits, abs(nd[0]).bit_length(), nd[1].bit_length())
    return cost * (1 + bits / 12.0) ** 2


def _par(ctx, entry, args, workers=None):
    """ctx.run_model in parallel chunks, longest-processing-time-first (the rational arithmetic of the
    extracted program is slow)"""
    if workers is None:
        workers = max(4, min(12, (os.cpu_count() or 8) - 2))
    if len(args) <= 4:
        return ctx.run_model(entry, args)
    ctx.run_model(entry, args[:1])          # builds the executable once, outside the pool
    order = sorted(range(len(args)), key=lambda k: -_cost(args[k]))
    chunks = [[] for _ in range(workers)]
    load = [0] * workers
    for k in order:
        w = load.index(min(load))
        chunks[w].append(k)
        load[w] += _cost(args[k])
    chunks = [c for c in chunks if c]
    res = [None] * len(args)
    with ThreadPoolExecutor(len(chunks)) as ex:
        for ch, rs in zip(chunks, ex.map(lambda ch: ctx.run_model(entry, [args[k] for k in ch]), chunks)):
            for k, r in zip(ch, rs):
                res[k] = r
    return res


_run_cache = {}


def _run_abs(ctx, args, lites=None):
    """entry_run_abs (or, for long tracks, entry_run_lite) on [H, A, frames] arguments, memoised for the life of the
    process: the batched model's states and (by C09_fresh_refines_trace) the per-feature specification come out of
    one evaluation.  Returns per history None-or-error, or {"states", "abs", "psv", "pov"} (lists per frame)."""
    lites = lites or [False] * len(args)
    keys = [("L" if l else "F") + json.dumps(a, separators=(",", ":")) for a, l in zip(args, lites)]
    todo = {}
    for k, a, l in zip(keys, args, lites):
        if k not in _run_cache and k not in todo:
            todo[k] = (a, l)
    for lite, entry in ((False, "entry_run_abs"), (True, "entry_run_lite")):
        ks = [k for k in todo if todo[k][1] == lite]
        if ks:
            for k, r in zip(ks, _par(ctx, entry, [todo[k][0] for k in ks])):
                _run_cache[k] = _unpack(r, lite)
    if len(_run_cache) > 6000:
        for k in list(_run_cache)[:len(_run_cache) - 6000]:
            if k not in keys:
                del _run_cache[k]
    return [_run_cache[k] for k in keys]


def _unpack(r, lite):
    if isinstance(r, dict) or r == []:
        return {"error": r}
    frames = r[0]
    if not lite:
        return {"states": [st[0] for st in frames], "abs": [st[1] for st in frames],
                "psv": [st[2] for st in frames], "pov": [st[3] for st in frames]}
    states, absf = [], []
    for sv, sc, sn, si, _p, _o in frames:
        states.append([sv, sc, None, sn, si])
        absf.append([[sv[k], sc[k], None, [row for i, row in zip(si, sn) if i == k]] for k in range(len(sv))])
    return {"states": states, "abs": absf, "psv": [st[4] for st in frames], "pov": [st[5] for st in frames]}


_models_cache = {}


def _model_mats(ctx):
    """the three models' (om, tm) as the Gen file (regenerated from the staged source) has them"""
    key = id(ctx)
    if key not in _models_cache:
        r = ctx.run_model("entry_models", [[]])[0]
        _models_cache[key] = {m: (r[k][0], r[k][1]) for k, m in enumerate(MODELS)}
    return _models_cache[key]


def _doc_mats(model):
    om, tm = DOC[model]
    return [[[x, 1] for x in r] for r in om], [[[x, 1] for x in r] for r in tm]


def _alg_arg(case):
    op = case["op"]
    a, b = case["a"], case["b"]
    if op in (5, 6):
        return [op, a, []]
    if op == 0:
        return [op, _qm(a), [_qm(m) for m in b]]
    if op == 1:
        return [op, [_qm(m) for m in a], _qm(b)]
    if op == 2:
        return [op, [_qm(m) for m in a], [_qm(m) for m in b]]
    if op == 7:
        return [op, [_qm(m) for m in a], b]
    return [op, [_qm(m) for m in a], []]


def _close(x, q, scale):
    """float x against exact rational q, relative to [scale] (no absolute floor)"""
    x = float(x)
    if x != x or x in (float("inf"), float("-inf")):
        return False
    return abs(x - float(q)) <= TOL * scale


def _flat_m(m):
    if len(m) == 2 and isinstance(m[0], int):
        return [_unq(m)]
    return [y for e in m for y in _flat_m(e)]


def _maxabs_m(m):
    return max([abs(float(v)) for v in _flat_m(m)] + [0.0]) if m else 0.0


def _cmp_arr(x, m, floor=0.0, minscale=0.0):
    """nested float lists x against nested [num, den] lists m (same shape): every entry within TOL relative to
    the largest entry of THIS model array (one feature's vector / matrix), whatever its magnitude; [floor] is the
    scale used only when the model array is identically zero.  None or a text"""
    def shape_ok(x, m):
        if isinstance(x, list):
            return (not (len(m) == 2 and m and isinstance(m[0], int))) and len(x) == len(m) and all(
                shape_ok(a, b) for a, b in zip(x, m))
        return len(m) == 2 and isinstance(m[0], int)

    if not shape_ok(x, m):
        return "shape differs"
    fm = _flat_m(m) if m else []
    fx = np.array(x, float).ravel().tolist()
    scale = max([abs(float(v)) for v in fm] + [0.0, minscale])
    if scale == 0.0:
        scale = floor
    for k, (a, b) in enumerate(zip(fx, fm)):
        if not _close(a, b, scale):
            return "entry %d: impl %r model %r (scale %.3g)" % (k, a, float(b), scale)
    return None


def _vfloors(frame):
    """per feature: the magnitude of its observation in this frame (fallback scale for vectors that are exactly 0)"""
    return [max([abs(float(v)) for v in z] + [0.0]) for z in frame["coords"]]


# ------------------------------------------------------------------------------- model, compare

def _mats_sx(ctx, case, doc):
    if case["model"] == "custom":
        return _qm(case["om"]), _qm(case["tm"])
    if doc:
        return _doc_mats(case["model"])
    return _model_mats(ctx)[case["model"]]


def _flatten(cases, outs=None):
    """(case index, sub index or None, kalman case, its output) for every history of the batch"""
    res = []
    for k, c in enumerate(cases):
        o = outs[k] if outs is not None else None
        if c["fn"] == "kalman":
            res.append((k, None, c, o))
        elif c["fn"] == "multi":
            for j, s in enumerate(c["subs"]):
                res.append((k, j, s, o["subs"][j] if (o is not None and not _bad(o)) else None))
    return res


def model(ctx, cases, outs):
    res = [None] * len(cases)
    flat = _flatten(cases)
    args = []
    for k, j, c, _o in flat:
        H, A = _mats_sx(ctx, c, False)
        args.append([H, A, _frames_sx(c)])
    for (k, j, c, _o), a, r in zip(flat, args, _run_abs(ctx, args, [bool(x[2].get("long")) for x in flat])):
        m = dict(r, om=a[0], tm=a[1])
        if j is None:
            res[k] = m
        else:
            if res[k] is None:
                res[k] = {"subs": [None] * len(cases[k]["subs"])}
            res[k]["subs"][j] = m
    ai = [k for k, c in enumerate(cases) if c["fn"] == "alg"]
    for k, r in zip(ai, ctx.run_model("entry_alg", [_alg_arg(cases[k]) for k in ai])):
        res[k] = r
    return res


def _cmp_alg(case, out, m):
    op = case["op"]
    v = out["v"]
    if isinstance(m, dict):
        return "model error %s" % m
    if op == 5:
        return None if [v, 1] == m else "parity: impl %s model %s" % (v, m)
    if op == 6:
        return None if v == m else "permutations differ: impl %s model %s" % (str(v)[:120], str(m)[:120])
    if op in (0, 1, 2) and v == [] and m == []:
        return None
    # every matrix (determinant, cofactor) of the batch against the model at ITS OWN scale
    if not isinstance(v, list) or len(v) != len(m):
        return "alg op %d: batch length differs" % op
    for k, (a, b) in enumerate(zip(v, m)):
        d = _cmp_arr(a, b)
        if d:
            return "alg op %d: matrix %d of the batch: %s" % (op, k, d)
    return None


def compare(case, out, m):
    if _bad(out):
        return "implementation raised/crashed: %s" % (str(out)[:300],)
    if case["fn"] == "alg":
        return _cmp_alg(case, out, m)
    if case["fn"] == "multi":
        for j, (c, o, mm) in enumerate(zip(case["subs"], out["subs"], m["subs"])):
            d = _compare_kalman(c, o, mm)
            if d:
                return "interleaved history %d: %s" % (j, d)
        return None
    return _compare_kalman(case, out, m)


def _compare_kalman(case, out, m):
    if "error" in m:
        return "model rejected the history: %s" % (m["error"],)
    if _qm(out["om"]) != m["om"] or _qm(out["tm"]) != m["tm"]:
        return "model matrices of %s differ from the translated source" % case["model"]
    trace = m["states"]
    if len(trace) != len(out["frames"]):
        return "number of frames differs"
    for t, (fo, ms) in enumerate(zip(out["frames"], trace)):
        msv, msc, mnv, msn, msi = ms
        if fo["sidx"] != msi:
            return "frame %d: state_noise_idx impl %s model %s" % (t, fo["sidx"][:40], msi[:40])
        if len(fo["svec"]) != len(msv) or len(fo["scov"]) != len(msc) or (mnv is not None and len(fo["nvar"]) != len(mnv)) \
                or len(fo["snoise"]) != len(msn) or len(fo["psv"]) != len(m["psv"][t]) or len(fo["pov"]) != len(m["pov"][t]):
            return "frame %d: array lengths differ" % t
        vf = _vfloors(case["frames"][t])
        for name, x, mm in (("state_vec", fo["svec"], msv), ("state_cov", fo["scov"], msc),
                            ("noise_var", fo["nvar"], mnv), ("state_noise", fo["snoise"], msn),
                            ("predicted_state_vec", fo["psv"], m["psv"][t]), ("predicted_obs_vec", fo["pov"], m["pov"][t])):
            if mm is None:
                continue            # long tracks: noise_var is checked against the implementation's own rows
            for k, (a, b) in enumerate(zip(x, mm)):
                if name == "state_noise":
                    fl = vf[msi[k]] if msi[k] < len(vf) else 0.0
                elif name == "noise_var":
                    fl = max([_maxabs_m(r) for i, r in zip(msi, msn) if i == k] + [0.0]) ** 2
                else:
                    fl = vf[k] if k < len(vf) else 0.0
                d = _cmp_arr(a, b, fl, 1e-4 * fl if name == "noise_var" else 0.0)
                if d:
                    return "frame %d: %s[%d] %s" % (t, name, k, d)
    return None


# ------------------------------------------------------------------------------- checker

def _check_kalman(case, out, spec):
    """the property on the implementation's own output, against the per-feature specification"""
    om, tm = _case_mats(case)
    if out["om"] != om or out["tm"] != tm:
        return "%s model matrices are not the documented ones" % (case.get("custom") or case["model"])
    if len(out["frames"]) != len(case["frames"]):
        return "harness error: %d outputs for %d frames" % (len(out["frames"]), len(case["frames"]))
    if "error" in spec:
        return "specification rejected the history (harness error): %s" % (spec["error"],)
    ol = len(om)
    fresh = out.get("fresh")
    if fresh != {"shapes": [[0, len(om[0])], [0, len(om[0]), len(om[0])], [0, len(om[0])], [0, len(om[0])], [0]],
                 "idx_int": True, "state_len": len(om[0]), "obs_len": ol, "cached": [False, False]}:
        return "the initial KalmanState is not the documented empty state: %s" % (fresh,)
    sl = len(om[0])
    prev_hist = []
    for t, (f, fo, st) in enumerate(zip(case["frames"], out["frames"], spec["abs"])):
        n = len(f["old"])
        if not fo["unmodified"]:
            return "frame %d: kalman_filter modified its input state or arguments" % t
        if fo["same_object"]:
            return "frame %d: kalman_filter returned its input state object" % t
        if not fo["om_tm_kept"]:
            return "frame %d: model matrices changed" % t
        if fo.get("other_state_changed"):
            return "frame %d: the call changed another, independent KalmanState" % t
        if any(d != "float64" for d in fo.get("dtypes", [])):
            return "frame %d: result arrays are not float64: %s" % (t, fo["dtypes"])
        if fo["shapes"] != [[n, sl], [n, sl, sl], [n, sl], [len(fo["sidx"]), sl], [len(fo["sidx"])]]:
            return "frame %d: output shapes %s for %d features" % (t, fo["shapes"], n)
        if len(st) != n:
            return "frame %d: harness error, specification has %d features" % (t, len(st))
        vfl = _vfloors(f)
        if fo["pred_cached"] != [True, True] or len(fo["psv"]) != n or len(fo["pov"]) != n:
            return "frame %d: predicted_state_vec / predicted_obs_vec not available per feature" % t
        if any(not (0 <= i < n) for i in fo["sidx"]):
            return "frame %d: state_noise_idx out of range" % t
        hist = [[row for i, row in zip(fo["sidx"], fo["snoise"]) if i == k] for k in range(n)]
        for k in range(n):
            sx_x, sx_P, sx_nv, sx_h = st[k]
            o = f["old"][k]
            what = "new feature" if o == -1 else "kept feature (old index %d)" % o
            if o == -1:
                # copies and constants: exact
                if [_q(v) for v in fo["svec"][k]] != sx_x:
                    return "frame %d feature %d (%s): initial state is not the observed coordinates" % (t, k, what)
                if _qm(fo["scov"][k]) != sx_P:
                    return "frame %d feature %d (%s): initial covariance is not diag(SMALL.., LARGE..)" % (t, k, what)
                if _qv(fo["nvar"][k]) != (sx_nv if sx_nv is not None else [[1, 1]] * sl):
                    return "frame %d feature %d (%s): initial noise variance is not all ones" % (t, k, what)
                if hist[k]:
                    return "frame %d feature %d (%s): inherits %d corrections of another feature" % (t, k, what, len(hist[k]))
                continue
            d = _cmp_arr(fo["svec"][k], sx_x, vfl[k])
            if d:
                return "frame %d feature %d (%s): state vector is not the textbook update of its own state: %s" % (t, k, what, d)
            d = _cmp_arr(fo["scov"][k], sx_P)
            if d:
                return "frame %d feature %d (%s): covariance is not the textbook update of its own covariance: %s" % (t, k, what, d)
            if len(hist[k]) != len(sx_h):
                return "frame %d feature %d (%s): %d corrections in its history, own history has %d" % (
                    t, k, what, len(hist[k]), len(sx_h))
            if hist[k][:-1] != prev_hist[o]:
                return "frame %d feature %d (%s): carried history is not its own previous history" % (t, k, what)
            d = None
            for ri, (ra, rb) in enumerate(zip(hist[k], sx_h)):
                d = d or _cmp_arr(ra, rb, vfl[k])
            if d:
                return "frame %d feature %d (%s): correction history differs from its own corrections: %s" % (t, k, what, d)
            rs2 = max([_maxabs_m(rb) for rb in sx_h] + [0.0]) ** 2
            d = _cmp_arr(fo["nvar"][k], sx_nv, rs2, 1e-4 * rs2) if sx_nv is not None else None
            if d:
                return "frame %d feature %d (%s): noise variance is not the variance of its own corrections: %s" % (t, k, what, d)
            # and directly on the implementation's own rows
            rows = [[Fr(v) for v in row] for row in hist[k]]
            for i in range(sl):
                col = [row[i] for row in rows]
                mean = sum(col) / len(col)
                var = sum((v - mean) ** 2 for v in col) / len(col)
                if not _close(fo["nvar"][k][i], var, max(max(abs(float(v)) for v in col) ** 2, 1e-300)):
                    return "frame %d feature %d (%s): noise_var[%d]=%r but the variance of its own rows is %r" % (
                        t, k, what, i, fo["nvar"][k][i], float(var))
        for k in range(n):
            d = _cmp_arr(fo["psv"][k], spec["psv"][t][k], vfl[k]) or _cmp_arr(fo["pov"][k], spec["pov"][t][k], vfl[k])
            if d:
                return "frame %d feature %d: predicted state/observation is not A x / H A x of its own state: %s" % (t, k, d)
        prev_hist = hist
    return None


def check(ctx, cases, outs):
    res = [None] * len(cases)
    for k, (c, o) in enumerate(zip(cases, outs)):
        if _bad(o):
            res[k] = "implementation raised/crashed on a valid input: %s" % (str(o)[:300],)
    flat = [x for x in _flatten(cases, outs) if res[x[0]] is None]
    args = []
    for k, j, c, _o in flat:
        H, A = _mats_sx(ctx, c, True)
        args.append([H, A, _frames_sx(c)])
    lites = [bool(x[2].get("long")) for x in flat]
    specs = _run_abs(ctx, args, lites)
    # the abstraction of the batched run IS the per-feature specification (theorem); re-checked at run time
    # against the separately extracted specification on a sub-sample
    sub = [i for i in range(len(flat)) if i % 8 == 0 and not lites[i] and _cost(args[i]) < 3e5][:40]
    if sub:
        for i, r in zip(sub, _par(ctx, "entry_spec_run", [args[i] for i in sub])):
            if "error" in specs[i] or r == [] or isinstance(r, dict) or r[0] != specs[i]["abs"]:
                raise RuntimeError("extracted entry_spec_run differs from abs(entry_run) on case %d" % flat[i][0])
    for (k, j, c, o), r in zip(flat, specs):
        if res[k] is None:
            d = _check_kalman(c, o, r)
            if d:
                res[k] = d if j is None else "interleaved history %d: %s" % (j, d)
    ai = [k for k, c in enumerate(cases) if c["fn"] == "alg" and res[k] is None]
    for k, r in zip(ai, ctx.run_model("entry_alg", [_alg_arg(cases[k]) for k in ai])):
        d = _cmp_alg(cases[k], outs[k], r)
        if d:
            res[k] = "small-matrix algebra differs from its definition: " + d
    return res


def _nontrivial_kalman(case):
    updated = False
    for f in case["frames"]:
        kept = [o for o in f["old"] if o != -1]
        if updated and len(kept) >= 2 and kept != list(range(len(kept))):
            return True
        if kept:
            updated = True
    return False


def nontrivial(case, out):
    if case["fn"] == "multi":
        return any(_nontrivial_kalman(s) for s in case["subs"])
    return case["fn"] == "kalman" and _nontrivial_kalman(case)


def kernel_crosscheck(ctx, cases, outs):
    idx = [k for k, c in enumerate(cases) if c["fn"] == "kalman" and c["model"] == "static" and len(c["frames"]) <= 4
           and max(len(f["old"]) for f in c["frames"]) <= 3 and not _bad(outs[k])][:12]
    mats = _model_mats(ctx)
    args = [[mats[cases[k]["model"]][0], mats[cases[k]["model"]][1], _frames_sx(cases[k])] for k in idx]
    exp = ctx.run_model("entry_run", args)
    r = ctx.coq_eval_eq("Model.Kalman", "entry_run", args, exp, tag="run")
    bad = [k for k, b in zip(idx, r) if b is not True]
    if bad:
        return "vm_compute evaluation of Model.Kalman.entry_run differs from the extracted program on case %d" % bad[0], len(idx)
    # the abstraction of the batched model, evaluated by the kernel, against the extracted specification
    sp = ctx.run_model("entry_spec_run", args)
    r = ctx.coq_eval_eq("Model.Kalman Spec.Kalman", "entry_abs_run", args, sp, tag="abs")
    bad = [k for k, b in zip(idx, r) if b is not True]
    if bad:
        return "vm_compute evaluation of abs(run) differs from the extracted per-feature specification on case %d" % bad[0], len(idx)
    ai = [k for k, c in enumerate(cases) if c["fn"] == "alg" and not _bad(outs[k])][:30]
    a2 = [_alg_arg(cases[k]) for k in ai]
    e2 = ctx.run_model("entry_alg", a2)
    r2 = ctx.coq_eval_eq("Model.Kalman", "entry_alg", a2, e2, tag="alg")
    bad = [k for k, b in zip(ai, r2) if b is not True]
    if bad:
        return "vm_compute evaluation of Model.Kalman.entry_alg differs from the extracted program on case %d" % bad[0], 2 * len(idx) + len(ai)
    return None, 2 * len(idx) + len(ai)


def search_cases(ctx, rnd):
    rng = ctx.rng
    cases = []
    while len(cases) < 120:
        c = _history(rng, int(rng.choice([2, 3, 5, 8])), int(rng.randint(2, 9)), 4, MODELS[int(rng.randint(3))])
        if _cond_ok(c):
            cases.append(c)
    return cases + _alg_cases(rng, 20)


def _strip(case):
    c = dict(case)
    c["frames"] = [{k: v for k, v in f.items() if k != "variant"} for f in case["frames"]]
    return c


def shrink_candidates(case):
    if case["fn"] == "multi":
        for s in case["subs"]:
            yield s
        n = len(case["subs"]) - len(case["forks"])
        if n > 1 and case["forks"]:
            subs = case["subs"][:n]
            sched = [j for j in case["schedule"] if j < n]
            yield {"fn": "multi", "subs": subs, "forks": {}, "schedule": sched}
        return
    if case["fn"] != "kalman":
        return
    fr = case["frames"]
    if any("variant" in f for f in fr):
        yield _strip(case)
    # shorter histories (a suffix cannot be cut off the front: indices refer to the previous frame)
    for k in range(len(fr) - 1, 0, -1):
        yield dict(case, frames=fr[:k])
    # remove one feature of the last frame
    last = fr[-1]
    for k in range(min(len(last["old"]), 40)):
        g = {key: (v[:k] + v[k + 1:] if isinstance(v, list) else v) for key, v in last.items()}
        yield dict(case, frames=fr[:-1] + [g])
    # remove a feature that is never referred to later (a new one of frame t dropped at t+1)
    for t in range(len(fr) - 1):
        used = set(o for o in fr[t + 1]["old"] if o != -1)
        for k in range(len(fr[t]["old"])):
            if k not in used:
                g = {key: (v[:k] + v[k + 1:] if isinstance(v, list) else v) for key, v in fr[t].items()}
                nxt = dict(fr[t + 1])
                nxt["old"] = [o - 1 if o > k else o for o in nxt["old"]]
                yield dict(case, frames=fr[:t] + [g, nxt] + fr[t + 2:])
                break


MANIFEST = {
    "level_text": (
        "Machine-checked proof (Coq 8.16) about an executable Gallina model, over exact rationals, of kalman_filter "
        "with KalmanState.map_frames/add_features and the batched dot_n/inv_n/det_n algebra: for every history of "
        "frames with arbitrary keep/permute/drop/add patterns the abstraction of the batched state equals the "
        "per-feature textbook predict/update of each feature's own previous tuple and own correction history "
        "(kalman_refines, by induction over frames), new features start as specified, the noise variance is the "
        "variance of the feature's own corrections, a feature's result is independent of index order and of the other "
        "features, the cofactor inverse is a two-sided inverse for sizes 1 to 4, the batched product is associative and "
        "the gain solves K S = P H^T for every obs_len on which inv_n inverts S (unconditionally for 1..4).  The model is tied to the code "
        "by replaying random histories through both (all five state arrays after every frame; indices exact, "
        "rationals against floats at relative tolerance 1e-9) and the per-feature specification is evaluated on "
        "the implementation's own output; the input state is compared byte for byte around every call."),
    "level_note": (
        "Modelled, not verified: floating-point rounding (the model is exact over Q). Trusted: Coq kernel + vm_compute; "
        "extraction (ExtrOcamlBasic only) and the S-expression driver; the Python harness and its tolerance "
        "comparison; NumPy indexing and scipy.ndimage.variance as transcribed. The tie between model and code is "
        "differential, not a proof about Python."),
    "technique": "Coq proof over executable Q-model + differential correspondence at stated tolerance (extracted OCaml and vm_compute)",
    "design_ref": "DESIGN.md section 7, C09",
}
