"""C06 - 3x3 table-driven binary morphology equals its neighbourhood rule everywhere."""
import ast
import itertools
import numpy as np

ID = "C06"
PROPS_FILE = "theories/Props/C06.v"
EXTRACT = ("theories/Extract/XC06.v", "c06",
           ["entry_tl", "entry_tli", "entry_idx", "entry_op", "entry_spec", "entry_specidx", "entry_opspec",
            "entry_mk", "entry_pat", "entry_mkspec"])
PYX = {"_cpmorphology2.pyx": ["table_lookup_index", "index_lookup", "prepare_for_index_lookup",
                              "extract_from_image_lookup"]}
RULE = ("cases: table_lookup(image, table, border, iterations) over shapes 1x1.. (all contents of every shape of "
        "area <= 6 (quick) / <= 12 within 6x6 plus 1xN, Nx1 (thorough), random larger up to 24x24, thin 1xN/Nx1/2xN/"
        "3xN strips), tables erosive / extensive / neither / constant / built-in / random with one flipped bit, both "
        "border values, iterations 0, 1, k, None (None only where the rule provably or by simulation converges), image "
        "dtypes bool / int8..int64 / uint8..uint64 / float32 / float64 (float forces the plain path on tables the sparse "
        "path would take), image layouts C / Fortran / strided view / read-only, table dtypes bool / int8 / int64 / uint8 / "
        "uint16 / float64 holding 0/1 and strided table views; the 14 wrapper operations with and without masks (life with "
        "iterations 1/k, None only where it converges); sequences of 4-12 calls inside ONE case that alternate freshly "
        "built erosive / extensive / neither tables (each freed before the next is built), re-use a table object after "
        "editing it in place, and interleave built-in operations; all cases of a run share one worker process; "
        "table_lookup_index and prepare/index_lookup/extract called directly. "
        "non-trivial = the output differs from the input image or the image has a set pixel on its rim; distinct by case hash")
TRUSTED = [
    "translator gen_files: dumps the 15 built-in 512-entry tables from the staged package and reads border / mask-fill / "
    "iteration arguments of each wrapper's table_lookup call from its AST (fails closed on any other shape)",
    "modelled, not verified: NumPy slice assignment, fancy indexing table[indexer], np.argwhere raster order, boolean "
    "compaction, astype(bool)/astype(uint32) on binary contents",
    "the transcription of each operation's docstring/comment into a predicate on nine bits (Spec/LutDocs.v), including "
    "the definition of 'objects after labelling' as connected components of the 3x3 pattern",
]
ASSUMPTIONS = ["image contents are binary (0/1 or False/True); tables are NumPy arrays of 512 entries holding 0/1 (any "
               "numeric dtype; Python lists are rejected by the code with TypeError and are not generated); image has at "
               "least one row and one column",
               "until-convergence is requested only where the synchronous rule reaches a fixed point (it does not "
               "terminate otherwise, in the rule and in the code alike)"]
EXHAUSTIVE = {"quick": False, "thorough": False}
CASE_TIMEOUT = 10

TABLES = ["branchpoints_table", "bridge_table", "clean_table", "diag_table", "endpoints_table", "fill_table",
          "fill4_table", "hbreak_table", "vbreak_table", "life_table", "majority_table", "remove_table",
          "thicken_table"]
OPS = [t[:-6] for t in TABLES] + ["spur"]          # wire codes 0..13
SPUR_TABLES = ["spur_table_1", "spur_table_2"]

# ------------------------------------------------------------------------------ translator

_DUMP = r"""
import json, warnings
warnings.filterwarnings("ignore")
import numpy as np
import centrosome.cpmorphology as M
names = %r
out = {}
for n in names:
    a = getattr(M, n)
    if not isinstance(a, np.ndarray) or a.shape != (512,) or a.dtype != np.bool_:
        raise SystemExit("table %%s is not a boolean array of 512 entries: %%r %%r" %% (n, getattr(a, "shape", None), getattr(a, "dtype", None)))
    out[n] = "".join("1" if x else "0" for x in a.tolist())
print(json.dumps(out))
"""


def _coq_bools(bits):
    return "[" + ";".join("true" if c == "1" else "false" for c in bits) + "]"


def _const_bool(node, what):
    if isinstance(node, ast.Constant) and isinstance(node.value, bool):
        return int(node.value)
    raise ValueError("unrecognised %s: %s" % (what, ast.dump(node)))


class _Obj:
    """a value a local name can be bound to during the symbolic run of a wrapper body"""
    def __init__(self, init):
        self.init = init            # normalised source text of the defining expression (locals inlined)
        self.stores = []            # [(sequence number, index text, value text or ast node)]


def _norm(text):
    return ast.unparse(ast.parse(text, mode="eval"))


class _WrapperRun:
    """Symbolic evaluation of one wrapper body for one scenario (mask is None / mask is given): an environment of
    locals, `if` on the mask decided by the scenario (so an early return is the same as if/else), pure locals inlined
    into the expressions that use them, in-place stores recorded per object.  Anything it does not understand raises
    (fail closed)."""

    def __init__(self, fdef, masked):
        self.f = fdef
        self.masked = masked
        self.env = {}
        for a in fdef.args.args:
            self.env[a.arg] = _Obj(a.arg)
        self.seq = 0
        self.calls = []             # (sequence number, argument object, table name, border, mode)
        self.ret = None

    def text(self, node):
        """source text of an expression with pure locals replaced by their definitions"""
        run = self

        class Inl(ast.NodeTransformer):
            def visit_Name(self, n):
                o = run.env.get(n.id)
                if o is None:
                    return n
                if o.stores:
                    raise ValueError("%s: %s is modified in place and then used inside an expression" % (run.f.name, n.id))
                return ast.parse("(" + o.init + ")", mode="eval").body
        import copy
        return _norm(ast.unparse(Inl().visit(copy.deepcopy(node))))

    def cond(self, node):
        if isinstance(node, ast.UnaryOp) and isinstance(node.op, ast.Not):
            return not self.cond(node.operand)
        if (isinstance(node, ast.Compare) and len(node.ops) == 1 and isinstance(node.left, ast.Name)
                and self.env.get(node.left.id) is not None and self.env[node.left.id].init == "mask"
                and not self.env[node.left.id].stores
                and isinstance(node.comparators[0], ast.Constant) and node.comparators[0].value is None):
            if isinstance(node.ops[0], ast.Is):
                return not self.masked
            if isinstance(node.ops[0], ast.IsNot):
                return self.masked
        raise ValueError("%s: unrecognised condition %s" % (self.f.name, ast.unparse(node)))

    def value(self, node):
        """object an expression evaluates to"""
        if isinstance(node, ast.Name) and node.id in self.env:
            return self.env[node.id]                       # alias, same object
        if isinstance(node, ast.Call) and isinstance(node.func, ast.Name) and node.func.id == "table_lookup":
            a = node.args
            if node.keywords or not (3 <= len(a) <= 4) or not isinstance(a[0], ast.Name) or a[0].id not in self.env \
                    or not isinstance(a[1], ast.Name):
                raise ValueError("%s: unrecognised call %s" % (self.f.name, ast.unparse(node)))
            border = _const_bool(a[2], "border value")
            if len(a) == 3:
                mode = -1
            else:
                it = a[3]
                if isinstance(it, ast.Name) and it.id in self.env and self.env[it.id].init == "iterations" \
                        and not self.env[it.id].stores:
                    mode = -2
                elif isinstance(it, ast.Constant) and isinstance(it.value, int) and not isinstance(it.value, bool) \
                        and it.value >= 0:
                    mode = it.value
                else:
                    raise ValueError("%s: unrecognised iterations argument %s" % (self.f.name, ast.unparse(it)))
            self.seq += 1
            self.calls.append((self.seq, self.env[a[0].id], a[1].id, border, mode))
            return _Obj("<table_lookup result %d>" % self.seq)
        for sub in ast.walk(node):
            if isinstance(sub, ast.Call) and isinstance(sub.func, ast.Name):
                raise ValueError("%s: unexpected call %s" % (self.f.name, ast.unparse(sub)))
        return _Obj(self.text(node))

    def block(self, stmts):
        for st in stmts:
            if self.ret is not None:
                raise ValueError("%s: statement after return" % self.f.name)
            if isinstance(st, ast.Expr) and isinstance(st.value, ast.Constant) and isinstance(st.value.value, str):
                continue
            if isinstance(st, (ast.Global, ast.Pass)):
                continue
            if isinstance(st, ast.If):
                self.block(st.body if self.cond(st.test) else st.orelse)
                if self.ret is not None:
                    return
                continue
            if isinstance(st, ast.Return):
                if st.value is None:
                    raise ValueError("%s: bare return" % self.f.name)
                self.ret = self.value(st.value)
                return
            if isinstance(st, ast.Assign) and len(st.targets) == 1:
                t = st.targets[0]
                if isinstance(t, ast.Name):
                    self.env[t.id] = self.value(st.value)
                    continue
                if isinstance(t, ast.Subscript) and isinstance(t.value, ast.Name) and t.value.id in self.env:
                    self.seq += 1
                    val = st.value if isinstance(st.value, ast.Constant) else self.text(st.value)
                    self.env[t.value.id].stores.append((self.seq, self.text(t.slice), val))
                    continue
            raise ValueError("%s: unrecognised statement %s" % (self.f.name, ast.unparse(st)[:80]))

    def run(self):
        self.block(self.f.body)
        if self.ret is None:
            raise ValueError("%s: path without return" % self.f.name)
        return self


def _wrapper_summary(fdef, tname):
    """(border, mask fill or -1, mode) of one wrapper, from both paths of its body"""
    op = fdef.name
    if [a.arg for a in fdef.args.args][:2] != ["image", "mask"]:
        raise ValueError("wrapper %s: unexpected parameters" % op)
    res = {}
    for masked in (False, True):
        r = _WrapperRun(fdef, masked).run()
        if len(r.calls) != 1:
            raise ValueError("wrapper %s: %d table_lookup calls on the %s path" % (op, len(r.calls), "masked" if masked else "unmasked"))
        seq, arg, table, border, mode = r.calls[0]
        if table != tname:
            raise ValueError("wrapper %s: uses table %s" % (op, table))
        image = r.env["image"]
        if image.init != "image" or image.stores:
            raise ValueError("wrapper %s: rebinds or modifies its input image" % op)
        if r.ret.init != "<table_lookup result %d>" % seq:
            raise ValueError("wrapper %s: does not return the table_lookup result" % op)
        if arg is image:
            # the image itself goes in, nothing is restored: the mask (if any) is not taken into account
            if r.ret.stores:
                raise ValueError("wrapper %s: stores into the result without masking the input" % op)
            fill = -1
        else:
            if not masked:
                raise ValueError("wrapper %s: the unmasked path does not pass the image itself" % op)
            if arg.init != "image.astype(bool).copy()" or len(arg.stores) != 1 or arg.stores[0][0] > seq \
                    or arg.stores[0][1] != "~mask":
                raise ValueError("wrapper %s: unrecognised masking of the input: %s %s" % (op, arg.init, arg.stores))
            fill = _const_bool(arg.stores[0][2], "mask fill value") if not isinstance(arg.stores[0][2], str) else None
            if fill is None:
                raise ValueError("wrapper %s: mask fill value is not a constant" % op)
            if len(r.ret.stores) != 1 or r.ret.stores[0][1] != "~mask" or r.ret.stores[0][2] != "image[~mask]":
                raise ValueError("wrapper %s: unrecognised restore step %s" % (op, r.ret.stores))
        res[masked] = (border, fill, mode)
    if res[False][0] != res[True][0] or res[False][2] != res[True][2]:
        raise ValueError("wrapper %s: masked and unmasked paths call table_lookup differently: %s" % (op, res))
    if res[False][1] != -1:
        raise ValueError("wrapper %s: unmasked path masks" % op)
    return (res[True][0], res[True][1], res[True][2])


def wrapper_meta(src):
    """(border, maskfill or -1, mode) of every table wrapper, derived by symbolic evaluation of its body on the
    unmasked and on the masked path (robust to early returns, hoisted or inlined sub-expressions, `not a is b` vs
    `a is not b`, statement order that does not matter).  Fails closed on anything it cannot interpret."""
    tree = ast.parse(src)
    funs = {n.name: n for n in tree.body if isinstance(n, ast.FunctionDef)}
    res = {}
    for op, tname in zip(OPS[:-1], TABLES):
        f = funs.get(op)
        if f is None:
            raise ValueError("wrapper %s not found" % op)
        res[op] = _wrapper_summary(f, tname)
    return res


def gen_files(ctx):
    import json
    tabs = json.loads(ctx.run_staged_python(_DUMP % (TABLES + SPUR_TABLES,)))
    meta = wrapper_meta(ctx.staged_source("centrosome/cpmorphology.py"))
    lines = ["(* GENERATED by harness/props/c06.py gen_files from the staged centrosome package - do not edit. *)",
             "From Coq Require Import ZArith List Bool.", "Import ListNotations.", "Open Scope Z_scope.", ""]
    for n in TABLES + SPUR_TABLES:
        short = "t_" + n.replace("_table", "").replace("_", "")
        lines.append("Definition %s : list bool := %s." % (short, _coq_bools(tabs[n])))
    lines.append("")
    lines.append("(* table, (border, mask fill or -1, iteration mode) in the order of the wire codes *)")
    ents = []
    for op, n in zip(OPS[:-1], TABLES):
        b, f, m = meta[op]
        ents.append("(t_%s, (%d, %s, %s))" % (n.replace("_table", ""), b, "(%d)" % f, "(%d)" % m))
    lines.append("Definition gen_ops : list (list bool * (Z * Z * Z)) :=\n  [ " + ";\n    ".join(ents) + " ].")
    return {"theories/Gen/TablesC06.v": "\n".join(lines) + "\n"}


# ------------------------------------------------------------------------------ reference used by the generator only

def _ref_step(img, table, border):
    H, W = img.shape
    p = np.full((H + 2, W + 2), bool(border))
    p[1:-1, 1:-1] = img
    idx = np.zeros((H, W), int)
    k = 0
    for di in range(3):
        for dj in range(3):
            idx += p[di:di + H, dj:dj + W].astype(int) << k
            k += 1
    return table[idx]


def _converges(img, table, border, limit=60):
    cur = img
    for _ in range(limit):
        nxt = _ref_step(cur, table, border)
        if np.array_equal(nxt, cur):
            return True
        cur = nxt
    return False


_CENTER = (np.arange(512) & 16) > 0


def _bits(t):
    return "".join("1" if x else "0" for x in np.asarray(t, bool).tolist())


def _tab(bits):
    return np.array([c == "1" for c in bits], bool)


_BUILTIN = {}


def _builtin_tables():
    """tables of the *unmodified* documented rules (used only to diversify generated tables)"""
    if not _BUILTIN:
        pop = np.array([bin(i).count("1") for i in range(512)])
        _BUILTIN["majority"] = pop > 4
        _BUILTIN["life"] = (pop == 3) | (_CENTER & (pop == 4))
        _BUILTIN["clean"] = _CENTER & (pop > 1)
        _BUILTIN["fill"] = _CENTER | (pop == 8)
        _BUILTIN["endpoints"] = _CENTER & (pop <= 2)
        _BUILTIN["remove"] = _CENTER & ~((np.arange(512) & 0b010111010) == 0b010111010)
        _BUILTIN["erode"] = np.arange(512) == 511
        _BUILTIN["dilate"] = np.arange(512) > 0
        _BUILTIN["shift"] = (np.arange(512) & 1) > 0          # copies the upper-left neighbour
        _BUILTIN["shift8"] = (np.arange(512) & 256) > 0       # copies the lower-right neighbour
        _BUILTIN["left"] = (np.arange(512) & 8) > 0
        _BUILTIN["up"] = (np.arange(512) & 2) > 0
        _BUILTIN["right"] = (np.arange(512) & 32) > 0
        _BUILTIN["down"] = (np.arange(512) & 128) > 0
        _BUILTIN["ur"] = (np.arange(512) & 4) > 0
        _BUILTIN["ll"] = (np.arange(512) & 64) > 0
    return _BUILTIN


def _rand_table(rng):
    kind = rng.choice(["erosive", "extensive", "neither", "neither", "builtin", "const", "erosive_b", "extensive_b", "onebit"])
    if kind == "builtin":
        names = sorted(_builtin_tables())
        return _builtin_tables()[names[rng.randint(len(names))]].copy(), "builtin"
    if kind == "const":
        return np.full(512, bool(rng.randint(2))), "const"
    if kind == "onebit":
        names = sorted(_builtin_tables())
        t = _builtin_tables()[names[rng.randint(len(names))]].copy()
        t[rng.randint(512)] ^= True
        return t, "onebit"
    dens = rng.choice([0.1, 0.5, 0.9])
    t = rng.rand(512) < dens
    if kind.startswith("erosive"):
        t[~_CENTER] = False
        if kind == "erosive_b":
            t &= _builtin_tables()["clean"] | (rng.rand(512) < 0.5)
    elif kind.startswith("extensive"):
        t[_CENTER] = True
    return t, kind.split("_")[0]


def _rand_shape(rng, big=24):
    u = rng.rand()
    if u < 0.30:
        return int(rng.randint(1, 4)), int(rng.randint(1, 4))
    if u < 0.55:
        return int(rng.randint(1, 7)), int(rng.randint(1, 7))
    if u < 0.70:
        a, b = int(rng.randint(1, 4)), int(rng.randint(3, big + 1))
        return (a, b) if rng.rand() < 0.5 else (b, a)
    if u < 0.85:
        return int(rng.randint(3, 10)), int(rng.randint(3, 10))
    return int(rng.randint(3, big + 1)), int(rng.randint(3, big + 1))


def _rand_img(rng, H, W):
    u = rng.rand()
    if u < 0.06:
        return np.zeros((H, W), bool)
    if u < 0.12:
        return np.ones((H, W), bool)
    if u < 0.20:
        img = np.zeros((H, W), bool)      # rim only
        img[0, :] = img[-1, :] = True
        img[:, 0] = img[:, -1] = True
        return img ^ (rng.rand(H, W) < 0.1)
    if u < 0.26:
        return (np.add.outer(np.arange(H), np.arange(W)) % 2).astype(bool)
    return rng.rand(H, W) < rng.choice([0.1, 0.3, 0.5, 0.7, 0.9])


DTYPES = ["bool", "bool", "bool", "bool", "int8", "int16", "int32", "int64", "uint8", "uint16", "uint32", "uint64",
          "float32", "float64"]
TDTYPES = ["bool", "bool", "bool", "int8", "int64", "uint8", "uint16", "float64"]
LAYOUTS = ["C", "C", "C", "F", "strided", "ro"]


def _tl_case(rng, img, table=None, kind=None):
    if table is None:
        table, kind = _rand_table(rng)
    border = int(rng.randint(2))
    dt = str(rng.choice(DTYPES))
    it = int(rng.choice([1, 1, 2, 3, 5, 0, -1, -1]))
    ero = not table[~_CENTER].any()
    ext = bool(table[_CENTER].all())
    if it < 0 and not (ero or ext):
        if not _converges(img, table, border):
            it = int(rng.choice([1, 2, 4, 7]))
    return {"fn": "tl", "img": img.astype(int).tolist(), "dt": dt, "tab": _bits(table), "b": border, "it": it,
            "kind": kind or "given", "tdt": str(rng.choice(TDTYPES)), "tlay": str(rng.choice(["C", "C", "C", "strided"])),
            "lay": str(rng.choice(LAYOUTS))}


def _op_case(rng, img, op=None):
    op = op or OPS[rng.randint(len(OPS))]
    mask = None
    if rng.rand() < 0.5:
        mask = (rng.rand(*img.shape) < rng.choice([0.5, 0.8, 0.95])).astype(int).tolist()
    it = rng.choice(["default", 1, 2, 3, -1])
    it = it if it == "default" else int(it)
    if op in ("endpoints", "branchpoints"):
        it = "default"
    dt = str(rng.choice(["bool", "bool", "bool", "int32", "uint8", "int64", "uint16", "float64"]))
    c = {"fn": "op", "op": op, "img": img.astype(int).tolist(), "dt": dt, "mask": mask, "it": it,
         "lay": str(rng.choice(LAYOUTS))}
    return c


def _op_safe(c):
    """False when the documented rule of this wrapper call does not reach a fixed point although the call runs until
    nothing changes (life/bridge/diag/majority/thicken/... with iterations=None): such a call does not terminate - in
    the rule and in the code alike - and is not generated."""
    op = c["op"]
    if op == "spur":
        return True
    img = np.array(c["img"], bool)
    t = _DOC_TABLES.get(op)
    if t is None:
        return True
    until = (op in ("hbreak", "vbreak", "remove")) or c["it"] == -1
    if op in ("endpoints", "branchpoints") or not until:
        return True
    fillv = op in ("fill", "fill4")
    m = img.copy()
    if c["mask"] is not None and op != "life":      # life ignores its mask
        m[~np.array(c["mask"], bool)] = fillv
    return _converges(m, t, fillv, limit=80)


def _doc_tables():
    """tables of the documented rules, independent of the implementation (generator-side only: decides which
    until-convergence calls terminate)"""
    from scipy import ndimage as scind
    pop = np.array([bin(i).count("1") for i in range(512)])
    idx = np.arange(512)

    def pat(i):
        return np.array([[(i >> (3 * r + c)) & 1 for c in range(3)] for r in range(3)], bool)
    e8 = np.ones((3, 3), bool)
    d = {}
    d["majority"] = pop > 4
    d["life"] = (pop == 3) | (_CENTER & (pop == 4))
    d["clean"] = _CENTER & (pop > 1)
    d["fill"] = _CENTER | (pop == 8)
    d["fill4"] = _CENTER | ((idx & 0b010101010) == 0b010101010)
    d["hbreak"] = _CENTER & (idx != 0b111010111)
    d["vbreak"] = _CENTER & (idx != 0b101111101)
    d["remove"] = _CENTER & ~((idx & 0b010111010) == 0b010111010)
    d["bridge"] = np.array([bool(_CENTER[i]) or scind.label(pat(i), e8)[1] > 1 for i in range(512)])
    d["thicken"] = np.array([bool(_CENTER[i]) or scind.label(pat(i & ~16), e8)[1] == 1 for i in range(512)])
    dg = _CENTER.copy()
    for a, b, c in ((1, 3, 0), (1, 5, 2), (7, 5, 8), (7, 3, 6)):
        dg |= ((idx >> a) & 1).astype(bool) & ((idx >> b) & 1).astype(bool) & ~((idx >> c) & 1).astype(bool)
    d["diag"] = dg
    d["endpoints"] = _CENTER & (pop <= 2)
    e4 = None
    d["branchpoints"] = np.array([bool(_CENTER[i]) and scind.label(pat(i & ~16))[1] > 2 for i in range(512)])
    d["spur1"] = _CENTER & ~((pop == 2) & ((idx & 15) != 0))
    d["spur2"] = _CENTER & ~((pop == 2) & ((idx & (32 + 64 + 128 + 256)) != 0))
    return d


_DOC_TABLES = {}


def _struct_img(rng):
    """images on which the operations need SEVERAL rounds: blobs with straight or bent tails in any of the eight
    directions, long one-pixel lines, nested rings, thick blobs, isolated points (thicken/bridge grow for many rounds),
    diagonal stripes, and mixtures"""
    H, W = int(rng.randint(5, 15)), int(rng.randint(5, 15))
    img = np.zeros((H, W), bool)
    dirs = [(-1, -1), (-1, 0), (-1, 1), (0, -1), (0, 1), (1, -1), (1, 0), (1, 1)]

    def put(y, x):
        if 0 <= y < H and 0 <= x < W:
            img[y, x] = True
    for _ in range(int(rng.randint(1, 4))):
        kind = rng.choice(["tailblob", "tailblob", "line", "rings", "thick", "points", "stripes", "bent"])
        y, x = int(rng.randint(H)), int(rng.randint(W))
        if kind in ("tailblob", "bent"):
            b = int(rng.randint(1, 4))
            img[y:y + b, x:x + b] = True
            for _t in range(int(rng.randint(1, 3))):
                dy, dx = dirs[rng.randint(8)]
                cy, cx = y + (b - 1 if dy > 0 else 0), x + (b - 1 if dx > 0 else 0)
                n = int(rng.randint(2, 9))
                for k in range(1, n + 1):
                    if kind == "bent" and k == n // 2 + 1:
                        dy, dx = dirs[rng.randint(8)]
                    cy, cx = cy + dy, cx + dx
                    put(cy, cx)
        elif kind == "line":
            dy, dx = dirs[rng.randint(8)]
            for k in range(int(rng.randint(3, 12))):
                put(y + k * dy, x + k * dx)
        elif kind == "rings":
            for r in range(0, int(rng.randint(2, 6)), 2):
                y0, y1, x0, x1 = y - r, y + r, x - r, x + r
                for yy in range(y0, y1 + 1):
                    put(yy, x0); put(yy, x1)
                for xx in range(x0, x1 + 1):
                    put(y0, xx); put(y1, xx)
        elif kind == "thick":
            b = int(rng.randint(3, 8))
            img[y:y + b, x:x + b] = True
            if rng.rand() < 0.5:
                put(y + b // 2, x + b // 2); img[min(H - 1, y + b // 2), min(W - 1, x + b // 2)] = False
        elif kind == "points":
            for _k in range(int(rng.randint(1, 5))):
                put(int(rng.randint(H)), int(rng.randint(W)))
        else:
            off = int(rng.randint(2, 4))
            yy, xx = np.indices((H, W))
            img |= ((yy + xx) % off == 0) & (rng.rand(H, W) < 0.9)
    if rng.rand() < 0.15:
        img = ~img
    if rng.rand() < 0.2:
        img ^= rng.rand(H, W) < 0.03
    return img


def _rounds(op, img, mask, k):
    """(rule output after k rounds or at the fixed point, number of the last round that still changed the image) by
    the documented rule of the operation - generator-side reference used to pick and to COUNT multi-round cases"""
    t = _DOC_TABLES
    fillv = op in ("fill", "fill4")
    cur = np.array(img, bool)
    if mask is not None and op != "life":
        cur = cur.copy(); cur[~np.array(mask, bool)] = fillv
    if op in ("endpoints", "branchpoints"):
        k = 1
    if op in ("hbreak", "vbreak", "remove"):
        k = None
    limit = 80 if k is None else k
    if op == "spur" and k is None:
        limit = int(cur.sum())
    last = 0
    for r in range(1, limit + 1):
        if op == "spur":
            nxt = _ref_step(_ref_step(cur, t["spur1"], False), t["spur2"], False)
        else:
            nxt = _ref_step(cur, t[op], fillv)
        if not np.array_equal(nxt, cur):
            last = r
        elif k is None and op != "spur":
            return cur, last, True
        cur = nxt
    return cur, last, (k is not None or op == "spur")


def _kind_table(rng, kind):
    t = rng.rand(512) < rng.choice([0.3, 0.5, 0.7])
    if kind == "erosive":
        t[~_CENTER] = False
    elif kind == "extensive":
        t[_CENTER] = True
    else:
        t[int(rng.choice(np.flatnonzero(~_CENTER)))] = True
        t[int(rng.choice(np.flatnonzero(_CENTER)))] = False
    return t


def _seq_case(rng):
    """4-12 calls in one process: fresh tables of alternating kinds (built after the previous one was freed), the same
    table object edited in place into another kind, built-in operations in between"""
    steps = []
    kinds = ["erosive", "extensive", "neither"]
    k0 = int(rng.randint(3))
    n = int(rng.randint(4, 13))
    same_shape = rng.rand() < 0.5
    H0, W0 = _rand_shape(rng, 8)
    tdt = str(rng.choice(TDTYPES)) if rng.rand() < 0.5 else "bool"
    for j in range(n):
        H, W = (H0, W0) if same_shape else _rand_shape(rng, 8)
        img = _rand_img(rng, H, W)
        u = rng.rand()
        if u < 0.2:
            c = _op_case(rng, img)
            if c["it"] == -1 or not _op_safe(c):
                c["it"] = "default" if c["op"] in ("endpoints", "branchpoints") else 1
                if not _op_safe(c):
                    continue
            steps.append(c)
            continue
        kind = kinds[(k0 + j + (int(rng.randint(3)) if rng.rand() < 0.3 else 0)) % 3]
        c = _tl_case(rng, img, _kind_table(rng, kind), kind)
        c["dt"] = str(rng.choice(["bool", "bool", "bool", "int32", "uint8"]))
        c["tdt"] = tdt if rng.rand() < 0.7 else str(rng.choice(TDTYPES))
        c["tlay"] = "C"
        if steps and steps[-1]["fn"] == "tl" and rng.rand() < 0.35:
            c["reuse"] = True                  # previous table object, edited in place into this table
            c["tdt"] = steps[-1]["tdt"]
            if rng.rand() < 0.5:               # only a few entries change, but the class does
                t = _tab(steps[-1]["tab"]).copy()
                if kind == "neither":
                    t[int(rng.choice(np.flatnonzero(~_CENTER)))] = True
                    t[int(rng.choice(np.flatnonzero(_CENTER)))] = False
                elif kind == "erosive":
                    t[~_CENTER] = False
                else:
                    t[_CENTER] = True
                c["tab"] = _bits(t)
                if c["it"] < 0 and not _converges(img, t, c["b"]):
                    c["it"] = 2
        steps.append(c)
    return {"fn": "seq", "steps": steps}


def _all_images(H, W):
    for bits in itertools.product((0, 1), repeat=H * W):
        yield np.array(bits, bool).reshape(H, W)


def generate(ctx):
    rng = ctx.rng
    _DOC_TABLES.update(_doc_tables())
    cases = []
    # (a) all contents of every small shape, one random configuration each (two in the thorough tier)
    amax = ctx.n(6, 12)
    for H in range(1, 13):
        for W in range(1, 13):
            if H * W > amax or (min(H, W) > 1 and max(H, W) > 6):
                continue
            for img in _all_images(H, W):
                cases.append(_tl_case(rng, img))
                ctx.count("exhaustive-shape-images")
    # (b) every built-in operation on small and larger images, with and without masks
    for op in OPS:
        for _ in range(ctx.n(40, 600)):
            H, W = _rand_shape(rng, 14)
            c = _op_case(rng, _rand_img(rng, H, W), op)
            if not _op_safe(c):
                ctx.count("excluded:wrapper-call-that-does-not-terminate")
                # same image with an explicit finite count where the wrapper honours one
                if op in ("hbreak", "vbreak", "remove"):
                    continue
                c["it"] = int(rng.choice([1, 2, 3]))
            cases.append(c)
    # (b2) every wrapper with iterations in {default, 1, 2, 3, 5, None where it converges} on structured images that
    # need several rounds; the evidence counts, per wrapper, the calls whose LAST requested round still changes the image
    for op in OPS:
        ctx.count("multi-round:%s (round >= 2 still changes the image)" % op, 0)    # zero stays visible
        for it in ("default", 1, 2, 3, 5, -1):
            made = 0
            tries = 0
            while made < ctx.n(8, 60) and tries < ctx.n(80, 600):
                tries += 1
                img = _struct_img(rng)
                c = _op_case(rng, img, op)
                c["it"] = "default" if op in ("endpoints", "branchpoints") else it
                if rng.rand() < 0.7:
                    c["mask"] = None
                k = None if c["it"] == -1 else (1 if c["it"] == "default" else c["it"])
                _, last, conv = _rounds(op, img, c["mask"], k)
                if not conv:
                    ctx.count("excluded:wrapper-call-that-does-not-terminate")
                    continue
                # prefer calls whose requested rounds are all active (for None: at least two active rounds)
                want = 2 if k is None else k
                if op not in ("endpoints", "branchpoints", "hbreak", "vbreak", "remove") and last < want and tries < ctx.n(60, 450):
                    continue
                cases.append(c)
                made += 1
                ctx.count("wrapper-iterations:%s:%s" % (op, "None" if it == -1 else it))
                if last >= 2:
                    ctx.count("multi-round:%s (round >= 2 still changes the image)" % op)
                if last >= 3:
                    ctx.count("multi-round:%s (round >= 3 still changes the image)" % op)
    # (c) random table_lookup calls
    for _ in range(ctx.n(1400, 24000)):
        H, W = _rand_shape(rng)
        cases.append(_tl_case(rng, _rand_img(rng, H, W)))
    # (d) the dense kernel and the sparse kernels directly
    for _ in range(ctx.n(300, 5000)):
        H, W = _rand_shape(rng, 40)
        H, W = max(H, 3), max(W, 3)
        cases.append({"fn": "tli", "img": _rand_img(rng, H, W).astype(int).tolist()})
    for _ in range(ctx.n(300, 5000)):
        H, W = _rand_shape(rng, 12)
        t = rng.rand(512) < rng.choice([0.3, 0.6, 0.9])
        t[~_CENTER] = False
        cases.append({"fn": "idx", "img": _rand_img(rng, H, W).astype(int).tolist(), "tab": _bits(t),
                      "b": int(rng.randint(2)), "it": int(rng.choice([1, 2, 3, -1, 0]))})
    # (g) inputs larger than any plausible internal chunk, every path: 1100x3 / 3x1100 (dense kernel), 1100x2 / 1x1100
    # (slicing path), 300x300 sparse; thorough: 600x600 sparse (model skipped there: the line-level model of the dense
    # kernel is quadratic; the rule itself is still evaluated on the implementation's output)
    big_shapes = [(1100, 3, 0.4)]
    if not ctx.quick():
        big_shapes += [(3, 1100, 0.4), (1100, 2, 0.5), (1, 1100, 0.5), (300, 300, 0.004), (600, 600, 0.002), (1100, 3, 0.05), (3, 1100, 0.9), (2, 1100, 0.3), (1100, 1, 0.5), (64, 1100, 0.01)]
    combos = [("erosive", "bool"), ("extensive", "bool"), ("neither", "bool"), ("erosive", "float64"),
              ("extensive", "int32"), ("builtin", "uint8")]
    for n, (H, W, dens) in enumerate(big_shapes):
        # quick: three of the six (table class, dtype) combinations per shape, rotating, so that every path is taken
        # all six (table class, dtype) combinations on the thin 1100-long shapes in the thorough tier; three of them,
        # rotating so that every path is taken, elsewhere (quick tier, and the images with many pixels)
        for kind, dt in (combos[:4] if ctx.quick() else combos if H * W < 10000 else [combos[(n + j) % 6] for j in (0, 2, 4)]):
            img = rng.rand(H, W) < dens
            img[0, 0] = img[-1, -1] = img[0, -1] = img[-1, 0] = True
            if kind == "builtin":
                t = _doc_tables()[str(rng.choice(["majority", "bridge", "thicken", "diag"]))]
            else:
                t = _kind_table(rng, kind)
            c = _tl_case(rng, img, t, kind)
            c["dt"] = dt
            c["it"] = int(rng.choice([1, 2]))
            c["lay"] = str(rng.choice(["C", "F", "strided"]))
            plain = not ((kind == "erosive" and dt != "float64") or (kind == "extensive" and dt == "bool"))
            if H * W > 100000 or (H * W > 50000 and plain):
                c["nomodel"] = True
                c["it"] = 1
            cases.append(c)
            ctx.count("large-input")
    for op in (OPS if not ctx.quick() else ["spur"]):
        H, W = (1100, 3) if rng.rand() < 0.5 else (3, 1100)
        c = _op_case(rng, rng.rand(H, W) < 0.5, op)
        if c["it"] == -1 or not _op_safe(c):
            c["it"] = "default" if op in ("endpoints", "branchpoints") else 2
        if _op_safe(c):
            cases.append(c)
            ctx.count("large-input")
    cases.append({"fn": "tli", "img": (rng.rand(1100, 3) < 0.5).astype(int).tolist()})
    if not ctx.quick():
        cases.append({"fn": "tli", "img": (rng.rand(3, 1100) < 0.5).astype(int).tolist()})
    t = _kind_table(rng, "erosive")
    for (H, W) in (((1100, 3),) if ctx.quick() else ((1100, 3), (3, 1100), (1, 1100))):
        cases.append({"fn": "idx", "img": (rng.rand(H, W) < 0.6).astype(int).tolist(), "tab": _bits(t), "b": int(rng.randint(2)), "it": 2})
    # (f) the table construction helpers
    for _ in range(ctx.n(150, 1500)):
        care = (rng.rand(9) < rng.choice([0.3, 0.7, 1.0])).astype(int).tolist()
        cases.append({"fn": "mk", "v": int(rng.randint(2)), "pat": rng.randint(0, 2, 9).tolist(),
                      "care": care if rng.rand() < 0.8 else None, "pdt": str(rng.choice(["bool", "int64"]))})
    for k in ([0, 1, 16, 255, 256, 511] + rng.randint(0, 512, ctx.n(40, 506)).tolist()):
        cases.append({"fn": "pat", "k": int(k)})
    # (0) sequences of calls inside one case; first, so that a defect that depends on the calls made before in the
    # same process is reported with a self-contained replay
    seqs = []
    for _ in range(ctx.n(200, 3000)):
        c = _seq_case(rng)
        if c["steps"]:
            seqs.append(c)
            ctx.count("seq-steps", len(c["steps"]))
            ctx.count("seq-steps-reusing-an-edited-table", sum(1 for st in c["steps"] if st.get("reuse")))
    # the first ones run in a process of their own each (outcome independent of the run's history)
    for c in seqs[:ctx.n(30, 200)]:
        c["iso"] = True
        ctx.count("seq-in-own-process")
    cases = seqs + cases
    for c in cases:
        ctx.count("fn:" + c["fn"])
        if c["fn"] in ("tl", "op"):
            ctx.count("layout:" + c.get("lay", "C"))
        if c["fn"] == "tl":
            ctx.count("table-dtype:" + c.get("tdt", "bool"))
            ctx.count("table:" + c["kind"]); ctx.count("dtype:" + c["dt"])
            ctx.count("iters:" + ("None" if c["it"] < 0 else "k"))
            h, w = len(c["img"]), len(c["img"][0])
            ctx.count("shape:" + ("side<3" if min(h, w) < 3 else ">=3x3"))
    return cases


# ------------------------------------------------------------------------------ implementation side

def _arr(img, dt, lay="C"):
    base = np.array(img, dtype=bool if dt == "bool" else dt)
    if lay == "F":
        return np.asfortranarray(base)
    if lay == "strided":
        # a view with gaps holding the complement, so that reading with the wrong strides shows
        H, W = base.shape
        big = np.ones((2 * H + 1, 3 * W + 2), base.dtype)
        view = big[1::2, 2::3][:H, :W]
        big[0::2, :] = 0
        view[...] = base
        return view
    if lay == "ro":
        base.setflags(write=False)
    return base


def _mk_table(bits, tdt="bool", tlay="C"):
    t = _tab(bits).astype(bool if tdt == "bool" else tdt)
    if tlay == "strided":
        big = np.ones(1024, t.dtype)
        big[0::2] = t
        return big[0::2]
    return t


def _grid(a):
    a = np.asarray(a)
    if a.dtype == np.bool_:
        return a.astype(int).tolist()
    if not np.all(a == a.astype(np.int64)):
        raise ValueError("non-integer output")
    return a.astype(np.int64).tolist()


def _call_tl(M, c, table):
    img = _arr(c["img"], c["dt"], c.get("lay", "C"))
    r = M.table_lookup(img, table, bool(c["b"]), None if c["it"] < 0 else c["it"])
    return {"out": _grid(r), "shape": list(np.asarray(r).shape)}


def _call_op(M, c):
    img = _arr(c["img"], c["dt"], c.get("lay", "C"))
    mask = None if c["mask"] is None else np.array(c["mask"], bool)
    f = getattr(M, c["op"])
    if c["it"] == "default":
        r = f(img, mask) if mask is not None else f(img)
    else:
        r = f(img, mask, None if c["it"] < 0 else c["it"])
    return {"out": _grid(r), "shape": list(np.asarray(r).shape)}


def _run_seq(M, case):
    """many calls in one process: every user table is built, used and dropped before the next one is built (CPython
    then hands the new array the id/memory of the old one); "reuse" steps edit the previous table object in place and
    call again with the very same object"""
    import signal, time
    outs = []
    table = None

    def on_alarm(signum, frame):
        raise TimeoutError("step timeout")
    try:
        old_handler = signal.signal(signal.SIGALRM, on_alarm)
        remaining = signal.alarm(0)
    except ValueError:                                   # not in the main thread
        old_handler, remaining = None, 0
    t0 = time.time()
    for st in case["steps"]:
        if time.time() - t0 > 12:                        # several hanging steps: do not starve the worker's watchdog
            outs.append({"exc": "TimeoutError", "msg": "sequence budget used up by hanging steps"})
            continue
        try:
            if old_handler is not None:
                signal.alarm(4)                          # a step is a call of milliseconds
            if st["fn"] == "op":
                outs.append(_call_op(M, st))
                continue
            if st.get("reuse") and table is not None:
                new = _tab(st["tab"])
                table[...] = new.astype(table.dtype)          # edited in place, same object
            else:
                table = None                                   # freed first
                table = _mk_table(st["tab"], st.get("tdt", "bool"), st.get("tlay", "C"))
            outs.append(_call_tl(M, st, table))
        except Exception as e:                                 # noqa: outcome of that step
            outs.append({"exc": type(e).__name__, "msg": str(e)[:200]})
        finally:
            if old_handler is not None:
                signal.alarm(0)
    if old_handler is not None:
        signal.signal(signal.SIGALRM, old_handler)
        if remaining:
            signal.alarm(max(1, int(remaining - (time.time() - t0))))
    return {"steps": outs}


_ISO = r"""
import json, os, sys, warnings
warnings.filterwarnings("ignore")
import numpy as np
np.seterr(all="ignore")
import centrosome
assert os.path.realpath(centrosome.__file__).startswith(os.path.realpath(os.environ["VERIF_STAGE"]))
from centrosome import cpmorphology as M
from harness.props import c06
print(json.dumps(c06._run_seq(M, json.load(sys.stdin))))
"""


def _run_seq_isolated(case):
    """the same sequence in a process of its own, so that the outcome depends on nothing but the case (a replay
    reproduces it)"""
    import json, subprocess, sys
    r = subprocess.run([sys.executable, "-c", _ISO], input=json.dumps(case), capture_output=True, text=True, timeout=60)
    if r.returncode != 0:
        return {"exc": "SubprocessError", "msg": r.stderr[-300:]}
    return json.loads(r.stdout.strip().splitlines()[-1])


# -- parallel implementation workers -----------------------------------------------------------------------------
# harness/worker.py calls impl(case) for the cases of its input file one after the other.  impl() reads ahead in that
# file and evaluates the next batch in a small pool of forked processes (each inherits the imported staged package
# and then sees a long interleaved stream of calls, so state kept between calls still shows; the own-process sequences
# are unchanged: each spawns its own interpreter, now several at a time).  Any trouble (a child dies or hangs, the
# stream is not the file's) switches to plain sequential evaluation, so the core's localisation of crashes and hangs
# keeps working.
_PRE = {"cases": None, "pos": 0, "res": {}, "pool": None, "off": False, "resume_at": None, "resumes": 0}
_WORKERS = 4


def _cost(c):
    if c["fn"] == "seq":
        return 0.7 if c.get("iso") else 0.004 * len(c["steps"])
    if "img" in c:
        return 0.0006 + 3e-6 * len(c["img"]) * len(c["img"][0]) * max(1, c["it"] if isinstance(c.get("it"), int) else 1)
    return 0.003


def _impl_safe(case):
    import signal

    def on_alarm(signum, frame):
        raise TimeoutError("case timeout")
    try:
        signal.signal(signal.SIGALRM, on_alarm)
        # a call estimated at milliseconds that has not returned after 6 s is hanging (a verdict that shrinking and
        # the replay re-establish sequentially with the full CASE_TIMEOUT)
        signal.alarm(6 if _cost(case) < 0.2 else CASE_TIMEOUT)
        try:
            return _impl1(case)
        finally:
            signal.alarm(0)
    except BaseException as e:      # noqa: same mapping as harness/worker.py
        if isinstance(e, (KeyboardInterrupt, SystemExit)):
            raise
        return {"exc": type(e).__name__, "msg": str(e)[:300]}


def _impl_many(cs):
    return [_impl_safe(c) for c in cs]


def _pool_off():
    _PRE["off"] = True
    p = _PRE["pool"]
    _PRE["pool"] = None
    if p is not None:
        try:
            for pr in list(getattr(p, "_processes", {}).values()):
                pr.kill()
            p.shutdown(wait=False, cancel_futures=True)
        except Exception:
            pass


def _lookahead(case):
    import json, os, sys, time
    st = _PRE
    try:
        k = st["pos"]
        if st["cases"] is not None and k < len(st["cases"]) and k in st["res"] and st["cases"][k] == case:
            st["pos"] = k + 1
            return st["res"].pop(k)
        if st["off"] and st["resume_at"] is not None and k >= st["resume_at"] and st["resumes"] < 6:
            # the batch that had to be finished sequentially is behind us: use the pool again
            st["off"] = False
            st["resume_at"] = None
            st["resumes"] += 1
        if st["off"]:
            return None
        if st["cases"] is None:
            ok = len(sys.argv) >= 5 and sys.argv[2] == "impl" and os.path.basename(sys.argv[3]).startswith("in_")
            if not ok:
                st["off"] = True
                return None
            with open(sys.argv[3]) as f:
                st["cases"] = json.load(f)
            if len(st["cases"]) < 8:
                st["off"] = True
                return None
        if k >= len(st["cases"]) or st["cases"][k] != case:
            _pool_off()
            return None
        import multiprocessing
        from concurrent.futures import ProcessPoolExecutor, wait
        if st["pool"] is None:
            st["pool"] = ProcessPoolExecutor(_WORKERS, mp_context=multiprocessing.get_context("fork"))
        batch, cost = [], 0.0
        while k + len(batch) < len(st["cases"]) and cost < 6.0 * _WORKERS and len(batch) < 20000:
            c = st["cases"][k + len(batch)]
            batch.append(c)
            cost += _cost(c)
        st["res"] = {}
        # units of work: an expensive case alone, cheap cases in contiguous runs of about 0.25 s
        units, cur, curcost = [], [], 0.0
        for n, c in enumerate(batch):
            w = _cost(c)
            if w >= 0.2:
                if cur:
                    units.append(cur); cur, curcost = [], 0.0
                units.append([n])
                continue
            cur.append(n); curcost += w
            if curcost >= 0.25 or len(cur) >= 128:
                units.append(cur); cur, curcost = [], 0.0
        if cur:
            units.append(cur)
        units.sort(key=lambda u: -sum(_cost(batch[n]) for n in u))      # long ones first
        futs = {st["pool"].submit(_impl_many, [batch[n] for n in u]): u for u in units}
        # the core treats a worker that writes nothing for CASE_TIMEOUT + 15 s as hung: whatever is not finished
        # well before that (a call that hangs in a child, a loaded machine) is left to the sequential path, which
        # localises a hang to its own case
        done, pending = wait(list(futs), timeout=14)
        for f in done:
            try:
                for n, r in zip(futs[f], f.result(timeout=0)):
                    st["res"][k + n] = r
            except Exception:
                pass
        if pending or len(done) != len(futs):
            _pool_off()
            st["resume_at"] = k + len(batch)
        if k in st["res"]:
            st["pos"] = k + 1
            return st["res"].pop(k)
        return None
    except BaseException as e:
        if isinstance(e, (KeyboardInterrupt, SystemExit)):
            raise
        _pool_off()
        return None


def impl(case):
    r = _lookahead(case)
    if r is None:
        _PRE["pos"] += 1
        return _impl1(case)
    return r


def _impl1(case):
    from centrosome import cpmorphology as M
    from centrosome import _cpmorphology2 as K
    fn = case["fn"]
    if fn == "tl":
        return _call_tl(M, case, _mk_table(case["tab"], case.get("tdt", "bool"), case.get("tlay", "C")))
    if fn == "op":
        return _call_op(M, case)
    if fn == "seq":
        if case.get("iso"):
            return _run_seq_isolated(case)
        return _run_seq(M, case)
    if fn == "mk":
        pat = np.array(case["pat"], bool if case["pdt"] == "bool" else case["pdt"]).reshape(3, 3)
        if case["care"] is None:
            r = M.make_table(bool(case["v"]), pat)
        else:
            r = M.make_table(bool(case["v"]), pat, np.array(case["care"], bool if case["pdt"] == "bool" else case["pdt"]).reshape(3, 3))
        r = np.asarray(r)
        return {"out": r.astype(int).tolist(), "dtype": str(r.dtype), "shape": list(r.shape)}
    if fn == "pat":
        pt = M.pattern_of(case["k"])
        return {"out": np.asarray(pt).astype(int).reshape(-1).tolist(), "dtype": str(np.asarray(pt).dtype),
                "shape": list(np.asarray(pt).shape), "index": int(M.index_of(pt))}
    if fn == "tli":
        r = K.table_lookup_index(np.ascontiguousarray(np.array(case["img"], bool), np.uint8))
        return {"out": np.asarray(r).astype(np.int64).tolist(), "dtype": str(r.dtype)}
    if fn == "idx":
        img = np.array(case["img"], bool)
        ii, jj, pad = K.prepare_for_index_lookup(img, bool(case["b"]))
        ii, jj = K.index_lookup(ii, jj, pad, _tab(case["tab"]), None if case["it"] < 0 else case["it"])
        ex = K.extract_from_image_lookup(img, ii, jj)
        return {"i": np.asarray(ii).astype(np.int64).tolist(), "j": np.asarray(jj).astype(np.int64).tolist(),
                "pad": np.asarray(pad).astype(np.int64).tolist(), "out": _grid(ex)}
    raise ValueError(fn)


def _bad(o):
    return (not isinstance(o, dict)) or "exc" in o or "crash" in o


def _dtcode(dt):
    return 0 if dt == "bool" else (2 if dt.startswith("float") else 1)


def _it(case):
    it = case["it"]
    if it == "default":
        return 1
    return it


def _tlist(bits):
    return [1 if c == "1" else 0 for c in bits]


def _margs(c):
    fn = c["fn"]
    if fn == "tl":
        return "entry_tl", [c["img"], _tlist(c["tab"]), c["b"], c["it"], _dtcode(c["dt"])]
    if fn == "op":
        return "entry_op", [OPS.index(c["op"]), c["img"], c["mask"] or [], _it(c), _dtcode(c["dt"])]
    if fn == "tli":
        return "entry_tli", [c["img"]]
    if fn == "mk":
        return "entry_mk", [c["v"], c["pat"], c["care"] if c["care"] is not None else [1] * 9]
    if fn == "pat":
        return "entry_pat", [c["k"]]
    return "entry_idx", [c["img"], _tlist(c["tab"]), c["b"], c["it"]]


def _sargs(c):
    fn = c["fn"]
    if fn in ("tl", "idx"):
        return "entry_spec", [c["img"], _tlist(c["tab"]), c["b"], c["it"]]
    if fn == "op":
        return "entry_opspec", [OPS.index(c["op"]), c["img"], c["mask"] or [], _it(c)]
    if fn == "mk":
        return "entry_mkspec", [c["v"], c["pat"], c["care"] if c["care"] is not None else [1] * 9]
    if fn == "pat":
        return "entry_pat", [c["k"]]
    return "entry_specidx", [c["img"]]


def _flat(cases, outs=None):
    """(flat cases, flat outs, owner index list) with the steps of a sequence spliced in"""
    fc, fo, own = [], [], []
    for k, c in enumerate(cases):
        if c["fn"] != "seq":
            fc.append(c); fo.append(None if outs is None else outs[k]); own.append(k)
            continue
        o = None if outs is None else outs[k]
        so = o["steps"] if isinstance(o, dict) and "steps" in o and len(o["steps"]) == len(c["steps"]) else None
        for n, st in enumerate(c["steps"]):
            fc.append(st); own.append(k)
            fo.append(None if outs is None else (so[n] if so is not None else o))
    return fc, fo, own


def _run_grouped(ctx, cases, argf, idxs=None):
    idxs = range(len(cases)) if idxs is None else idxs
    groups = {}
    for k in idxs:
        e, a = argf(cases[k])
        groups.setdefault(e, []).append((k, a))
    res = {}
    # one run of the extracted program per chunk, a few at a time
    jobs = []
    for e, lst in groups.items():
        # heavier items first inside a group would not help: chunks are contiguous; size by estimated cost
        n = len(lst)
        parts = max(1, min(_WORKERS, n // 150))
        step = -(-n // parts)
        for s0 in range(0, n, step):
            jobs.append((e, lst[s0:s0 + step]))
    if len(jobs) == 1:
        outs = [ctx.run_model(jobs[0][0], [a for _, a in jobs[0][1]])]
    else:
        from concurrent.futures import ThreadPoolExecutor
        with ThreadPoolExecutor(_WORKERS) as ex:
            outs = list(ex.map(lambda j: ctx.run_model(j[0], [a for _, a in j[1]]), jobs))
    for (e, lst), rs in zip(jobs, outs):
        for (k, _), r in zip(lst, rs):
            res[k] = r
    return res


def model(ctx, cases, outs):
    fc, _, own = _flat(cases)
    run = [n for n, c in enumerate(fc) if not c.get("nomodel")]
    r = _run_grouped(ctx, fc, _margs, run)
    for n, c in enumerate(fc):
        if c.get("nomodel"):
            r[n] = "skipped"
            ctx.count("model-skipped:large-image")
    res = [None] * len(cases)
    for n, k in enumerate(own):
        if cases[k]["fn"] == "seq":
            if res[k] is None:
                res[k] = []
            res[k].append(r[n])
        else:
            res[k] = r[n]
    return res


def _compare1(case, out, m):
    if m == "skipped" and not _bad(out):
        return None
    if _bad(out):
        return "implementation raised/crashed: %s" % (str(out)[:300],)
    if isinstance(m, dict):
        return "model error: %s" % (m,)
    if case["fn"] == "mk":
        return None if m == out["out"] else "make_table differs from the Coq model"
    if case["fn"] == "pat":
        return None if m == [out["out"], out["index"]] else "pattern_of / index_of differ from the Coq model: impl %s model %s" % ([out["out"], out["index"]], m)
    if m == []:
        return "model ran out of fuel / rejected the case"
    m = m[0] if case["fn"] != "idx" else m
    if case["fn"] == "idx":
        if m[0] != out["i"] or m[1] != out["j"]:
            return "index_lookup index arrays differ: impl %s/%s model %s/%s" % (out["i"][:8], out["j"][:8], m[0][:8], m[1][:8])
        if m[2] != out["pad"]:
            return "padded image after index_lookup differs from the model"
        return None
    if m != out["out"]:
        return "%s result differs from the Coq model: impl %s model %s" % (case["fn"], str(out["out"])[:160], str(m)[:160])
    return None


def compare(case, out, m):
    if case["fn"] != "seq":
        return _compare1(case, out, m)
    if _bad(out) or len(out.get("steps", [])) != len(case["steps"]):
        return "implementation raised/crashed: %s" % (str(out)[:300],)
    for n, (st, o, mm) in enumerate(zip(case["steps"], out["steps"], m)):
        d = _compare1(st, o, mm)
        if d:
            return "step %d of the sequence: %s" % (n, d)
    return None


def _check_flat(ctx, cases, outs):
    res = [None] * len(cases)
    ok = []
    for k, o in enumerate(outs):
        if _bad(o):
            res[k] = "implementation raised/crashed/hung on a valid input: %s" % (str(o)[:300],)
        else:
            ok.append(k)
    spec = _run_grouped(ctx, cases, _sargs, ok)
    for k in ok:
        c, o, s = cases[k], outs[k], spec[k]
        if c["fn"] == "mk":
            if o["shape"] != [512] or o["dtype"] != "bool":
                res[k] = "make_table does not return a boolean array of 512 entries"
            elif o["out"] != s:
                res[k] = "make_table entry %d is not `value` exactly on the neighbourhoods matching the pattern where care is set" % (
                    [a != b for a, b in zip(o["out"], s)].index(True),)
            continue
        if c["fn"] == "pat":
            bits = [(c["k"] >> q) & 1 for q in range(9)]
            if o["out"] != bits or o["shape"] != [3, 3]:
                res[k] = "pattern_of(%d) is not the 3x3 bit pattern of the index" % c["k"]
            elif o["index"] != c["k"]:
                res[k] = "index_of(pattern_of(%d)) = %d" % (c["k"], o["index"])
            continue
        if isinstance(s, dict) or s == []:
            res[k] = "the neighbourhood rule does not reach a fixed point on this input but the call was generated (spec out of fuel)"
            continue
        s = s[0]
        H, W = len(c["img"]), len(c["img"][0])
        if c["fn"] == "tli":
            if o["out"] != s:
                res[k] = "table_lookup_index differs from the neighbourhood index (border 0) %s" % _first_diff(o["out"], s)
            continue
        if c["fn"] == "idx":
            got = sorted(zip(o["i"], o["j"]))
            exp = sorted((p + 1, q + 1) for p in range(H) for q in range(W) if s[p][q])
            if got != exp:
                res[k] = "index_lookup survivors are not the set pixels of the iterated rule"
            elif o["out"] != s:
                res[k] = "extract_from_image_lookup differs from the iterated rule %s" % _first_diff(o["out"], s)
            continue
        if o.get("shape") != [H, W]:
            res[k] = "result shape %s differs from the image shape" % (o.get("shape"),)
        elif o["out"] != s:
            what = "table_lookup" if c["fn"] == "tl" else c["op"]
            res[k] = "%s output is not the neighbourhood rule applied %s %s" % (
                what, "until nothing changes" if _it(c) < 0 else "%d time(s)" % _it(c), _first_diff(o["out"], s))
    return res


def check(ctx, cases, outs):
    fc, fo, own = _flat(cases, outs)
    fr = _check_flat(ctx, fc, fo)
    res = [None] * len(cases)
    pos = {}
    for n, k in enumerate(own):
        pos[k] = pos.get(k, -1) + 1
        if fr[n] and res[k] is None:
            res[k] = fr[n] if cases[k]["fn"] != "seq" else "call %d of the sequence (after the calls before it in the same process): %s" % (pos[k], fr[n])
    return res


def _first_diff(a, b):
    for p, (ra, rb) in enumerate(zip(a, b)):
        for q, (x, y) in enumerate(zip(ra, rb)):
            if x != y:
                return "(first difference at pixel (%d,%d): got %s, rule gives %s)" % (p, q, x, y)
    return "(shapes differ)"


def nontrivial(case, out):
    if _bad(out):
        return False
    if case["fn"] == "seq":
        return any(nontrivial(st, o) for st, o in zip(case["steps"], out.get("steps", [])))
    if case["fn"] == "mk":
        return 0 < sum(out["out"]) < 512
    if case["fn"] == "pat":
        return case["k"] > 0
    img = case["img"]
    rim = any(img[0]) or any(img[-1]) or any(r[0] or r[-1] for r in img)
    if case["fn"] in ("tl", "op"):
        return rim or out["out"] != img
    return rim


def kernel_crosscheck(ctx, cases, outs):
    idx = []
    seen = {}
    for k, c in enumerate(cases):
        if _bad(outs[k]) or c["fn"] not in ("tl", "op", "tli"):
            continue
        if c["fn"] == "op" and c["op"] == "life" and False:
            continue
        if len(c["img"]) * len(c["img"][0]) > 30 or (c["fn"] != "tli" and _it(c) < 0):
            continue
        key = (c["fn"], c.get("op"), c.get("kind"), min(len(c["img"]), len(c["img"][0])) < 3)
        if seen.get(key, 0) >= 2:
            continue
        seen[key] = seen.get(key, 0) + 1
        idx.append(k)
    idx = idx[:60]
    bad = None
    n = 0
    for entry, mod in (("entry_tl", "Model.Lut"), ("entry_tli", "Model.Lut"), ("entry_op", "Model.LutOps")):
        ks = [k for k in idx if _margs(cases[k])[0] == entry]
        if not ks:
            continue
        args = [_margs(cases[k])[1] for k in ks]
        exp = [[outs[k]["out"]] for k in ks]
        r = ctx.coq_eval_eq(mod, entry, args, exp, tag=entry[6:], shard=30)
        n += len(ks)
        for k, b in zip(ks, r):
            if b is not True and bad is None:
                bad = "vm_compute evaluation of %s.%s differs from the implementation on case %d" % (mod, entry, k)
    return bad, n


def search_cases(ctx, rnd):
    rng = ctx.rng
    _DOC_TABLES.update(_doc_tables())
    cases = []
    for _ in range(500):
        H, W = _rand_shape(rng, 10)
        cases.append(_tl_case(rng, _rand_img(rng, H, W)))
    for op in OPS:
        for _ in range(40):
            H, W = _rand_shape(rng, 8)
            c = _op_case(rng, _rand_img(rng, H, W), op)
            if _op_safe(c):
                cases.append(c)
    for _ in range(200):
        H, W = _rand_shape(rng, 16)
        cases.append({"fn": "tli", "img": _rand_img(rng, max(H, 3), max(W, 3)).astype(int).tolist()})
    for _ in range(300):
        c = _seq_case(rng)
        if c["steps"]:
            cases.append(c)
    return cases


_SHRINK = {"t0": None}


def shrink_candidates(case):
    if case["fn"] == "seq":
        # every candidate is a sequence run in an interpreter of its own: stop proposing after about a minute
        import time
        if _SHRINK["t0"] is None:
            _SHRINK["t0"] = time.time()
        if time.time() - _SHRINK["t0"] > 50:
            return
        st = case["steps"]

        def mk(steps):
            steps = [dict(x) for x in steps]
            if steps and steps[0].get("reuse"):
                steps[0].pop("reuse")
            return {"fn": "seq", "steps": steps, "iso": True}
        n = len(st)
        if n > 3:
            yield mk(st[:n // 2])
            yield mk(st[n // 2:])
        if n > 1:
            yield mk(st[:-1])
            yield mk(st[1:])
            mids = list(range(1, n - 1))
            for k in mids[:: max(1, len(mids) // 6)][:6]:
                yield mk(st[:k] + st[k + 1:])
        for k in range(max(0, n - 2), n):
            for sub in itertools.islice(shrink_candidates(st[k]), 4):
                if sub["fn"] == st[k]["fn"]:
                    yield mk(st[:k] + [sub] + st[k + 1:])
        return
    if case["fn"] in ("mk", "pat"):
        return
    img = case["img"]
    H, W = len(img), len(img[0])
    fn = case["fn"]
    lo = 3 if fn == "tli" else 1

    def with_img(new, mask=None):
        c = dict(case)
        c["img"] = new
        if len(new) * len(new[0]) <= 100000:
            c.pop("nomodel", None)
        if fn == "op" and case.get("mask") is not None:
            c["mask"] = mask
        return c
    mask = case.get("mask") if fn == "op" else None
    if H > lo:
        for r in (0, H - 1, H // 2):
            yield with_img(img[:r] + img[r + 1:], None if mask is None else mask[:r] + mask[r + 1:])
    if W > lo:
        for q in (0, W - 1, W // 2):
            yield with_img([row[:q] + row[q + 1:] for row in img],
                           None if mask is None else [row[:q] + row[q + 1:] for row in mask])
    if fn == "op" and mask is not None:
        c = dict(case); c["mask"] = None
        yield c
    if fn in ("tl", "idx") and case["it"] not in (1,) and case["it"] != "default":
        c = dict(case); c["it"] = 1
        yield c
    if fn == "tl" and case["dt"] not in ("bool",):
        c = dict(case); c["dt"] = "bool"
        yield c
    n = 0
    for p in range(H):
        for q in range(W):
            if img[p][q] and n < 24:
                n += 1
                new = [list(r) for r in img]
                new[p][q] = 0
                yield with_img(new, mask)


MANIFEST = {
    "level_text": (
        "Machine-checked proof (Coq 8.16) about an executable Gallina model of table_lookup as written - the dispatch on "
        "table class and dtype, the dense scatter kernel table_lookup_index with its corner and edge code, the slicing "
        "path for images with a side < 3, the border-value OR masks, the padded sparse index path "
        "(prepare_for_index_lookup / index_lookup / extract_from_image_lookup), the inverted-table trick and the "
        "iteration loops: every path equals the neighbourhood rule lut_step/lut_iter for all image shapes from 1x1, both "
        "border values and all 512-entry tables. Each built-in table, regenerated from the staged package on every run, "
        "is proved equal on all 512 patterns to the rule transcribed from the operation's documentation. The model is "
        "tied to the code by exact comparison of complete outputs over all small images, random larger ones, all table "
        "classes, dtypes, iteration modes and the fourteen wrapper operations with and without masks; the executable "
        "rule is also evaluated on the implementation's own outputs."),
    "level_note": (
        "Trusted: Coq kernel + vm_compute; extraction (ExtrOcamlBasic only) and the S-expression driver; the table/AST "
        "translator; the Python harness; NumPy slicing/fancy indexing as modelled; the transcription of the documentation "
        "into predicates. Image contents are binary. The tie between model and code is differential, not a proof about "
        "Python/C. Until-convergence is only requested where the rule converges (life() never returns on oscillators)."),
    "technique": "Coq proof over executable model + regenerated tables (finite 512-pattern theorems) + exact differential correspondence",
    "design_ref": "DESIGN.md section 7, C06",
}
