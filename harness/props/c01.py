"""C01 - sparse Jonker-Volgenant assignment solver returns a minimum-cost perfect matching; the
two-frame tracker built on it returns an injective partial map (identity on an unchanged frame)."""
import itertools
import json
import os
import numpy as np

ID = "C01"
PROPS_FILE = "theories/Props/C01.v"
EXTRACT = ("theories/Extract/XC01.v", "c01",
           ["entry_lapjv", "entry_arr", "entry_track", "entry_cert", "entry_pm", "entry_wf", "entry_total", "entry_track_ok"])
PYX = {"_lapjv.pyx": ["reduction_transfer", "augmenting_row_reduction", "augment", "bsearch"]}
CASE_TIMEOUT = 150
S = 30                      # costs are dyadic with at most S fractional bits; the model works on cost * 2^S
EPS = 1 << (S - 26)         # __eps = sqrt(finfo(float64).eps) = 2^-26, scaled
RULE = ("sparse n x n problems, n from a skewed distribution 1..12 (thorough ..40): a hidden permutation (so a perfect "
        "matching exists and every row/column is mentioned) plus extras: dense, banded, Bernoulli p in {.1,.3,.6}, "
        "one-candidate rows, rows with pairwise different candidate sets, star/ladder; costs from {0..2} (ties), {0..9}, "
        "{0..10^6}, dyadic k/2^8, fine grid {0..2}+k*2^-30 (exercises the eps band, F6); forced expensive pairs: unique / forced "
        "perfect matchings through pairs of cost B in 1e1..1e9 against {1,2}, displacement chains, k = 0 emphasised, run in a "
        "forked child so that a crash or hang of the implementation is an outcome of the case (F20); augmenting_row_reductions 0..3; "
        "triple order shuffled. All data dyadic so float arithmetic is exact and (x,y,u,v) is compared bit for bit with "
        "the (AsIs, 2^-26) Gallina model. Tracker: random pairs of label images and identical frames with pairwise "
        "distinct (centroid, area). non-trivial = n >= 2 and some row has >= 2 candidates (tracker: >= 2 objects in a frame); "
        "distinct by hash of the case. Class float-stall (finding F35): dense and sparse has_PM instances, n = 3..6, NON-GRID "
        "binary64 costs = small integers / halves times column scales (one non-grid scale 1e9..1e18; per-column decimal scales "
        "1e-7..1e16; one huge column; per-column non-grid scales), k = 0..3 (default 2 emphasised), each in a forked child with a 4 s "
        "limit; pre-filter by the float64 replay: terminating price wars longer than 3e5 iterations are excluded and counted")
TRUSTED = [
    "modelled, not verified: np.lexsort / np.bincount / NumPy fancy assignment (last write wins) in lapjv.py's column "
    "reduction; float64 arithmetic (inputs are dyadic and bounded so every operation is exact; the model computes in Z "
    "scaled by 2^30 inside ext = Fin | +inf | -inf | NaN)",
    "the finitisation of infinite duals done in Python before cert_ok is evaluated is untrusted search: cert_ok itself is "
    "verified (cert_sound), so a wrong substitution can only make the check fail",
    "tracker: scipy.ndimage.sum / center_of_mass and the float cost functions are not modelled; the model covers "
    "solve_assignement's read-back of x and from_detections_assignment (observed through a recording wrapper around "
    "lapjv.lapjv inside the worker)",
]
ASSUMPTIONS = [
    "ALL Coq theorems about the solver are statements about exact arithmetic on the cost grid: costs are finite, non-negative, "
    "dyadic with <= 30 fractional bits and sum < 2^22 * n^2 so that float64 arithmetic in the code is exact (checked per case by "
    "the generator for the grid classes); off that grid (class float-stall) nothing is claimed by a theorem - known finding F35 "
    "(binary64 stall of augmenting_row_reduction) lives there and is decided by a float64 replay, not by the model",
    "no (i, j) pair is listed twice; the sparsity pattern contains a perfect matching",
    "tracker identity clause: no two objects share both centroid and area",
]
EXHAUSTIVE = {"quick": False, "thorough": False}

VERIF = os.path.dirname(os.path.dirname(os.path.dirname(os.path.abspath(__file__))))


# ------------------------------------------------------------------------------------------ generator

def _cost_fn(rng, kind):
    if kind == "ties":
        return lambda: int(rng.randint(0, 3)) << S
    if kind == "small":
        return lambda: int(rng.randint(0, 10)) << S
    if kind == "big":
        return lambda: int(rng.randint(0, 10 ** 6 + 1)) << S
    if kind == "dyadic":
        return lambda: int(rng.randint(0, 1 << 12)) << (S - 8)
    if kind == "range":
        # huge dynamic range: m * 2^e, e in -16..18 (multiples of 2^-16 below 2^20: every sum stays exact)
        return lambda: int(rng.randint(0, 4)) << (S + int(rng.randint(-16, 19)))
    if kind == "fine":
        g = int(rng.choice([28, 30]))
        return lambda: (int(rng.randint(0, 3)) << S) + (int(rng.randint(0, 4)) << (S - g))
    raise ValueError(kind)


def _pattern(rng, n, pat):
    """set of (row, col) pairs containing the hidden permutation"""
    perm = rng.permutation(n)
    pairs = set((r, int(perm[r])) for r in range(n))
    if pat == "dense":
        pairs |= set(itertools.product(range(n), range(n)))
    elif pat == "band":
        w = int(rng.randint(1, 4))
        pairs |= set((r, c) for r in range(n) for c in range(n) if abs(r - c) <= w)
    elif pat.startswith("bern"):
        p = float(pat[4:])
        if n > 60:      # sparse large instance without the n^2 Python loop
            k = rng.binomial(n * n, p)
            rr = rng.randint(0, n, size=k); cc = rng.randint(0, n, size=k)
            return pairs | set(zip(rr.tolist(), cc.tolist()))
        pairs |= set((r, c) for r in range(n) for c in range(n) if rng.rand() < p)
    elif pat == "onecand":
        # some rows keep only their hidden candidate, the others are Bernoulli
        single = set(r for r in range(n) if rng.rand() < 0.4)
        pairs |= set((r, c) for r in range(n) for c in range(n) if r not in single and rng.rand() < 0.5)
    elif pat == "distinct":
        # rows with pairwise different candidate sets: row r gets a random subset whose size grows with r
        for r in range(n):
            k = 1 + (r * 3) % max(1, n)
            for c in rng.choice(n, size=min(n, k), replace=False):
                pairs.add((r, int(c)))
    elif pat == "star":
        pairs |= set((0, c) for c in range(n)) | set((r, 0) for r in range(n))
    elif pat == "ladder":
        pairs |= set((r, r) for r in range(n)) | set((r, (r + 1) % n) for r in range(n))
    return pairs


TRACK_DTYPES = ["int64", "int32", "int16", "int8", "uint8", "uint16", "uint32", "bool"]
LAYOUTS2 = ["c", "f", "strided", "readonly"]
COST_DTYPES = ["f8", "f8", "f4", "i8", "i4", "u2", "list"]        # what `costs` is handed over as
INDEX_DTYPES = ["i8", "i4", "i2", "u4", "u8", "u1", "list"]       # what `i`, `j` are handed over as
LAYOUTS1 = ["c", "strided", "readonly", "tuple"]
PATTERNS = ["dense", "band", "bern0.1", "bern0.3", "bern0.6", "onecand", "distinct", "star", "ladder"]
KINDS = ["ties", "small", "big", "dyadic", "fine", "range"]


def _lap_case(rng, n, pat, kind, k):
    cf = _cost_fn(rng, kind)
    pairs = sorted(_pattern(rng, n, pat))
    tri = [[r, c, cf()] for r, c in pairs]
    order = rng.permutation(len(tri))
    tri = [tri[t] for t in order]
    c = {"fn": "lap", "n": n, "k": k, "tri": tri, "pat": pat, "kind": kind}
    # how the arguments are handed over: dtype / layout of costs and of the index vectors
    cdt = COST_DTYPES[int(rng.randint(len(COST_DTYPES)))]
    if cdt == "f4" and any(t[2] % (1 << (S - 8)) or t[2] >= (1 << (S + 16)) for t in tri):
        cdt = "f8"                   # not exactly representable in float32
    if cdt in ("i8", "i4", "u2") and any(t[2] % (1 << S) for t in tri):
        cdt = "f8"
    if cdt == "i4" and any(t[2] >= (1 << (S + 31)) for t in tri) or cdt == "u2" and any(t[2] >= (1 << (S + 16)) for t in tri):
        cdt = "i8"
    idt = INDEX_DTYPES[int(rng.randint(len(INDEX_DTYPES)))]
    c.update(cdt=cdt, idt=idt, lay=LAYOUTS1[int(rng.randint(len(LAYOUTS1)))])
    return c


def _forced_case(rng):
    n = int(rng.randint(3, 9))
    perm = rng.permutation(n)
    order = rng.permutation(n)                       # rows in the order in which the matching is forced
    pairs = {}
    Bv = int(rng.choice([10, 14, 20, 50, 100, 1000, 10 ** 4, 10 ** 6, 10 ** 9]))
    pB = float(rng.choice([0.3, 0.6, 1.0]))
    chain = rng.rand() < 0.85         # displacement chain: every row prefers (cheaply) the column forced by the previous row
    for pos, r in enumerate(order):
        r = int(r)
        pairs[(r, int(perm[r]))] = Bv if rng.rand() < (0.85 if chain and pos < n - 1 else pB) else int(rng.randint(1, 3))
        # extra cheap candidates only on columns forced earlier: the perfect matching stays unique
        for qpos, q in enumerate(order[:pos]):
            pq = (0.9 if qpos == pos - 1 else 0.1) if chain else 0.35
            if rng.rand() < pq:
                pairs[(r, int(perm[int(q)]))] = int(rng.randint(1, 3))
    if rng.rand() < 0.3:                              # a few free extras: forced but no longer unique
        for _ in range(int(rng.randint(1, 3))):
            pairs.setdefault((int(rng.randint(n)), int(rng.randint(n))), int(rng.randint(1, 3)))
    tri = [[a, b, c << S] for (a, b), c in pairs.items()]
    tri = [tri[t] for t in rng.permutation(len(tri))]
    k = 0 if rng.rand() < 0.7 else int(rng.randint(1, 4))
    c = {"fn": "lap", "n": n, "k": k, "tri": tri, "pat": "forced-expensive", "kind": "contrast-B",
         "cdt": ["f8", "i8", "list"][int(rng.randint(3))], "idt": ["i8", "i4", "list"][int(rng.randint(3))], "lay": "c"}
    return c


def _corpus_cases():
    cases = []
    p = os.path.join(VERIF, "corpus", "C01")
    if os.path.isdir(p):
        for name in sorted(os.listdir(p)):
            if name.endswith(".json"):
                with open(os.path.join(p, name)) as f:
                    d = json.load(f)
                cases.extend(d if isinstance(d, list) else [d])
    return cases


def _sizes(ctx, count):
    rng = ctx.rng
    hi = ctx.n(12, 40)
    out = []
    for _ in range(count):
        u = rng.rand()
        if u < 0.55:
            out.append(int(rng.randint(1, 7)))
        elif u < 0.9:
            out.append(int(rng.randint(5, 13)))
        else:
            out.append(int(rng.randint(8, hi + 1)))
    return out


def generate(ctx):
    rng = ctx.rng
    corpus = list(_corpus_cases())
    flap_first = [c for c in corpus if c["fn"] == "flap"]        # finding F35: the float witnesses, run first
    cases = [c for c in corpus if c["fn"] != "flap"]
    for n in _sizes(ctx, ctx.n(2000, 30000)):
        pat = PATTERNS[int(rng.randint(len(PATTERNS)))]
        kind = KINDS[int(rng.randint(len(KINDS)))]
        k = int(rng.randint(0, 4))
        cases.append(_lap_case(rng, n, pat, kind, k))
    # dense fine-grid stream: the class where the eps band (F6) shows
    for _ in range(ctx.n(300, 3000)):
        cases.append(_lap_case(rng, int(rng.randint(2, 6)), "dense", "fine", int(rng.randint(0, 4))))
    # forced expensive pairs (finding F20): has_PM instances with one-candidate rows / columns whose unique or forced
    # perfect matching must use pairs of cost B >= sum of the other costs; contrasts {1, 2, B}, B over 1e1 .. 1e9; k = 0 emphasised
    for _ in range(ctx.n(800, 8000)):
        cases.append(_forced_case(rng))
    # large instances (thorough: n up to 200, beyond any small internal buffer) with structured sparse patterns
    for _ in range(ctx.n(6, 60)):
        n = int(rng.randint(ctx.n(30, 60), ctx.n(61, 201)))
        pat = ["band", "ladder", "star", "bern0.1", "onecand", "distinct", "dense"][int(rng.randint(7))]
        if pat == "dense":
            n = min(n, ctx.n(40, 90))
        if pat in ("onecand", "distinct"):
            n = min(n, 100)
        if pat == "bern0.1":
            pat = "bern%.3f" % (4.0 / n)
        cases.append(_lap_case(rng, n, pat, KINDS[int(rng.randint(len(KINDS)))], int(rng.randint(0, 4))))
        cases[-1]["big"] = 1
    # state between calls: one worker process runs the cases in order, so alternating large / tiny sizes and a
    # repeated input exercise buffers or caches kept from one call to the next (every call is compared with the model)
    for _ in range(ctx.n(3, 12)):
        first = _lap_case(rng, int(rng.randint(20, ctx.n(41, 121))), "band", "small", 2)
        blk = [first]
        for q in range(8):
            n = int(rng.randint(1, 4)) if q % 2 == 0 else int(rng.randint(15, ctx.n(41, 121)))
            blk.append(_lap_case(rng, n, PATTERNS[int(rng.randint(len(PATTERNS)))], KINDS[int(rng.randint(len(KINDS)))], int(rng.randint(0, 4))))
        blk.append(dict(first))
        for c in blk:
            c["seq"] = 1
        cases.extend(blk)
    # Cases on which the faithful model gives no result: (a) augment's sentinel inf = sum(c) + 1 is too small (finding F20:
    # a rebuild of scan is empty; the real code then reads p_scan[low] past `up`) - recognised by the same model with a true
    # infinity returning a result; these cases are KEPT and flagged; (b) a price war in augmenting row reduction longer than
    # the model's fuel - excluded, counted.
    keep = []
    ms = ctx.run_model("entry_lapjv", [_lap_arg(c) for c in cases])
    nores = [k for k, m in enumerate(ms) if isinstance(m, dict) or m == []]
    refs = ctx.run_model("entry_lapjv", [_lap_arg(cases[k], tinf=1) for k in nores]) if nores else []
    sentinel = set(k for k, m in zip(nores, refs) if not (isinstance(m, dict) or m == []))
    for k, c in enumerate(cases):
        if k in sentinel:
            c["f20"] = 1
            ctx.count("lap:sentinel-inf-too-small(F20 class)")
            keep.append(c)
        elif k in nores:
            ctx.count("excluded:model-out-of-fuel(ARR price war)")
        else:
            keep.append(c)
    cases = flap_first + keep
    cases.extend(_float_stall_cases(ctx))
    cases.extend(_track_cases(ctx))
    for c in cases:
        if c["fn"] == "flap":
            ctx.count("flap:%s" % c.get("cls", "corpus")); ctx.count("flap:k=%d" % c["k"])
        elif c["fn"] == "lap":
            ctx.count("lap:%s" % c.get("pat", "corpus")); ctx.count("cost:%s" % c.get("kind", "corpus"))
            ctx.count("cdt:%s" % c.get("cdt", "list")); ctx.count("idt:%s" % c.get("idt", "list")); ctx.count("lay:%s" % c.get("lay", "c"))
            ctx.count("k=%d" % c["k"]); ctx.count("n<=%d" % (2 if c["n"] <= 2 else 6 if c["n"] <= 6 else 12 if c["n"] <= 12 else 40 if c["n"] <= 40 else 100 if c["n"] <= 100 else 200))
            if c.get("seq"):
                ctx.count("lap:alternating-sizes-block")
        else:
            ctx.count("track:%s" % c.get("cls", "corpus"))
            if c.get("gaps"):
                ctx.count("track-gaps:%s" % c["gaps"].split("/")[0])
            if c.get("many"):
                ctx.count("track:many-objects(>300)")
            ctx.count("track-dt:%s/%s" % (c.get("dt", "int64"), c.get("lay", "c")))
    return cases


# ---- tracker cases -------------------------------------------------------------------------------

def _label_image(rng, h, w, nobj, maxr):
    lab = np.zeros((h, w), int)
    k = 0
    for _ in range(nobj * 3):
        if k >= nobj:
            break
        r = int(rng.randint(1, maxr + 1))
        cy, cx = int(rng.randint(0, h)), int(rng.randint(0, w))
        yy, xx = np.ogrid[:h, :w]
        m = (yy - cy) ** 2 + (xx - cx) ** 2 <= r * r
        if rng.rand() < 0.3:
            m &= (yy >= cy)         # half discs: centroids off the lattice
        if m.sum() == 0 or (lab[m] != 0).any():
            continue
        k += 1
        lab[m] = k
    return lab


def _distinct_features(lab):
    feats = set()
    for l in np.unique(lab):
        if l == 0:
            continue
        ys, xs = np.nonzero(lab == l)
        f = (int(ys.sum()), int(xs.sum()), len(ys))
        if f in feats:
            return False
        feats.add(f)
    return True


def _track_cases(ctx):
    rng = ctx.rng
    cases = []
    for t in range(ctx.n(110, 700)):
        h, w = int(rng.randint(20, 90)), int(rng.randint(20, 90))
        nobj = int(rng.choice([0, 1, 2, 3, 5, 8, 12]))
        if t % 11 == 3:
            # objects further apart than max_distance = 300: cost_if_not_too_far returns invalid_match exactly
            h, w = int(rng.randint(8, 15)), int(rng.randint(330, 420))
            a = np.zeros((h, w), int); b = np.zeros((h, w), int)
            for q in range(int(rng.randint(1, 4))):
                a[1 + 2 * q, int(rng.randint(0, 12)) + (w - 14 if rng.rand() < 0.5 else 0)] = q + 1
                b[1 + 2 * q, int(rng.randint(0, 12)) + (w - 14 if rng.rand() < 0.5 else 0)] = q + 1
            a[h - 2:h, 0:int(rng.randint(1, 4))] = int(a.max()) + 1
            b[h - 2:h, w - int(rng.randint(1, 4)):w] = int(b.max()) + 1
            cases.append({"fn": "track", "cls": "far", "a": a.tolist(), "b": b.tolist()})
            continue
        a = _label_image(rng, h, w, nobj, int(rng.choice([2, 4, 9])))
        if rng.rand() < 0.25:       # absent label numbers
            a[a == int(rng.randint(1, nobj + 2))] = 0
        if t % 5 < 2:
            if not _distinct_features(a):
                ctx.count("track:excluded-shared-centroid-area")
                continue
            cases.append({"fn": "track", "cls": "identical", "a": a.tolist(), "b": a.tolist()})
        else:
            u = rng.rand()
            if u < 0.5:             # shifted / jittered copy
                dy, dx = int(rng.randint(-4, 5)), int(rng.randint(-4, 5))
                b = np.roll(np.roll(a, dy, 0), dx, 1)
                if rng.rand() < 0.5 and b.max() > 0:
                    b[b == int(rng.randint(1, b.max() + 1))] = 0
                if rng.rand() < 0.5:
                    perm = rng.permutation(int(b.max()) + 1); perm = np.concatenate([[0], 1 + rng.permutation(int(b.max()))])
                    b = perm[b]
                cls = "moved"
            else:
                b = _label_image(rng, h, w, int(rng.choice([0, 1, 2, 4, 7, 11])), int(rng.choice([2, 4, 9])))
                cls = "unrelated"
            cases.append({"fn": "track", "cls": cls, "a": a.tolist(), "b": b.tolist()})
    # label numbering with gaps at the start / in the middle / at the end, and offsets (absent numbers must not
    # shift the features of the present ones)
    for t in range(ctx.n(24, 120)):
        h, w = int(rng.randint(20, 70)), int(rng.randint(20, 70))
        a = _label_image(rng, h, w, int(rng.choice([3, 5, 8, 12])), int(rng.choice([2, 3, 5])))
        m = int(a.max())
        if m < 3:
            continue
        def gap(img, where):
            img = img.copy(); mm = int(img.max())
            kill = {"start": [1], "start2": [1, 2], "middle": [mm // 2 + 1], "end": [mm], "offset": [], "several": [1, mm // 2 + 1, mm]}[where]
            for l in kill:
                img[img == l] = 0
            if where == "offset":
                img[img > 0] += int(rng.randint(1, 9))
            return img
        wa = ["start", "start2", "middle", "end", "offset", "several"][t % 6]
        wb = ["start", "start2", "middle", "end", "offset", "several"][int(rng.randint(6))]
        ga = gap(a, wa)
        if t % 2 == 0 and _distinct_features(ga):
            cases.append({"fn": "track", "cls": "identical", "gaps": wa, "a": ga.tolist(), "b": ga.tolist()})
        else:
            cases.append({"fn": "track", "cls": "moved", "gaps": wa + "/" + wb, "a": ga.tolist(),
                          "b": gap(np.roll(a, int(rng.randint(-2, 3)), 1), wb).tolist()})
    # many objects (> 300 per frame; the assignment problem has > 600 rows, > 10^5 triples); 2 improvement iterations
    for t in range(ctx.n(1, 4)):
        hh = int(rng.choice([300, 400])); step = 16 if hh == 300 else 22
        a = np.zeros((hh, hh), int); k = 0
        for y0 in range(2, hh - 4, step):
            for x0 in range(2, hh - 4, step):
                k += 1
                a[y0:y0 + 2 + (k % 3), x0:x0 + 2 + (k % 2) + (k % 5 == 0)] = k
        if t % 2 == 0:
            assert _distinct_features(a)
            cases.append({"fn": "track", "cls": "identical", "many": int(a.max()), "iters": 2, "a": a.tolist(), "b": a.tolist()})
        else:
            b = np.roll(a, 1, 0)
            b[b == int(rng.randint(1, k + 1))] = 0
            cases.append({"fn": "track", "cls": "moved", "many": int(a.max()), "iters": 2, "a": a.tolist(), "b": b.tolist()})
    # frames without objects: both empty, first empty (F11, fixed in /repo 2730541), second empty -> the empty map
    for _ in range(ctx.n(9, 45)):
        h, w = int(rng.randint(3, 40)), int(rng.randint(3, 40))
        e = np.zeros((h, w), int)
        o = _label_image(rng, h, w, int(rng.choice([1, 2, 5])), int(rng.choice([1, 2, 4])))
        if o.max() == 0:
            o[0, 0] = 1
        for cls, a, b in (("both-empty", e, e), ("first-empty", e, o), ("second-empty", o, e)):
            cases.append({"fn": "track", "cls": cls, "a": a.tolist(), "b": b.tolist()})
    for c in cases:
        c["dt"] = TRACK_DTYPES[int(rng.randint(len(TRACK_DTYPES)))]
        c["lay"] = LAYOUTS2[int(rng.randint(len(LAYOUTS2)))]
        if c["dt"] == "bool" and max(max(map(max, c["a"])), max(map(max, c["b"]))) > 1:
            c["dt"] = "uint8"
        if c["dt"] == "int8" and max(max(map(max, c["a"])), max(map(max, c["b"]))) > 127:
            c["dt"] = "int16"
    return cases


# ------------------------------------------------------------------------------------------ implementation side

def _enc(f):
    """float -> wire value of Model.Lapjv.of_ext (scaled by 2^S); raises if not representable"""
    f = float(f)
    if f != f:
        return 0
    if f == float("inf"):
        return 1
    if f == float("-inf"):
        return -1
    num, den = f.as_integer_ratio()
    if (num << S) % den:
        raise ValueError("dual %r is not a multiple of 2^-%d" % (f, S))
    return [(num << S) // den]


def _py_pm(c):
    """perfect-matching test in Python for the tracker's very large solver calls (the extracted checker works on
    unary naturals and is quadratic there)"""
    n = max(c["i"]) + 1
    listed = set(zip(c["i"], c["j"]))
    x, y = c["x"], c["y"]
    return (len(x) == n and len(y) == n and sorted(x) == list(range(n))
            and all(y[x[r]] == r for r in range(n)) and all((r, x[r]) in listed for r in range(n)))


def _hand(vals, dt, lay):
    """the Python object handed to the implementation: list / tuple / ndarray of a dtype, contiguous, a strided
    view, or read-only"""
    if dt == "list" and lay != "tuple":
        return list(vals)
    if lay == "tuple":
        return tuple(vals)
    a = np.array(vals, dtype=np.dtype(dt))
    if lay == "strided":
        base = np.zeros(2 * len(a) + 1, a.dtype)
        base[1::2] = a
        return base[1::2]
    if lay == "readonly":
        a.setflags(write=False)
    return a


def _hand2(img, dt, lay):
    a = np.array(img, dtype=np.dtype(dt))
    if lay == "f":
        return np.asfortranarray(a)
    if lay == "strided":
        base = np.zeros((a.shape[0] * 2, a.shape[1] * 3 + 1), a.dtype)
        base[::2, 1::3] = a
        return base[::2, 1::3]
    if lay == "readonly":
        a.setflags(write=False)
    return a


# ---- finding F35: non-grid float costs (class float-stall) ---------------------------------------

def _float_stall_cases(ctx):
    """has_PM instances with NON-GRID binary64 costs at large magnitudes / mixed column scales: outside the exact cost grid of
    the Coq model (no model correspondence), judged by hang detection + the float64 replay of augmenting_row_reduction."""
    rng = ctx.rng
    out = []
    for q in range(ctx.n(160, 1200)):
        n = int(rng.randint(3, 7))
        dense = q % 3 != 2
        kind = int(rng.randint(0, 4))
        if kind == 0:        # small integers times one non-grid scale (witness (ii))
            scale = float(10.0 ** rng.uniform(9, 17)) * float(rng.uniform(1, 10))
            colscale = [scale] * n
        elif kind == 1:      # per-column decimal scales
            colscale = [float(10.0 ** int(rng.randint(-7, 17))) for _ in range(n)]
        elif kind == 2:      # one huge column against small ones (witness (i))
            colscale = [float(10.0 ** int(rng.randint(-7, 2))) for _ in range(n)]
            colscale[int(rng.randint(n))] = float(10.0 ** int(rng.randint(8, 17)))
        else:                # per-column non-grid scales
            colscale = [float(10.0 ** rng.uniform(-3, 16)) for _ in range(n)]
        perm = list(rng.permutation(n))
        ftri = []
        for i in range(n):
            for j in range(n):
                if dense or perm[i] == j or rng.rand() < 0.6:
                    base = float(rng.randint(0, 17)) if rng.rand() < 0.7 else float(rng.randint(0, 4)) * 0.5
                    ftri.append([i, j, base * colscale[j]])
        cols = set(t[1] for t in ftri)
        if len(cols) < n:
            continue
        order = list(rng.permutation(len(ftri)))
        ftri = [ftri[o] for o in order]
        out.append({"fn": "flap", "n": n, "k": int(rng.randint(0, 4)) if rng.rand() < 0.8 else 2, "ftri": ftri,
                    "pat": "float-stall", "cls": ("dense" if dense else "sparse") + "/%d" % kind})
    keep = []
    for c, g in zip(out, ctx.run_impl(out, fn="impl_classify")):
        if isinstance(g, dict) and g.get("cap") and not g.get("stall"):
            ctx.count("excluded:float-long-price-war(terminating: every re-queue lowers a price, > 3e5 iterations; candidate C01-T2)")
        else:
            keep.append(c)
    return keep


def _arr_replay(n, ii, jj, idx, count, x, y, v, c, cap=3000000):
    """augmenting_row_reduction of _lapjv.pyx:180-215 in Python float64, operation for operation (same scan order, same
    strict / tie decisions, `v[j1] - u2 + u1` evaluated left to right, eps = sqrt(finfo(float64).eps)), on COPIES of the
    arguments the real function is about to receive.  (lapjv.py's slow_augmenting_row_reduction is NOT the same: it sorts
    with lexsort and has no eps.)  Stall = the loop state (k, pending rows, x, y, v, j2, #free) repeats at an eviction
    whose price update left v[j1] bit-identical although u1 + eps < u2: the loop is deterministic, so it never ends."""
    INF = float("inf")
    eps = float(np.sqrt(np.finfo(np.float64).eps))
    p_i = [int(t) for t in ii]; n_i = len(p_i)
    jj = [int(t) for t in jj]; idx = [int(t) for t in idx]; count = [int(t) for t in count]
    x = [int(t) for t in x]; y = [int(t) for t in y]; v = [float(t) for t in v]; c = [float(t) for t in c]
    k = 0; j1 = j2 = 0; nfree = 0; seen = {}; it = 0
    while k < n_i:
        it += 1
        if it > cap:
            return {"stall": False, "cap": True, "iterations": it}
        i = p_i[k]; k += 1
        base = idx[i]; u1 = INF; u2 = INF
        for jjj in range(count[i]):
            j = jj[base + jjj]; temp = c[base + jjj] - v[j]
            if temp < u1:
                u2 = u1; j2 = j1; u1 = temp; j1 = j
            elif temp < u2:
                u2 = temp; j2 = j
        i1 = y[j1]
        strict = (u1 + eps < u2)
        nochange = False
        if strict:
            old = v[j1]
            nv = old - u2 + u1
            nochange = (nv == old)
            v[j1] = nv
        elif i1 != n:
            j1 = j2; i1 = y[j1]
        if i1 != n:
            if strict:
                k -= 1; p_i[k] = i1
            else:
                nfree += 1
        x[i] = j1; y[j1] = i
        if strict and nochange and i1 != n:
            st = (k, tuple(p_i[k:]), tuple(x), tuple(y), tuple(v), j2, nfree)
            if st in seen:
                return {"stall": True, "iterations": it, "first_seen": seen[st], "row": i, "evicted": i1, "col": j1,
                        "v": old.hex(), "u1": u1.hex(), "u2": u2.hex()}
            seen[st] = it
    return {"stall": False, "iterations": it}


class _Stall(Exception):
    pass


def _flap_args(case):
    ft = case["ftri"]
    return (np.array([t[0] for t in ft], dtype=np.int64), np.array([t[1] for t in ft], dtype=np.int64),
            np.array([float(t[2]) for t in ft], dtype=np.float64))


def _impl_flap(case):
    from centrosome.lapjv import lapjv
    i, j, c = _flap_args(case)
    x, y, u, v = lapjv(i, j, c, wants_dual_variables=True, augmenting_row_reductions=case["k"])
    return {"x": [int(t) for t in x], "y": [int(t) for t in y], "uf": [float(t).hex() for t in u], "vf": [float(t).hex() for t in v]}


def _guarded_flap(case, cap=3000000, stop_on_cap=False):
    """the real lapjv with augmenting_row_reduction guarded by the float64 replay: before every real call the replay runs on
    copies of its arguments (so phases 1-2 are the REAL column reduction and reduction_transfer); a proven stall stops the
    run, otherwise the real function is called"""
    import centrosome.lapjv as LM
    real = LM.augmenting_row_reduction
    info = {"passes": []}

    def wrapper(n, ii, jj, idx, count, x, y, u, v, cc):
        r = _arr_replay(n, ii, jj, idx, count, x, y, v, cc, cap=cap)
        info["passes"].append(r)
        if r["stall"] or (stop_on_cap and r.get("cap")):
            raise _Stall()
        return real(n, ii, jj, idx, count, x, y, u, v, cc)     # also after an inconclusive replay (iteration cap): a long, terminating price war
    LM.augmenting_row_reduction = wrapper
    try:
        i, j, c = _flap_args(case)
        try:
            out = LM.lapjv(i, j, c, True, case["k"])
            info["x"] = [int(t) for t in out[0]]; info["y"] = [int(t) for t in out[1]]
        except _Stall:
            info["x"] = None
    finally:
        LM.augmenting_row_reduction = real
    info["stall"] = bool(info["passes"] and info["passes"][-1]["stall"])
    info["cap"] = any(p_.get("cap") for p_ in info["passes"])
    return info


def impl_guarded(case):
    return _forked(case, limit=60, fn=_guarded_flap)


def impl_classify(case):
    """generator pre-filter for the float-stall class: stall (F35 class, kept) / completes (kept) / no end within 3e5 iterations
    of a pass although every re-queue lowers a price (a terminating but astronomically long price war - the float analogue
    of the grid class's 'price war beyond the model's fuel'; excluded and counted, reported as candidate C01-T2)"""
    return _forked(case, limit=60, fn=lambda c: _guarded_flap(c, cap=300000, stop_on_cap=True))


def _forked(case, limit=8, fn=None):
    """run _impl_lap in a forked child: a crash (signal) or a hang of the implementation is reported as an outcome of
    this case instead of killing / stalling the worker (finding F20: undefined behaviour after an empty rebuild of scan)"""
    import os, select, signal
    rd, wr = os.pipe()
    pid = os.fork()
    if pid == 0:
        try:
            os.close(rd)
            try:
                r = (fn or _impl_lap)(case)
            except BaseException as e:
                r = {"exc": type(e).__name__, "msg": str(e)[:300]}
            os.write(wr, json.dumps(r).encode())
        finally:
            os._exit(0)
    os.close(wr)
    buf = b""
    ready, _, _ = select.select([rd], [], [], limit)
    if not ready:
        os.kill(pid, signal.SIGKILL)
        os.waitpid(pid, 0)
        os.close(rd)
        return {"crash": "implementation hangs (killed after %d s in a forked child)" % limit}
    while True:
        chunk = os.read(rd, 1 << 16)
        if not chunk:
            break
        buf += chunk
    os.close(rd)
    _, status = os.waitpid(pid, 0)
    if buf:
        return json.loads(buf.decode())
    sig = status & 0x7f
    return {"crash": "implementation crashed (signal %d)" % sig if sig else "implementation exited %d without a result" % (status >> 8)}


def impl(case):
    if case["fn"] == "flap":
        return _forked(case, limit=4, fn=_impl_flap)
    if case["fn"] == "lap" and (case.get("f20") or case.get("pat") == "forced-expensive"):
        return _forked(case)
    if case["fn"] == "lap":
        return _impl_lap(case)
    return _impl_track(case)


def _impl_lap(case):
    if case["fn"] == "lap":
        from centrosome.lapjv import lapjv
        tri = case["tri"]
        i = [t[0] for t in tri]; j = [t[1] for t in tri]
        c = [t[2] / float(1 << S) for t in tri]
        for t, f in zip(tri, c):
            assert int(f * (1 << S)) == t[2], "cost not exactly representable"
        i = _hand(i, case.get("idt", "list"), case.get("lay", "c"))
        j = _hand(j, case.get("idt", "list"), case.get("lay", "c"))
        c = _hand(c, case.get("cdt", "list"), case.get("lay", "c"))
        for t, f in zip(tri, c):
            assert float(f) * (1 << S) == t[2], "cost changed by the hand-over dtype"
        keep = [np.array(t, copy=True) if isinstance(t, np.ndarray) else t for t in (i, j, c)]
        x, y, u, v = lapjv(i, j, c, wants_dual_variables=True, augmenting_row_reductions=case["k"])
        x2, y2 = lapjv(i, j, c, augmenting_row_reductions=case["k"])
        for a_, b_ in zip(keep, (i, j, c)):
            if isinstance(a_, np.ndarray) and not np.array_equal(a_, b_):
                return {"exc": "InputModified", "msg": "lapjv modified one of its argument arrays"}
        return {"x": [int(t) for t in x], "y": [int(t) for t in y], "u": [_enc(t) for t in u], "v": [_enc(t) for t in v],
                "same_without_duals": bool(list(x2) == list(x) and list(y2) == list(y))}
    raise AssertionError("not a lap case")


def _impl_track(case):
    # tracker: record every call of the solver made by the tracker, and the matrix it was built from
    from centrosome import neighmovetrack as T
    from centrosome import lapjv as LM
    calls = []
    sparse_bad = []
    orig = LM.lapjv
    orig_solve = T.NeighbourMovementTracking.solve_assignement

    def rec(i, j, costs, *a, **kw):
        r = orig(i, j, costs, *a, **kw)
        calls.append({"i": [int(t) for t in i], "j": [int(t) for t in j], "c": [float(t) for t in costs],
                      "x": [int(t) for t in r[0]], "y": [int(t) for t in r[1]]})
        return r

    def solve(self, costs):
        k0 = len(calls)
        r = orig_solve(self, costs)
        if costs is not None and len(costs) > 0:
            m = np.asarray(costs)
            exp = [(a_, b_, float(m[a_, b_])) for a_ in range(m.shape[0]) for b_ in range(m.shape[1]) if m[a_, b_] < 1000000]
            if len(calls) != k0 + 1:
                sparse_bad.append("solve_assignement made %d solver calls" % (len(calls) - k0))
            else:
                c = calls[-1]
                if list(zip(c["i"], c["j"], c["c"])) != exp:
                    sparse_bad.append("sparse problem differs from the entries < invalid_match of the cost matrix")
                if r != dict(enumerate(c["x"])):
                    sparse_bad.append("assignment dict differs from enumerate(x)")
        return r
    LM.lapjv = rec
    T.NeighbourMovementTracking.solve_assignement = solve
    try:
        a = _hand2(case["a"], case.get("dt", "int64"), case.get("lay", "c"))
        b = _hand2(case["b"], case.get("dt", "int64"), case.get("lay", "c"))
        a0, b0 = a.copy(), b.copy()
        tr = T.NeighbourMovementTracking()
        if case.get("iters") is not None:
            tr.parameters_tracking["iterations"] = case["iters"]
        res = tr.run_tracking(a, b)
        # the detections the tracker works on: (label number, area, centroid) of every present label
        for img in (a, b):
            ii = img.astype(int)
            feats = T.CellFeatures.from_labels(img)
            got = [(int(f.number), float(f.area), float(f.center[0]), float(f.center[1])) for f in feats]
            exp = []
            for l in np.unique(ii):
                if l != 0:
                    ys, xs = np.nonzero(ii == l)
                    exp.append((int(l), float(len(ys)), float(ys.mean()), float(xs.mean())))
            if [g[:2] for g in got] != [e[:2] for e in exp]:
                sparse_bad.append("detections (label, area) %s differ from the label image's %s" % ([g[:2] for g in got][:6], [e[:2] for e in exp][:6]))
            elif any(abs(g[2] - e[2]) > 1e-9 * (1 + abs(e[2])) or abs(g[3] - e[3]) > 1e-9 * (1 + abs(e[3])) for g, e in zip(got, exp)):
                sparse_bad.append("detection centroids differ from the label image's")
        if not (np.array_equal(a, a0) and np.array_equal(b, b0)):
            sparse_bad.append("run_tracking modified a label image")
    finally:
        LM.lapjv = orig
        T.NeighbourMovementTracking.solve_assignement = orig_solve
    labs1 = [int(l) for l in np.unique(a.astype(int)) if l != 0]
    labs2 = [int(l) for l in np.unique(b.astype(int)) if l != 0]
    last = {k: calls[-1][k] for k in ("x", "y")} if calls else None
    return {"pairs": [[int(p), int(q)] for p, q in res], "labs1": labs1, "labs2": labs2, "ncalls": len(calls),
            "last": last, "sparse_bad": sparse_bad[:3],
            "calls_pm": [[max(c["i"]) + 1, [[a_, b_, 0] for a_, b_ in zip(c["i"], c["j"])], c["x"], c["y"]]
                         for c in calls[:3] + calls[-1:] if max(c["i"]) < 150],
            "big_pm_ok": all(_py_pm(c) for c in calls if max(c["i"]) >= 150)}


def _bad(o):
    return (not isinstance(o, dict)) or "exc" in o or "crash" in o


# ------------------------------------------------------------------------------------------ model side

def _lap_arg(case, rt=0, eps=EPS, epsr=EPS, tinf=0):
    """(rt, eps at :202, eps at :208, passes, n, triples, tinf); the code is (AsIs=0, 2^-26, 2^-26, sentinel inf = sum(c)+1);
    tinf=1: augment's inf is a true infinity (reference variant, finding F20)"""
    return [rt, eps, epsr, case["k"], case["n"], case["tri"], tinf]


def model(ctx, cases, outs):
    res = [None] * len(cases)
    li = [k for k, c in enumerate(cases) if c["fn"] == "lap"]
    for k, r in zip(li, ctx.run_model("entry_lapjv", [_lap_arg(cases[k]) for k in li])):
        res[k] = r
    ti = [k for k, c in enumerate(cases) if c["fn"] == "track" and not _bad(outs[k]) and outs[k]["last"]]
    args = [[len(outs[k]["labs1"]), len(outs[k]["labs2"]), outs[k]["last"]["x"], outs[k]["labs1"], outs[k]["labs2"]] for k in ti]
    for k, r in zip(ti, ctx.run_model("entry_track", args)):
        res[k] = r
    return res


def compare(case, out, m):
    if case["fn"] == "flap":
        return None     # non-grid float costs: outside the exact cost grid of the Coq model, no correspondence claimed (finding F35)
    if case["fn"] == "lap" and case.get("f20") and (isinstance(m, dict) or m == []):
        # the faithful model stops at the empty rebuild of scan; what the real code does from there (it reads
        # p_scan[low] past `up`) is undefined, so there is nothing to compare; check() + attribution decide
        return None
    if _bad(out):
        return "implementation raised/crashed: %s" % (str(out)[:300],)
    if case["fn"] == "lap":
        if isinstance(m, dict) or m == []:
            return "model gave no result (%s)" % (m,)
        exp = [out["x"], out["y"], out["u"], out["v"]]
        if m != exp:
            for name, a, b in zip("xyuv", exp, m):
                if a != b:
                    return "lapjv %s differs from the (AsIs, 2^-26) model: impl %s model %s" % (name, a, b)
        return None
    if out["last"] is None:
        return None if out["pairs"] == [] else "tracker returned pairs without calling the solver"
    if m != out["pairs"]:
        return "tracker pairs differ from the read-back model: impl %s model %s" % (out["pairs"][:8], m[:8] if isinstance(m, list) else m)
    return None


# ------------------------------------------------------------------------------------------ checker

def _finitise(case, x, y, u, v):
    """Replace the +-inf duals of single-candidate rows by finite ones (untrusted; cert_ok decides).
    Returns (u, v) as plain ints or None when some dual is NaN / an unexpected infinity."""
    n = case["n"]
    cost = {(t[0], t[1]): t[2] for t in case["tri"]}
    uu = [None] * n; vv = [None] * n
    for k in range(n):
        if isinstance(u[k], list):
            uu[k] = u[k][0]
        if isinstance(v[k], list):
            vv[k] = v[k][0]
    # Columns with v = -inf are reserved by rows with u = +inf (a free row whose other candidates
    # all had infinite reduced cost).  Choose v'[j] = -M[j], u'[y[j]] = c[y[j], j] + M[j] with M the
    # least solution of the difference constraints that dual feasibility imposes.
    icols = [jj for jj in range(n) if vv[jj] is None]
    for jj in icols:
        if v[jj] != -1 or not (0 <= y[jj] < n) or u[y[jj]] != 1 or (y[jj], jj) not in cost or x[y[jj]] != jj:
            return None
    irows = set(y[jj] for jj in icols)
    if any(uu[r] is None and r not in irows for r in range(n)):
        return None
    M = {jj: 0 for jj in icols}
    for (a, b), c in cost.items():
        if b in M and a not in irows:
            M[b] = max(M[b], uu[a] - c)                 # c - u[a] + M[b] >= 0
    for _ in range(len(icols) + 1):
        changed = False
        for (a, b), c in cost.items():
            if a in irows and b in M and b != x[a]:
                need = M[x[a]] + cost[(a, x[a])] - c     # c - (c_own + M_own) + M[b] >= 0
                if M[b] < need:
                    M[b] = need; changed = True
        if not changed:
            break
    else:
        return None
    for jj in icols:
        vv[jj] = -M[jj]
        uu[y[jj]] = cost[(y[jj], jj)] + M[jj]
    return uu, vv


def _cert_args(case, x, y, u, v):
    f = _finitise(case, x, y, u, v)
    if f is None:
        return None
    return [case["n"], case["tri"], x, y, f[0], f[1]]


def _brute(case):
    n = case["n"]
    cost = {(t[0], t[1]): t[2] for t in case["tri"]}
    best = None
    for p in itertools.permutations(range(n)):
        s = 0
        for r in range(n):
            c = cost.get((r, p[r]))
            if c is None:
                s = None
                break
            s += c
        if s is not None and (best is None or s < best):
            best = s
    return best


def _finite(o):
    return all(isinstance(t, list) for t in o[2]) and all(isinstance(t, list) for t in o[3])


def _certified(ctx, cases, xs):
    """[True/False]: pm_ok and cert_ok (on finitised duals) both hold - by Proofs.LapjvCert.cert_sound the matching
    is then minimum-cost"""
    res = [False] * len(cases)
    idx, args = [], []
    for k, (c, o) in enumerate(zip(cases, xs)):
        if o is None or len(o) != 4:
            continue
        a = _cert_args(c, *o)
        if a is not None:
            idx.append(k); args.append(a)
    for k, r in zip(idx, ctx.run_model("entry_cert", args) if args else []):
        res[k] = (r == 1)
    return res


def _reference_optimum(ctx, cases):
    """total cost of a CERTIFIED optimal matching per case (repaired model variants, cert_ok verified), else
    brute force for n <= 7, else None"""
    res = [None] * len(cases)
    todo = list(range(len(cases)))
    for rt, e1, e2 in ((1, 0, EPS), (1, 0, 0), (1, EPS, EPS)):
        if not todo:
            break
        ms = ctx.run_model("entry_lapjv", [_lap_arg(cases[k], rt, e1, e2) for k in todo])
        ms = [None if isinstance(m, dict) or m == [] else tuple(m) for m in ms]
        ok = _certified(ctx, [cases[k] for k in todo], ms)
        good = [(k, m) for k, m, g in zip(todo, ms, ok) if g]
        tots = ctx.run_model("entry_total", [[cases[k]["n"], cases[k]["tri"], m[0]] for k, m in good]) if good else []
        for (k, m), t in zip(good, tots):
            res[k] = t
        todo = [k for k in todo if res[k] is None]
    for k in todo:
        if cases[k]["n"] <= 7:
            res[k] = _brute(cases[k])
    return res


def _lap_verdicts(ctx, cases, xs):
    """xs: list of (x, y, u, v) in wire form (or None).  Returns list of None | violated clause.
    Clauses: (1) x, y mutually inverse permutations over listed pairs; (2) finite duals must certify
    (cert_ok, verified => minimum cost); (3) with infinite duals (the property exempts them from the dual clause)
    the matching must still be minimum-cost: a finitised certificate, else equality of cost with a certified
    optimum."""
    res = [None] * len(cases)
    pm_args, pm_idx = [], []
    for k, (c, o) in enumerate(zip(cases, xs)):
        if o is None or len(o) != 4:
            res[k] = "no result"
            continue
        pm_idx.append(k); pm_args.append([c["n"], c["tri"], o[0], o[1]])
    pm = ctx.run_model("entry_pm", pm_args) if pm_args else []
    live = []
    for k, r in zip(pm_idx, pm):
        if r != 1:
            res[k] = "x, y are not mutually inverse permutations over listed pairs (Spec.Lapjv.pm_ok false)"
        else:
            live.append(k)
    cert = _certified(ctx, [cases[k] for k in live], [xs[k] for k in live])
    open_ = [k for k, g in zip(live, cert) if not g]
    if open_:
        ref = _reference_optimum(ctx, [cases[k] for k in open_])
        tots = ctx.run_model("entry_total", [[cases[k]["n"], cases[k]["tri"], xs[k][0]] for k in open_])
        for k, r, t in zip(open_, ref, tots):
            if r is None:
                ctx.count("undecided:no-certified-reference-optimum")
                if _finite(xs[k]):
                    res[k] = "finite duals do not certify the matching (Spec.Lapjv.cert_ok false)"
            elif t != r:
                res[k] = "matching cost %s/2^%d exceeds the certified minimum %s/2^%d" % (t, S, r, S)
            elif _finite(xs[k]):
                res[k] = "matching is minimum-cost but the finite duals do not certify it (Spec.Lapjv.cert_ok false)"
            else:
                ctx.count("infinite-duals:optimal-by-cost-comparison")
    return res


_ATTR = {}          # case key -> finding id | None, filled in batch by check()


def _key(case, out):
    return json.dumps([case["n"], case["k"], case["tri"], out], sort_keys=True, default=str)


def _nores(m):
    return isinstance(m, dict) or m == []


def _attribute_batch(ctx, cases, outs):
    """cases: failing lap cases (any clause, including crashes).  See attribute()."""
    todo = list(range(len(cases)))
    for k in todo:
        _ATTR[_key(cases[k], outs[k])] = None
    ms = ctx.run_model("entry_lapjv", [_lap_arg(c) for c in cases])
    # F20: the faithful (sentinel) model hits the empty rebuild, the same model with a true infinity returns an optimal matching
    s20 = [k for k in todo if _nores(ms[k])]
    if s20:
        rf = ctx.run_model("entry_lapjv", [_lap_arg(cases[k], tinf=1) for k in s20])
        rf = [None if _nores(m) else tuple(m) for m in rf]
        ver = _lap_verdicts(ctx, [cases[k] for k in s20], rf)
        for k, m, v in zip(s20, rf, ver):
            # the reference result may itself carry F1 / F6 (it is still the as-is reduction transfer / eps band):
            # what identifies F20 is that it RETURNS a perfect matching where the sentinel model cannot
            if m is not None and (v is None or "certif" in v):
                _ATTR[_key(cases[k], outs[k])] = "F20"
    same = [k for k in todo if not _nores(ms[k]) and not _bad(outs[k])
            and ms[k] == [outs[k]["x"], outs[k]["y"], outs[k]["u"], outs[k]["v"]]]
    rest = same
    for fid, rt, e1, e2 in (("F1", 1, EPS, EPS), ("F6", 1, 0, EPS), ("F6", 1, 0, 0)):
        if not rest:
            break
        vs = ctx.run_model("entry_lapjv", [_lap_arg(cases[k], rt, e1, e2, 1) for k in rest])
        vs = [None if _nores(m) else tuple(m) for m in vs]
        ver = _lap_verdicts(ctx, [cases[k] for k in rest], vs)
        nxt = []
        for k, v in zip(rest, ver):
            if v is None:
                _ATTR[_key(cases[k], outs[k])] = fid
            else:
                nxt.append(k)
        rest = nxt


_FLAP = {}      # float-stall case -> outcome of the guarded run (float64 replay of augmenting_row_reduction)


def _fkey(case):
    return json.dumps([case["n"], case["k"], case["ftri"]])


def _flap_check(ctx, cases, outs, res):
    """float-stall cases.  Hang / crash: failure, attributed by attribute() through the replay.  Returned: (a) the replay must
    not report a stall (replay and implementation must agree on termination); (b) x is a perfect matching over listed pairs
    and y its inverse; (c) dense inputs (where F1 cannot show: every row has the same column list): the cost of x is within
    n * 2^-26 + 2^-40 * sum(c) of the exact optimum (brute force over permutations in exact rational arithmetic; the slack
    covers the eps tie band F6 and binary64 rounding of the prices).  For SPARSE float inputs (c) is counted, not judged:
    attributing a non-optimal answer to F1 / F6 needs the exact model, which does not apply off the grid."""
    from fractions import Fraction
    fi = [k for k, c in enumerate(cases) if c["fn"] == "flap"]
    if not fi:
        return
    gs = ctx.run_impl([cases[k] for k in fi], fn="impl_guarded")
    for k, g in zip(fi, gs):
        c, o = cases[k], outs[k]
        _FLAP[_fkey(c)] = g
        n = c["n"]
        if _bad(o):
            ctx.count("flap:outcome:" + ("hang" if "hangs" in str(o.get("crash", "")) else "crash/exception"))
            continue            # res[k] already says so
        ctx.count("flap:outcome:returned")
        if isinstance(g, dict) and g.get("cap") and not g.get("stall"):
            ctx.count("flap:replay-inconclusive(no stall within 3e6 iterations: long terminating price war; implementation returned)")
        if _bad(g) or g.get("stall"):
            res[k] = "float64 replay of augmenting_row_reduction reports %s but the implementation returned" % (
                "a stall" if isinstance(g, dict) and g.get("stall") else str(g)[:200])
            continue
        x, y = o["x"], o["y"]
        cost = {(t[0], t[1]): Fraction(float(t[2])) for t in c["ftri"]}
        if not (len(x) == n and len(y) == n and sorted(x) == list(range(n)) and all(y[x[r]] == r for r in range(n))
                and all((r, x[r]) in cost for r in range(n))):
            res[k] = "lapjv on float costs: x is not a perfect matching over listed pairs / y is not its inverse"
            continue
        got = sum(cost[(r, x[r])] for r in range(n))
        best = None
        for perm in itertools.permutations(range(n)):
            if all((r, perm[r]) in cost for r in range(n)):
                t = sum(cost[(r, perm[r])] for r in range(n))
                if best is None or t < best:
                    best = t
        tol = Fraction(n, 1 << 26) + sum(cost.values()) / (1 << 40)
        dense = len(cost) == n * n
        if got - best > tol:
            if dense:
                res[k] = "lapjv on dense float costs: cost of x exceeds the optimum by %s (tolerance %s)" % (float(got - best), float(tol))
            else:
                ctx.count("flap:sparse:non-optimal-beyond-tolerance(counted, not judged: F1/F6 attribution needs the exact model)")
        else:
            ctx.count("flap:returned:optimal-within-tolerance(%s)" % ("dense" if dense else "sparse"))


def check(ctx, cases, outs):
    res = [None] * len(cases)
    for k, o in enumerate(outs):
        if _bad(o):
            res[k] = "implementation raised/crashed on a valid input: %s" % (str(o)[:300],)
    _flap_check(ctx, cases, outs, res)
    li = [k for k, c in enumerate(cases) if c["fn"] == "lap" and not _bad(outs[k])]
    ver = _lap_verdicts(ctx, [cases[k] for k in li], [(outs[k]["x"], outs[k]["y"], outs[k]["u"], outs[k]["v"]) for k in li])
    for k, v in zip(li, ver):
        res[k] = v
        if v is None and not outs[k]["same_without_duals"]:
            res[k] = "x, y differ between wants_dual_variables=True and False"
    fl = [k for k, c in enumerate(cases) if c["fn"] == "lap" and res[k] and _key(c, outs[k]) not in _ATTR]
    if fl:
        _attribute_batch(ctx, [cases[k] for k in fl], [outs[k] for k in fl])
    # the hypotheses that the Coq development leaves to the per-instance check, evaluated on every case:
    # (H-total) the repaired reference model (Fixed, eps 0 at :202, true infinity in augment) returns - "always returns" is NOT proved;
    # (H-2cand) every row lists >= 2 candidates - the premise under which C01_lapjv_fixed_optimal is proved.  Where both
    # hold the theorem says the model's result is optimal: the extracted model is checked against that (a disagreement
    # would be a bug of extraction / harness, reported as a failure of this check).
    if li:
        fm = ctx.run_model("entry_lapjv", [_lap_arg(cases[k], 1, 0, EPS, 1) for k in li])
        fs = ctx.run_model("entry_lapjv", [_lap_arg(cases[k], 1, 0, EPS, 0) for k in li])
        for m1, m0 in zip(fm, fs):
            if _nores(m0) and not _nores(m1):
                ctx.count("fixed-model-with-SENTINEL-inf:no-result(F20 also hits the row-offset-repaired variant)")
        fm = [None if isinstance(m, dict) or m == [] else tuple(m) for m in fm]
        cert = _certified(ctx, [cases[k] for k in li], fm)
        # (H-arr) the one premise of C01_lapjv_ref_fixed_total_partial / _correct_partial, evaluated by the extracted
        # Model.Lapjv.arr_returns_b: augmenting row reduction of the (Fixed, eps 0 at :202, 2^-26 at :208) solver returns
        # within the model's fuel.  With >= 2 candidates per row the theorems say: premise <=> the reference model returns
        # (and then its result is optimal); a disagreement is a bug of extraction / harness.
        arr = ctx.run_model("entry_arr", [[EPS, cases[k]["k"], cases[k]["n"], cases[k]["tri"]] for k in li])
        for k, m, g, a in zip(li, fm, cert, arr):
            rows = {}
            for t in cases[k]["tri"]:
                rows[t[0]] = rows.get(t[0], 0) + 1
            two = min(rows.values()) >= 2
            ctx.count("hyp:rows>=2-candidates" if two else "hyp:has-one-candidate-row")
            if not two and cases[k]["k"] == 0:
                ctx.count("hyp:one-candidate-row-but-0-passes(covered by C01_lapjv_ref_fixed_correct_k0)")
            if not two and cases[k]["k"] > 0:
                ctx.count("hyp:one-candidate-row,k>=1:" + ("no-pending-row-after-ARR(covered by C01_lapjv_ref_fixed_correct_nofree)"
                                                            if a == 2 else "augment-runs-over-reserved-columns(covered by C01_lapjv_ref_fixed_correct_partial, round 14)" if a == 1 else "premise-fails"))
            two = two or cases[k]["k"] == 0 or a == 2          # from here on: "covered by an end-to-end theorem"
            prem = (a in (1, 2))
            # END-TO-END COVERAGE TABLE (evidence: coverage.distribution, keys "E2E/...").  Since round 14
            # C01_lapjv_ref_fixed_correct_partial has arr_returns_b as its only premise: every case on which it holds is covered
            # end to end by a theorem about the reference variant (returns, optimal, inverse permutations).
            if prem:
                ctx.count("E2E/covered-by-theorem:total")
                ctx.count("E2E/covered-by-theorem:" + (">=2-candidates-per-row" if min(rows.values()) >= 2 else
                                                       "one-candidate-row,0-passes" if cases[k]["k"] == 0 else
                                                       "one-candidate-row,k>=1,no-pending-row-after-ARR" if a == 2 else
                                                       "one-candidate-row,k>=1,augment-runs-over-reserved-columns"))
            else:
                ctx.count("E2E/checker-only(premise arr_returns_b fails: model fuel)")
            ctx.count("hyp:arr-returns(premise of C01_lapjv_ref_fixed_total_partial)" + (":holds" if prem else ":FAILS")
                      + ("" if two else "(one-candidate row)"))
            if res[k] is None and prem != (m is not None):
                res[k] = ("INTERNAL: arr_returns_b = %s but the extracted reference model (Fixed, eps 0, true infinity) %s - "
                          "contradicts C01_lapjv_ref_fixed_total_partial / C01_lapjv_ref_returns_arr"
                          % (prem, "returned" if m is not None else "gave no result"))
            if not two and prem and m is None:
                ctx.count("hyp:one-candidate-row:premise holds but reference model gives no result")
            if m is None:
                ctx.count("hyp:fixed-model-NO-RESULT(total not proved)")
                ctx.note("Fixed model returned no result on a generated case (n=%d): hypothesis of C01_lapjv_fixed_optimal not met" % cases[k]["n"])
                continue
            ctx.count("hyp:fixed-model-returns")
            if g:
                ctx.count("fixed-model-certified(theorem-covered)")
            elif two and res[k] is None:
                res[k] = ("INTERNAL: the extracted (Fixed, eps 0) model returned a result that cert_ok rejects on an input "
                          "satisfying the premises of the proved theorem C01_lapjv_fixed_optimal")
            else:
                ctx.count("fixed-model-uncertified(theorem-covered; one-candidate rows, infinite duals are outside cert_ok)")
    ti = [k for k, c in enumerate(cases) if c["fn"] == "track" and not _bad(outs[k])]
    oks = ctx.run_model("entry_track_ok", [outs[k]["pairs"] for k in ti]) if ti else []
    pm_args, pm_own = [], []
    for k in ti:
        for a in outs[k]["calls_pm"]:
            pm_args.append(a); pm_own.append(k)
    pms = ctx.run_model("entry_pm", pm_args) if pm_args else []
    for k, r in zip(ti, oks):
        o = outs[k]
        if r != 1:
            res[k] = "tracker result is not a functional injective map (Spec.Lapjv.track_ok false): %s" % (o["pairs"][:10],)
        elif not o.get("big_pm_ok", True):
            res[k] = "a (large) solver call made by the tracker did not return a perfect matching over listed pairs"
        elif o["sparse_bad"]:
            res[k] = "tracker: " + o["sparse_bad"][0]
        elif any(p not in o["labs1"] or q not in o["labs2"] for p, q in o["pairs"]):
            res[k] = "tracker pairs mention labels absent from the frames"
        elif (not o["labs1"] or not o["labs2"]) and o["pairs"] != []:
            res[k] = "a frame without objects must give the empty map, got %s" % (o["pairs"][:10],)
        elif cases[k].get("cls") == "identical" and sorted(o["pairs"]) != [[l, l] for l in o["labs1"]]:
            res[k] = "unchanged frame: tracker result %s is not the identity on %s" % (o["pairs"][:10], o["labs1"][:10])
    for k, r in zip(pm_own, pms):
        if r != 1 and res[k] is None:
            res[k] = "a solver call made by the tracker did not return a perfect matching over listed pairs"
    return res


def nontrivial(case, out):
    if case["fn"] == "flap":
        return case["n"] >= 2
    if case["fn"] == "lap":
        rows = {}
        for t in case["tri"]:
            rows[t[0]] = rows.get(t[0], 0) + 1
        return case["n"] >= 2 and max(rows.values()) >= 2
    return len(out["labs1"]) >= 2 or len(out["labs2"]) >= 2


def kernel_crosscheck(ctx, cases, outs):
    idx = [k for k, c in enumerate(cases) if c["fn"] == "lap" and not _bad(outs[k]) and c["n"] <= 6 and len(c["tri"]) >= 2][:50]
    args = [_lap_arg(cases[k]) for k in idx]
    exp = [[outs[k]["x"], outs[k]["y"], outs[k]["u"], outs[k]["v"]] for k in idx]
    r = ctx.coq_eval_eq("Model.Lapjv", "entry_lapjv", args, exp, tag="lap")
    bad = [k for k, b in zip(idx, r) if b is not True]
    if bad:
        return "vm_compute evaluation of Model.Lapjv.entry_lapjv differs from the implementation on case %d" % bad[0], len(idx)
    return None, len(idx)


# ------------------------------------------------------------------------------------------ known findings

def _variant_verdict(ctx, case, rt, eps, epsr):
    m = ctx.run_model("entry_lapjv", [_lap_arg(case, rt, eps, epsr)])[0]
    if isinstance(m, dict) or m == []:
        return "no result"
    return _lap_verdicts(ctx, [case], [tuple(m)])[0]


def attribute(ctx, case, out, clause):
    """Decided by the model variants, never by a mute.
    F20: the faithful model (AsIs, 2^-26, sentinel inf = sum(c) + 1) hits the empty rebuild of scan in augment (no result)
         while the same model with a true infinity returns a perfect matching - whatever the real code did from there
         (crash, garbage, wrong answer) is attributed to F20.  A crash or wrong answer on an input where the sentinel model
         does NOT hit the empty rebuild is never F20.
    F1 / F6: the implementation must equal the faithful model bit for bit; F1 iff the (Fixed, 2^-26) model satisfies the
         property on this input; F6 iff that one does not but (Fixed, 0, 2^-26) or (Fixed, 0, 0) does (Fixed variants are
         run with the true infinity).  Anything else is a new violation."""
    if case.get("fn") == "flap":
        # F35 iff the implementation HANGS and the float64 replay of augmenting_row_reduction (on the real arguments after the
        # real phases 1-2) reaches a provable cycle: an eviction whose price update leaves v[j1] bit-identical although
        # u1 + eps < u2, in a loop state that repeats.  A hang without such a stall, a crash, or a wrong answer: violation.
        if not (_bad(out) and "hangs" in str(out.get("crash", "") if isinstance(out, dict) else "")):
            return None
        g = _FLAP.get(_fkey(case))
        if g is None:
            g = ctx.run_impl([case], fn="impl_guarded")[0]
            _FLAP[_fkey(case)] = g
        return "F35" if (isinstance(g, dict) and g.get("stall")) else None
    if case.get("fn") != "lap":
        return None
    k = _key(case, out)
    if k not in _ATTR:
        _attribute_batch(ctx, [case], [out])
    return _ATTR[k]


def _fragment_witness(fid):
    """the coordinator's merged entry in known_findings.json may carry no witness: use the one of this property's fragment"""
    import json as _json
    p = os.path.join(os.path.dirname(os.path.dirname(os.path.dirname(os.path.abspath(__file__)))), "findings", "C01.json")
    try:
        with open(p) as f:
            for e in _json.load(f)["findings"]:
                if e.get("id") == fid and "witness" in e:
                    return e["witness"]
    except (OSError, ValueError, KeyError):
        pass
    return None


def reproduce_finding(ctx, finding):
    case = finding.get("witness") or _fragment_witness(finding["id"])
    if case is None:
        return False
    out = ctx.run_impl([case])[0]
    v = check(ctx, [case], [out])[0]
    return bool(v) and attribute(ctx, case, out, v) == finding["id"]


# ------------------------------------------------------------------------------------------ search / shrink

def search_cases(ctx, rnd):
    rng = ctx.rng
    cases = []
    for _ in range(1500):
        n = int(rng.randint(2, 9 + 2 * rnd))
        cases.append(_lap_case(rng, n, PATTERNS[int(rng.randint(len(PATTERNS)))], KINDS[int(rng.randint(len(KINDS)))],
                               int(rng.randint(0, 4))))
    return cases


def _renumber(n, tri, drop_r, drop_c):
    out = []
    for r, c, w in tri:
        if r == drop_r or c == drop_c:
            continue
        out.append([r - (r > drop_r), c - (c > drop_c), w])
    return out


def _has_pm(n, tri):
    """Kuhn's augmenting-path bipartite matching: does the sparsity pattern contain a perfect matching?"""
    adj = [[] for _ in range(n)]
    for t in tri:
        adj[t[0]].append(t[1])
    match = [-1] * n

    def aug(r, seen):
        for c in adj[r]:
            if c not in seen:
                seen.add(c)
                if match[c] < 0 or aug(match[c], seen):
                    match[c] = r
                    return True
        return False
    return all(aug(r, set()) for r in range(n))


def _valid(n, tri):
    if n < 1 or not tri:
        return False
    if set(t[0] for t in tri) != set(range(n)) or set(t[1] for t in tri) != set(range(n)):
        return False
    if len(set((t[0], t[1]) for t in tri)) != len(tri):
        return False
    return _has_pm(n, tri)


def shrink_candidates(case):
    if case["fn"] != "lap":
        return
    n, tri = case["n"], case["tri"]
    base = {k: v for k, v in case.items() if k not in ("n", "tri")}
    if n > 1 and n <= 12:
        for r in range(n):
            for c in range(n):
                t2 = _renumber(n, tri, r, c)
                if _valid(n - 1, t2):
                    yield dict(base, n=n - 1, tri=t2)
    for k in range(len(tri)):
        t2 = tri[:k] + tri[k + 1:]
        if _valid(n, t2):
            yield dict(base, n=n, tri=t2)
    if case["k"] > 0:
        yield dict(base, n=n, tri=tri, k=case["k"] - 1)
    for k in range(len(tri)):
        if tri[k][2] != 0:
            t2 = [list(t) for t in tri]
            t2[k][2] = 0 if tri[k][2] <= (1 << S) else (tri[k][2] >> (S + 1)) << S
            yield dict(base, n=n, tri=t2)


MANIFEST = {
    "level_text": (
        "Machine-checked proofs (Coq 8.16, 71 theorems: 70 closed under the global context, 1 - C01_arr_float_stall_refuted - resting on the kernel's primitive float / int63 operations only) about (a) the certificate "
        "checker cert_ok that is run, extracted, on the implementation's own (x, y, u, v): acceptance implies x is a "
        "minimum-cost perfect matching over listed pairs, y its inverse and (u, v) a dual certificate, for every n and every "
        "sparsity pattern; (b) a line-level executable Gallina model of lapjv.py + _lapjv.pyx with switches rt in {AsIs, Fixed}, "
        "eps in {2^-26, 0} over ext = Fin Z | +inf | -inf | NaN, compared bit for bit with the freshly built implementation; "
        "the faithful (AsIs, 2^-26, sentinel inf) model is refuted by kernel-evaluated witnesses (findings F1, F6, and F20: "
        "augment's sentinel inf = sum(c) + 1 is too small - the model's rebuild of scan is empty where the real code "
        "segfaults, C01_inf_sentinel_refuted); for the repaired "
        "(Fixed, eps 0) model, and for (Fixed, 2^-26) on cost grids coarser than 2^-26, it is PROVED for every input with a "
        "perfect matching that whenever the model returns, x and y are mutually inverse permutations over listed pairs "
        "(C01_lapjv_fixed_pm: all four phases - column reduction, reduction transfer, augmenting row reduction incl. -inf "
        "prices via a Hall argument, augment with its pred chain / flip) and, when every row lists at least two candidates, "
        "that x is a minimum-cost perfect matching (C01_lapjv_fixed_optimal: Dijkstra invariant of augment "
        "C01_aug_dist_inv, price update C01_aug_price_slack, weak duality); the same two theorems hold for the reference variant "
        "lapjv_ref whose augment uses a true infinity (C01_lapjv_ref_fixed_pm, C01_lapjv_ref_fixed_optimal, distance invariant "
        "C01_aug_dist_invR over d in Fin | +inf), and for it a rebuild of scan at a loop head is proved non-empty from has_PM by "
        "a Hall-block argument (C01_aug_scan_nonempty_ref), hence augment ALWAYS RETURNS (C01_lapjv_ref_augment_total). End to "
        "end for the reference variant: with augmenting_row_reductions = 0, for EVERY input of the quantifier (one-candidate "
        "rows included) the solver returns an optimal perfect matching with inverse permutations - no premise left "
        "(C01_lapjv_ref_fixed_correct_k0); with k >= 1 passes the same for EVERY input of the quantifier (one-candidate rows "
        "included since round 14: the Dijkstra invariant over prices in Fin | -inf, Proofs.LapjvAugDistE, and augment preserving "
        "InvE + Ord, C01_aug_rows_all_ext) under the single premise "
        "arr_returns_b that the eps-retry passes of augmenting row reduction return within the model's fuel "
        "(C01_lapjv_ref_fixed_correct_partial, _grid_partial for the code's eps on coarser cost grids); for one-candidate rows "
        "with k >= 1 the order invariant on the reserved (-inf priced) block is carried through augmenting row reduction "
        "(C01_arr_passes_inv_ord), the block is forced in every perfect matching (C01_reserved_forced), a complete assignment "
        "under InvE + Ord is optimal (C01_optimal_with_reserved), and the solver is correct end to end whenever phases 1-3 "
        "leave no pending row (C01_lapjv_ref_fixed_correct_nofree); (c) the tracker's read-back of the solver result "
        "is injective for every permutation, and the identity clause holds at the level of the assignment problem."),
    "level_note": (
        "SCOPE: every C01 theorem about the solver is about EXACT arithmetic on the cost grid (the model computes in Fin Z | +inf | "
        "-inf | NaN; the grid classes of the check feed dyadic costs on which binary64 is exact). KNOWN FINDING F35 is the float "
        "phenomenon OUTSIDE that grid (inside the property's quantifier): with augmenting_row_reductions >= 1 (default 2) lapjv never "
        "returns on some inputs with finite non-negative costs - in augmenting_row_reduction the update v[j1] = v[j1] - u2 + u1 rounds "
        "back to v[j1] in binary64 although u2 - u1 > eps, the evicted row is re-queued and two rows evict each other forever "
        "(C01_arr_float_stall_refuted: kernel-evaluated binary64 values; C01_arr_update_strict_exact: in the exact model the same update "
        "strictly lowers the price, so the model's termination argument does not transfer). The check runs a class `float-stall` "
        "(non-grid float costs at large magnitudes / mixed column scales, dense and sparse, the witnesses first) fork-isolated with a "
        "4 s limit; a hang is attributed to F35 iff a Python float64 replay of augmenting_row_reduction, operation for operation the "
        ".pyx, run on the arguments the real function receives after the real phases 1-2, reaches a repeating loop state at an "
        "eviction whose price update left v[j1] bit-identical; a hang without such a stall is a VIOLATION; a stall reported on an input "
        "where the implementation returns fails the check. There is NO model correspondence for this class; returned answers are "
        "judged directly (perfect matching over listed pairs, inverse; dense: optimal within n * 2^-26 + 2^-40 * sum(c); sparse: optimality "
        "counted, not judged, because F1 / F6 attribution needs the exact model). Excluded and counted, as for the grid classes: "
        "terminating but astronomically long price wars (every re-queue lowers a price; run time grows linearly with cost range / gap - "
        "candidate C01-T2, reported to the coordinator, not a known finding). "
        "KNOWN FINDING F20 (inside the property's quantifier): memory safety of augment FAILS - `inf = np.sum(c) + 1` "
        "(_lapjv.pyx:296) is not larger than every reduced cost once prices are negative; a rebuild of scan then finds no "
        "column and the code reads p_scan[low] past `up` (SIGSEGV / garbage / hang; witness n = 4 with a unique perfect "
        "matching through three pairs of cost 14 and 0 row-reduction passes, every B >= 14). Attribution: F20 iff the "
        "faithful sentinel model gives no result on the input AND the same model with a true infinity (lapjv_ref) returns; a "
        "crash or wrong answer on an input where the sentinel model does return is a VIOLATION. The check runs this class "
        "(forced expensive pairs, displacement chains, k = 0 emphasised) fork-isolated on every run. In 340 000 such instances "
        "the sentinel failed 1 810 times for the as-is model and never for the row-offset-repaired (Fixed) model (its only "
        "no-results, 186 in the last 300 000, are price wars that the true-infinity variant shares); whether inf = sum(c) + 1 is adequate once F1 "
        "is repaired is neither proved nor refuted. "
        "REFUTED for the model (not the code): arr_passes_total - the model's fuel 4000 + 40 (n^2 + |tri|) for augmenting row "
        "reduction does not scale with the cost range; C01_arr_fuel_not_total is a kernel-evaluated n = 4 integer-cost input with "
        "a perfect matching whose price war takes ~10^4 retries (the real loop is unbounded, returns, and its answer is optimal). "
        "Inputs whose price wars exceed the fuel are therefore outside the model correspondence (the generator excludes and counts "
        "them; the verified checker still covers the code's answer on them only if generated - they are not). The premise (executable: Model.Lapjv.arr_returns_b, extracted entry_arr) is "
        "evaluated on every generated case and cross-checked against the theorems (premise <=> the reference model returns). "
        "For the sentinel variant additionally the adequacy of inf. "
        "Closed in round 14: inputs with single-candidate rows AND k >= 1 passes on which augment runs (loop invariant K over InvE; reserved columns are non-edges for the Dijkstra loop). The evidence carries the end-to-end coverage table (coverage.distribution, keys E2E/...). "
        "optimality for inputs with single-candidate rows AND k >= 1 passes (-inf prices): the price-update core over InvE and the "
        "spec-level reserved-block lemma are proved. Both hypotheses are evaluated on every generated case by the check (the "
        "repaired model returns; rows with >= 2 candidates are theorem-covered, the others checker-only) and both clauses are "
        "covered per instance by the verified checker on every run. ASan stream of 3 000 has_PM instances (2 044 with a "
        "one-candidate row): no crash; heap overflows occur only on inputs WITHOUT a perfect matching (outside the quantifier). Known findings F1 "
        "(reduction_transfer row offset) and F6 (eps tie band) are reported as KNOWN-FINDING and decided by model attribution "
        "(impl == AsIs model and the Fixed model satisfies the property on that input), never muted. Trusted: Coq kernel + "
        "vm_compute; extraction (ExtrOcamlBasic only) and the S-expression driver; the Python harness; exactness of float64 "
        "on the dyadic inputs; NumPy lexsort/bincount/fancy-assignment semantics as modelled. The tie between model and code "
        "is differential, not a proof about Python/Cython."),
    "technique": "Coq proof of checker soundness + line-level executable model with AsIs/Fixed variants, phase invariants through all four phases of the Fixed model + exact differential correspondence",
    "design_ref": "DESIGN.md section 7, C01; section 6 (F1, F6)",
}
