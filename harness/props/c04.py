"""C04 - grey reconstruction equals morphological reconstruction by dilation."""
import json
import os
from collections import deque

import numpy as np

ID = "C04"
PROPS_FILE = "theories/Props/C04.v"
EXTRACT = ("theories/Extract/XC04.v", "c04", ["entry_recon", "entry_check", "entry_iter", "entry_prep_check"])
PYX = {"_cpmorphology2.pyx": ["grey_reconstruction_loop"]}
CASE_TIMEOUT = 30
RULE = ("cases = (seed, mask, footprint) with pixel values given as integer CODES plus an order-preserving "
        "encoding (int64/int32/uint8/float64/float32 value = code, or a strictly increasing table of random reals, "
        "also all-negative) that is applied before calling grey_reconstruction and inverted exactly on its output "
        "(outputs are copies of inputs); shapes 1x1..9x9 (thorough ..30x30, skewed to 1xN, Nx1, 2x2, 3x3); value "
        "classes constant / plateaus (2-5 levels) / wider integers / all-distinct; seeds = mask, mask-d, random below, "
        "single or few markers, far below; footprints None (default), 4-connected, full, random 3x3, 5x5, 3x5, 5x3, "
        "3x7, 7x3, single asymmetric offset, empty; C and Fortran memory order; ~4% malformed (seed>mask, shape "
        "mismatch, even footprint) where model and implementation must reject alike. Non-trivial = the output "
        "differs from the seed somewhere AND from the mask somewhere (propagation and clipping both happened); "
        "distinct by hash of the case")
TRUSTED = [
    "modelled, not verified: NumPy stable lexsort (as sort of (value desc, index asc) pairs), argsort tie order "
    "inside rank_order (immaterial: equal values get equal ranks), np.min/ones/flatten/fancy scatter semantics",
    "the order-preserving integer coding of float data on the Python side (the code only compares and copies values)",
    "the untrusted level certificate is computed by a breadth-first pass in the harness; only its check is verified",
]
ASSUMPTIONS = [
    "2-D images, offset=None (the observed call grey_reconstruction(seed, mask, footprint)); no NaN",
    "2 * padded size < 2^31 (int32 list links) and fewer than 2^32 distinct values (uint32 ranks)",
    "footprint dimensions odd and >= 3 (a dimension of 1 gives padding 0 and slice(0, -0), outside the property)",
]
EXHAUSTIVE = {"quick": False, "thorough": False}


# ---------------------------------------------------------------------------- encoding
def _value(enc, k):
    if enc["kind"] == "tbl":
        return enc["tbl"][k - enc["lo"]]
    return k


def _encode(enc, grid, which):
    a = np.array(grid)
    if a.ndim != 2:
        a = a.reshape(len(grid), -1)
    if enc["kind"] == "tbl":
        t = np.array(enc["tbl"], float)
        r = t[(a - enc["lo"]).astype(int)] if a.size else np.zeros(a.shape)
    else:
        r = a.astype(enc[which])
    if enc.get("order") == "F":
        r = np.asfortranarray(r)
    return r


def _decoder(enc, case):
    codes = set()
    for g in (case["seed"], case["mask"]):
        for row in g:
            codes.update(row)
    return {float(_value(enc, k)): k for k in codes}


def _fp_grid(case):
    return case["fp"] if case["fp"] is not None else [[1, 1, 1], [1, 1, 1], [1, 1, 1]]


# ---------------------------------------------------------------------------- generator
def _shape(rng, big):
    u = rng.rand()
    if u < 0.06:
        return 1, 1
    if u < 0.14:
        return 1, int(rng.randint(2, big + 1))
    if u < 0.22:
        return int(rng.randint(2, big + 1)), 1
    if u < 0.30:
        return 2, 2
    if u < 0.40:
        return 3, 3
    if u < 0.90:
        return int(rng.randint(2, 8)), int(rng.randint(2, 8))
    return int(rng.randint(2, big + 1)), int(rng.randint(2, big + 1))


def _mask_codes(rng, H, W):
    k = rng.choice(["const", "plateau", "plateau", "int", "distinct", "neg", "blocks"])
    if k == "const":
        m = np.full((H, W), int(rng.randint(-3, 6)))
    elif k == "plateau":
        m = rng.randint(0, int(rng.randint(2, 6)), (H, W))
    elif k == "int":
        m = rng.randint(0, 25, (H, W))
    elif k == "distinct":
        m = rng.permutation(H * W).reshape(H, W) + int(rng.randint(0, 3))
    elif k == "neg":
        m = rng.randint(-9, 0, (H, W))
    else:
        m = np.kron(rng.randint(0, 4, ((H + 1) // 2, (W + 1) // 2)), np.ones((2, 2), int))[:H, :W]
    return str(k), m.astype(int)


def _seed_codes(rng, m):
    H, W = m.shape
    k = rng.choice(["eq", "minus", "below", "marker", "markers", "far", "minconst"])
    lo = int(m.min())
    if k == "eq":
        s = m.copy()
    elif k == "minus":
        s = m - int(rng.randint(1, 4)) * (rng.rand(H, W) < 0.8)
    elif k == "below":
        s = m - rng.randint(0, 5, (H, W))
    elif k == "marker":
        s = np.full((H, W), lo - int(rng.randint(0, 2)))
        i, j = int(rng.randint(H)), int(rng.randint(W))
        s[i, j] = m[i, j]
    elif k == "markers":
        s = np.where(rng.rand(H, W) < 0.2, m - rng.randint(0, 2, (H, W)), lo)
    elif k == "far":
        s = np.full((H, W), lo - int(rng.randint(1, 6)))
    else:
        s = np.full((H, W), lo)
    return str(k), np.minimum(s, m).astype(int)


def _footprint(rng):
    k = rng.choice(["def", "def", "4", "full", "r33", "r33", "r55", "r35", "r53", "r37", "r73", "one", "empty", "r77"],
                   p=[.16, .10, .10, .05, .12, .08, .10, .05, .05, .05, .04, .05, .02, .03])
    if k == "def":
        return "def", None
    if k == "4":
        return "4", [[0, 1, 0], [1, 1, 1], [0, 1, 0]]
    if k == "full":
        return "full", [[1, 1, 1], [1, 1, 1], [1, 1, 1]]
    dims = {"r33": (3, 3), "r55": (5, 5), "r35": (3, 5), "r53": (5, 3), "r37": (3, 7), "r73": (7, 3), "r77": (7, 7),
            "one": (3, 3), "empty": (3, 3)}[k]
    if k == "one":
        f = np.zeros(dims, int)
        f[int(rng.randint(3)), int(rng.randint(3))] = 1
    elif k == "empty":
        f = np.zeros(dims, int)
        f[1, 1] = int(rng.randint(2))
    else:
        f = (rng.rand(*dims) < rng.choice([0.25, 0.5, 0.7])).astype(int)
    return str(k), f.tolist()


def _enc(rng, s, m):
    lo, hi = int(min(s.min(), m.min())), int(m.max())
    u = rng.rand()
    if u < 0.45:
        tbl = np.sort(rng.rand(hi - lo + 1) * rng.choice([1.0, 1e-3, 1e6]) - rng.choice([0.0, 0.5, 2e6]))
        tbl = np.unique(tbl)
        if len(tbl) == hi - lo + 1:
            return {"kind": "tbl", "lo": lo, "tbl": [float(x) for x in tbl], "order": "F" if rng.rand() < 0.1 else "C"}
    ints = ["int64", "int32", "float64", "float32", "int16"]
    if lo >= 0 and hi < 256:
        ints.append("uint8")
    return {"kind": "num", "seed": str(rng.choice(ints)), "mask": str(rng.choice(ints)),
            "order": "F" if rng.rand() < 0.1 else "C"}


def _random_case(rng, big):
    H, W = _shape(rng, big)
    mk, m = _mask_codes(rng, H, W)
    sk, s = _seed_codes(rng, m)
    fk, fp = _footprint(rng)
    case = {"seed": s.tolist(), "mask": m.tolist(), "fp": fp, "enc": _enc(rng, s, m), "bad": None,
            "cls": "%s/%s/%s" % (mk, sk, fk)}
    u = rng.rand()
    if u < 0.015:
        i, j = int(rng.randint(H)), int(rng.randint(W))
        case["seed"][i][j] = case["mask"][i][j] + 1
        case["enc"] = {"kind": "num", "seed": "int64", "mask": "int64", "order": "C"}
        case["bad"] = "seed>mask"
    elif u < 0.03:
        case["mask"] = case["mask"] + [case["mask"][-1]]
        case["bad"] = "shape"
    elif u < 0.04:
        case["fp"] = [[1, 1, 1, 1], [1, 1, 1, 1], [1, 1, 1, 1]] if rng.rand() < 0.5 else [[1, 1, 1], [1, 1, 1]]
        case["bad"] = "evenfp"
    return case


def _corpus():
    d = os.path.join(os.path.dirname(os.path.dirname(os.path.dirname(os.path.abspath(__file__)))), "corpus", "C04")
    res = []
    if os.path.isdir(d):
        for n in sorted(os.listdir(d)):
            if n.endswith(".json"):
                with open(os.path.join(d, n)) as f:
                    x = json.load(f)
                res.extend(x if isinstance(x, list) else [x])
    return res


def generate(ctx):
    rng = ctx.rng
    cases = _corpus()
    for c in cases:
        ctx.count("corpus")
    big = ctx.n(9, 30)
    for _ in range(ctx.n(3000, 20000)):
        cases.append(_random_case(rng, big))
    for c in cases:
        ctx.count("shape %s" % ("1x1" if len(c["seed"]) == 1 and len(c["seed"][0]) == 1 else
                                "line" if len(c["seed"]) == 1 or len(c["seed"][0]) == 1 else
                                "<=4" if max(len(c["seed"]), len(c["seed"][0])) <= 4 else
                                "<=9" if max(len(c["seed"]), len(c["seed"][0])) <= 9 else ">9"))
        ctx.count("fp " + c.get("cls", "corpus//").split("/")[2])
        ctx.count("enc " + c["enc"]["kind"])
        if c.get("bad"):
            ctx.count("malformed " + c["bad"])
    return cases


# ---------------------------------------------------------------------------- implementation side
_HANGS = [0]


def impl(case):
    """Runs the real call in a forked child: a broken list (cycle) makes the C loop spin forever without ever
    returning to the interpreter, and an out-of-range link can kill the process.  Both are outcomes of the case,
    reported as {"crash": ...}.  The first hang is given 20 s; once one has been seen the limit drops (the run is
    failing anyway and hundreds of hanging cases must not take hours)."""
    import select
    import signal
    import time
    from centrosome import cpmorphology as _M     # noqa: import in the parent so that children do not re-import
    r, w = os.pipe()
    pid = os.fork()
    if pid == 0:
        try:
            os.close(r)
            signal.alarm(0)
            try:
                o = _impl(case)
            except BaseException as e:      # noqa
                o = {"exc": type(e).__name__, "msg": str(e)[:300]}
            data = json.dumps(o).encode()
            while data:
                n = os.write(w, data)
                data = data[n:]
        finally:
            os._exit(0)
    os.close(w)
    limit = 20.0 if _HANGS[0] == 0 else (2.0 if _HANGS[0] < 5 else 0.5)
    t_end = time.time() + limit
    buf = b""
    hung = False
    while True:
        left = t_end - time.time()
        if left <= 0:
            hung = True
            break
        ready, _, _ = select.select([r], [], [], left)
        if ready:
            chunk = os.read(r, 1 << 16)
            if not chunk:
                break
            buf += chunk
    os.close(r)
    if hung:
        os.kill(pid, signal.SIGKILL)
    _, status = os.waitpid(pid, 0)
    if hung:
        _HANGS[0] += 1
        return {"crash": "hang", "detail": "grey_reconstruction did not return within %.1f s" % limit}
    if not buf:
        return {"crash": "child died", "detail": "wait status %d" % status}
    return json.loads(buf.decode())


def _impl(case):
    from centrosome import cpmorphology as M
    enc = case["enc"]
    img = _encode(enc, case["seed"], "seed")
    msk = _encode(enc, case["mask"], "mask")
    fp = None if case["fp"] is None else np.array(case["fp"], bool)
    fp0 = None if fp is None else fp.copy()
    r = M.grey_reconstruction(img, msk, fp)
    dec = _decoder(enc, case)
    r = np.asarray(r)
    out = {"shape": list(r.shape), "fp_mutated": bool(fp is not None and not np.array_equal(fp, fp0))}
    try:
        out["R"] = [[dec[float(v)] for v in row] for row in r.tolist()]
    except KeyError as e:
        out["not_a_copy"] = repr(e)
        return out
    try:
        r2 = np.asarray(M.grey_reconstruction(r, msk, fp))
        out["again_same"] = bool(r2.shape == r.shape and np.array_equal(r2, r))
    except Exception as e:      # noqa: the first output is still reported and checked
        out["again_same"] = False
        out["again_exc"] = type(e).__name__
    return out


def _bad(o):
    return (not isinstance(o, dict)) or "exc" in o or "crash" in o or "R" not in o


def model(ctx, cases, outs):
    args = [[c["seed"], c["mask"], _fp_grid(c)] for c in cases]
    res = ctx.run_model("entry_recon", args)
    # premise of C04_model_safe_partial, discharged per instance: the set-up state satisfies Inv
    inv = ctx.run_model("entry_prep_check", args)
    return [{"m": r, "inv": i} for r, i in zip(res, inv)]


def compare(case, out, m):
    inv, m = m["inv"], m["m"]
    if isinstance(m, dict) or isinstance(inv, dict):
        return "model error: %s %s" % (m, inv)
    if not case.get("bad") and inv != 1:
        return "Spec.ReconInv.prep_check is false on the set-up state of a valid input (premise of C04_model_safe_partial)"
    if case.get("bad"):
        rej_i = isinstance(out, dict) and out.get("exc") in ("AssertionError", "ValueError")
        rej_m = (m == [3])
        if rej_i != rej_m:
            return "malformed input (%s): implementation %s, model %s" % (case["bad"], str(out)[:120], m)
        return None
    if m in ([1], [2], [3]):
        return "model result code %s (1 = out-of-bounds access, 2 = out of fuel, 3 = rejected) on a valid input" % m
    if _bad(out):
        return "implementation raised/crashed: %s" % (str(out)[:300],)
    if m[0] != out["R"]:
        return "output differs from the line-level model: impl %s model %s" % (str(out["R"])[:200], str(m[0])[:200])
    if m[1] != 0:
        return "model executed the relink with next[link] < 0 (%d dropped nodes)" % m[1]
    return None


def _offsets(fpg):
    fh, fw = len(fpg), len(fpg[0])
    return [(a - fh // 2, b - fw // 2) for a in range(fh) for b in range(fw)
            if fpg[a][b] and (a, b) != (fh // 2, fw // 2)]


def _levels(case, R):
    """untrusted certificate: breadth-first levels from the pixels that kept their seed value"""
    H, W = len(R), len(R[0])
    seed = case["seed"]
    offs = _offsets(_fp_grid(case))
    lvl = [[-1] * W for _ in range(H)]
    q = deque()
    for i in range(H):
        for j in range(W):
            if R[i][j] == seed[i][j]:
                lvl[i][j] = 0
                q.append((i, j))
    while q:
        i, j = q.popleft()
        for a, b in offs:
            y, x = i + a, j + b
            if 0 <= y < H and 0 <= x < W and lvl[y][x] < 0 and R[y][x] <= R[i][j]:
                lvl[y][x] = lvl[i][j] + 1
                q.append((y, x))
    return lvl


def check(ctx, cases, outs):
    res = [None] * len(cases)
    idx = []
    for k, (c, o) in enumerate(zip(cases, outs)):
        if c.get("bad"):
            continue
        if _bad(o):
            res[k] = "implementation raised/crashed/returned a value that is no input value on a valid input: %s" % (
                str(o)[:300],)
            continue
        if o["shape"] != [len(c["seed"]), len(c["seed"][0])]:
            res[k] = "output shape %s differs from the input shape" % (o["shape"],)
            continue
        idx.append(k)
    args = [[cases[k]["seed"], cases[k]["mask"], _fp_grid(cases[k]), outs[k]["R"], _levels(cases[k], outs[k]["R"])]
            for k in idx]
    for k, r in zip(idx, ctx.run_model("entry_check", args)):
        if r != 1:
            res[k] = ("output is not the reconstruction by dilation (Spec.ReconSpec.recon_check rejects it: not between "
                      "seed and mask, raisable by a dilate-and-clip step, or not least)")
    iargs = [[cases[k]["seed"], cases[k]["mask"], _fp_grid(cases[k]), len(cases[k]["seed"]) * len(cases[k]["seed"][0]) + 2]
             for k in idx]
    for k, r in zip(idx, ctx.run_model("entry_iter", iargs)):
        if res[k]:
            continue
        if r == []:
            ctx.count("iter_out_of_fuel")
        elif r[0] != outs[k]["R"]:
            res[k] = "output differs from iterated dilate-and-clip (Spec.ReconSpec.recon_iter): %s vs %s" % (
                str(outs[k]["R"])[:150], str(r[0])[:150])
        elif not outs[k]["again_same"]:
            res[k] = "applying grey_reconstruction to its own output changed it"
    return res


def nontrivial(case, out):
    if case.get("bad") or _bad(out):
        return False
    return out["R"] != case["seed"] and out["R"] != case["mask"]


def kernel_crosscheck(ctx, cases, outs):
    idx = [k for k, c in enumerate(cases) if not c.get("bad") and not _bad(outs[k])
           and len(c["seed"]) * len(c["seed"][0]) <= 16 and len(_fp_grid(c)) * len(_fp_grid(c)[0]) <= 15
           and nontrivial(c, outs[k])][:40]
    idx += [k for k, c in enumerate(cases) if c.get("bad")][:4]
    args = [[cases[k]["seed"], cases[k]["mask"], _fp_grid(cases[k])] for k in idx]
    exp = [[3] if cases[k].get("bad") else [outs[k]["R"], 0] for k in idx]
    r = ctx.coq_eval_eq("Model.Recon", "entry_recon", args, exp, tag="recon")
    bad = [k for k, b in zip(idx, r) if b is not True]
    if bad:
        return "vm_compute evaluation of Model.Recon.entry_recon differs from the implementation on case %d" % bad[0], len(idx)
    # the extracted checker against the kernel, on accepted outputs and on perturbed ones (by uniqueness of the
    # reconstruction every perturbed output must be rejected, whatever certificate accompanies it)
    cargs, cexp = [], []
    for n, k in enumerate([k for k in idx if not cases[k].get("bad")][:24]):
        c, R = cases[k], outs[k]["R"]
        cargs.append([c["seed"], c["mask"], _fp_grid(c), R, _levels(c, R)]); cexp.append(1)
        i, j = n % len(R), (n // 2) % len(R[0])
        R2 = [list(row) for row in R]
        R2[i][j] += 1 if n % 2 else -1
        cargs.append([c["seed"], c["mask"], _fp_grid(c), R2, _levels(c, R2)]); cexp.append(0)
    ext = ctx.run_model("entry_check", cargs)
    if ext != cexp:
        return "extracted recon_check accepts a perturbed output or rejects a correct one (harness self-test)", len(idx)
    r2 = ctx.coq_eval_eq("Spec.ReconSpec", "entry_check", cargs, cexp, tag="chk")
    if not all(b is True for b in r2):
        return "vm_compute evaluation of Spec.ReconSpec.entry_check differs from the extracted checker", len(idx)
    return None, len(idx) + len(cargs)


def search_cases(ctx, rnd):
    rng = ctx.rng
    cases = []
    for _ in range(1500):
        c = _random_case(rng, 12)
        if not c.get("bad"):
            cases.append(c)
    return cases


def _mk(case, seed, mask, fp="same"):
    c = dict(case)
    s = np.array(seed, int)
    m = np.array(mask, int)
    c["seed"], c["mask"] = s.tolist(), m.tolist()
    if fp != "same":
        c["fp"] = fp
    if c["enc"]["kind"] == "tbl":
        lo = int(min(s.min(), m.min()))
        if lo < c["enc"]["lo"] or int(m.max()) - c["enc"]["lo"] >= len(c["enc"]["tbl"]):
            c["enc"] = {"kind": "num", "seed": "float64", "mask": "float64", "order": "C"}
    elif c["enc"].get("seed") == "uint8" or c["enc"].get("mask") == "uint8":
        c["enc"] = {"kind": "num", "seed": "int64", "mask": "int64", "order": "C"}
    return c


def shrink_candidates(case):
    if case.get("bad"):
        return
    s = np.array(case["seed"], int)
    m = np.array(case["mask"], int)
    H, W = s.shape
    for i in range(H):
        if H > 1:
            yield _mk(case, np.delete(s, i, 0), np.delete(m, i, 0))
    for j in range(W):
        if W > 1:
            yield _mk(case, np.delete(s, j, 1), np.delete(m, j, 1))
    if case["fp"] is not None:
        f = np.array(case["fp"], int)
        for a, b in np.argwhere(f):
            g = f.copy(); g[a, b] = 0
            yield _mk(case, s, m, g.tolist())
        if f.shape[0] > 3 and not f[0].any() and not f[-1].any():
            yield _mk(case, s, m, f[1:-1].tolist())
        if f.shape[1] > 3 and not f[:, 0].any() and not f[:, -1].any():
            yield _mk(case, s, m, f[:, 1:-1].tolist())
    lo = int(s.min())
    for i, j in np.argwhere(s > lo)[:12]:
        t = s.copy(); t[i, j] = lo
        yield _mk(case, t, m)
    for i, j in np.argwhere(m > s)[:12]:
        t = m.copy(); t[i, j] = s[i, j]
        yield _mk(case, s, t)
    if case["enc"]["kind"] != "num" or case["enc"].get("seed") != "int64":
        c = dict(case); c["enc"] = {"kind": "num", "seed": "int64", "mask": "int64", "order": "C"}
        yield c


MANIFEST = {
    "level_text": (
        "Machine-checked proof (Coq 8.16): the declarative specification of reconstruction by dilation (least image "
        "between seed and mask that the dilate-and-clip step leaves unchanged, for any footprint incl. asymmetric) with "
        "uniqueness, idempotence and the equivalence closed = step-fixed; soundness of the extracted certificate checker "
        "recon_check and of the executable iterate-until-stable definition, both of which are evaluated on the "
        "implementation's own output for every generated case; and a line-level executable Gallina model of "
        "grey_reconstruction (padding, strides, lexsort, linked list, rank_order) and of grey_reconstruction_loop "
        "(exact unlink/relink, checked array accesses) tied to the code by exact equality of complete outputs; for that "
        "loop model, index safety and 'link has a successor' (no array access outside [0,2S), no node ever dropped) "
        "are proved for every state satisfying a verified, per-instance-checked invariant."),
    "level_note": (
        "Trusted: Coq kernel + vm_compute; extraction (ExtrOcamlBasic only) and the S-expression driver; the Python "
        "harness incl. the order-preserving integer coding of float inputs; NumPy sort semantics as modelled. The tie "
        "between model and code is differential, not a proof about Python/C. That the loop computes the reconstruction "
        "for every input is established per instance by the verified checker, not by a general loop proof."),
    "technique": "Coq proof over spec + verified certificate checker on implementation output + exact differential "
                 "correspondence with a line-level executable model (extracted OCaml and vm_compute)",
    "design_ref": "DESIGN.md section 7, C04",
}
