"""C04 - grey reconstruction equals morphological reconstruction by dilation."""
import json
import os
from collections import deque

import numpy as np

ID = "C04"
PROPS_FILE = "theories/Props/C04.v"
EXTRACT = ("theories/Extract/XC04.v", "c04", ["entry_recon", "entry_check", "entry_iter", "entry_prep_check", "entry_ord_check"])
PYX = {"_cpmorphology2.pyx": ["grey_reconstruction_loop"]}
CASE_TIMEOUT = 30
RULE = ("cases = (seed, mask, footprint, offset) with pixel values given as integer CODES plus a strictly increasing "
        "value table and one dtype each for seed and mask: the table is applied before calling grey_reconstruction "
        "and inverted exactly on its float64 output (outputs are copies of inputs). Tables: identity, dtype "
        "extremes (min, min+1, .., max-1, max of bool/int8..int64/uint8..uint64 with spans above half the range; "
        "float64-injective for the 64-bit types), random reals (float64, float32-exact, tiny/huge magnitudes, with "
        "-inf/+inf ends, -0.0 for 0.0); seed and mask dtypes drawn independently among all dtypes that hold their "
        "values; layouts C/Fortran/strided/reversed/read-only views for seed, mask and footprint; offset None, the "
        "centre given as array/list/tuple, and non-central origins incl. even-sized footprints whenever every "
        "footprint offset stays within the padding shape//2; shapes 1x1..9x9 (thorough ..30x30, skewed to 1xN, Nx1, "
        "2x2, 3x3); value classes constant/plateaus/wider integers/all-distinct; seeds = mask, mask-d, random below, "
        "markers, far below; footprints None, 4-connected, full, random 3x3..9x9, 3x7, 7x3 (larger than the image), "
        "single asymmetric offset, empty; each case is called three times in a long-lived child process that serves "
        "many cases (result, result re-applied, same inputs again); ~4% malformed (seed>mask, shape mismatch, even "
        "footprint without offset). Non-trivial = output differs from the seed somewhere AND from the mask somewhere; "
        "distinct by hash of the case")
TRUSTED = [
    "modelled, not verified: NumPy stable lexsort (as sort of (value desc, index asc) pairs), argsort tie order "
    "inside rank_order (immaterial: equal values get equal ranks), np.min/ones/flatten/fancy scatter semantics, the "
    "conversion of every input dtype to float64 (generator keeps it injective and counts exclusions)",
    "the order-preserving integer coding of the data on the Python side (the code only compares and copies values)",
    "the untrusted level certificate is computed by a breadth-first pass in the harness; only its check is verified",
]
ASSUMPTIONS = [
    "2-D images (1-D and 3-D inputs run through the same flat loop but are not modelled); no NaN; footprints of any dtype or nested lists (non-zero = member, "
    "as np.array(footprint, dtype=bool) since fix F18)",
    "2 * padded size < 2^31 (int32 list links) and fewer than 2^32 distinct values (uint32 ranks)",
    "footprint dimensions >= 2 and every footprint offset within the padding shape//2 (always true for odd "
    "dimensions >= 3 with offset=None); a dimension of 1 gives padding 0 and slice(0, -0)",
]
EXHAUSTIVE = {"quick": False, "thorough": False}

INT_DT = ["int8", "int16", "int32", "int64", "uint8", "uint16", "uint32", "uint64"]
ALL_DT = ["bool"] + INT_DT + ["float32", "float64"]


# ---------------------------------------------------------------------------- encoding
def _fits(vals, dt):
    """every value of the list is exactly representable in dtype dt"""
    if dt == "bool":
        return all(isinstance(v, int) and v in (0, 1) for v in vals)
    if dt in INT_DT:
        ii = np.iinfo(dt)
        return all(isinstance(v, int) and ii.min <= v <= ii.max for v in vals)
    f = np.float32 if dt == "float32" else np.float64
    for v in vals:
        try:
            with np.errstate(all="ignore"):
                x = float(f(v))
        except OverflowError:
            return False
        if isinstance(v, int):
            if x in (float("inf"), float("-inf")) or int(x) != v:
                return False
        elif x != v:
            return False
    return True


def _injective64(tbl):
    """the float64 images of the table are strictly increasing (values[...] = image casts to float64)"""
    f = [float(v) for v in tbl]
    return all(a < b for a, b in zip(f[:-1], f[1:]))


def _value(enc, k):
    return enc["tbl"][k - enc["lo"]]


def _layout(a, kind):
    if kind == "F":
        return np.asfortranarray(a)
    if kind == "strided":
        big = np.zeros((a.shape[0] * 2 + 1, a.shape[1] * 3 + 2), a.dtype)
        big[1::2, 2::3][:a.shape[0], :a.shape[1]] = a
        return big[1::2, 2::3][:a.shape[0], :a.shape[1]]
    if kind == "rev":
        return np.ascontiguousarray(a[::-1, ::-1])[::-1, ::-1]
    if kind == "ro":
        b = a.copy()
        b.flags.writeable = False
        return b
    return np.ascontiguousarray(a)


def _encode(enc, grid, dt, lay, negzero=False):
    vals = [[_value(enc, k) for k in row] for row in grid]
    if len(vals) and len(set(map(len, vals))) != 1:
        raise ValueError("ragged")
    a = np.array(vals, dtype=dt).reshape(len(vals), -1)
    if negzero and a.dtype.kind == "f":
        ii, jj = np.nonzero(a == 0)
        for i, j in zip(ii, jj):
            if (i + j) % 2 == 0:
                a[i, j] = -0.0
    return _layout(a, lay)


def _decoder(enc, case):
    codes = set()
    for g in (case["seed"], case["mask"]):
        for row in g:
            codes.update(row)
    return {float(_value(enc, k)): k for k in codes}


def _fp_grid(case):
    return case["fp"] if case["fp"] is not None else [[1, 1, 1], [1, 1, 1], [1, 1, 1]]


def _fp_values(case):
    """the footprint as the caller passes it: 0 where case["fp"] is 0, the k-th truthy value of fpenc elsewhere"""
    fe = case.get("fpenc") or {"dt": "bool", "vals": [1]}
    k = 0
    g = []
    for row in case["fp"]:
        r = []
        for x in row:
            if x:
                r.append(fe["vals"][k % len(fe["vals"])]); k += 1
            else:
                r.append(0)
        g.append(r)
    return g, fe["dt"]


def _fp_wire(case):
    """what the model receives: the integer values themselves for integer footprints (the model's wrapper line
    footprint = np.array(footprint, dtype=bool) is as_boolss: non-zero = True), 0/1 otherwise"""
    if case["fp"] is None:
        return _fp_grid(case)
    g, dt = _fp_values(case)
    if all(isinstance(x, int) and not isinstance(x, bool) for row in g for x in row):
        return g
    return case["fp"]


def _off_arg(case):
    o = case.get("offset")
    return [] if not o else list(o["o"])


def _origin(case):
    g = _fp_grid(case)
    o = case.get("offset")
    return tuple(o["o"]) if o else (len(g) // 2, len(g[0]) // 2)


# ---------------------------------------------------------------------------- generator
def _shape(rng, big):
    u = rng.rand()
    if u < 0.06:
        return 1, 1
    if u < 0.14:
        return 1, int(rng.randint(2, big + 1))
    if u < 0.22:
        return int(rng.randint(2, big + 1)), 1
    if u < 0.30:
        return 2, 2
    if u < 0.40:
        return 3, 3
    if u < 0.90:
        return int(rng.randint(2, 8)), int(rng.randint(2, 8))
    return int(rng.randint(2, big + 1)), int(rng.randint(2, big + 1))


def _mask_codes(rng, H, W):
    k = rng.choice(["const", "plateau", "plateau", "int", "distinct", "neg", "blocks", "two"])
    if k == "const":
        m = np.full((H, W), int(rng.randint(-3, 6)))
    elif k == "plateau":
        m = rng.randint(0, int(rng.randint(2, 6)), (H, W))
    elif k == "int":
        m = rng.randint(0, 25, (H, W))
    elif k == "distinct":
        m = rng.permutation(H * W).reshape(H, W) + int(rng.randint(0, 3))
    elif k == "neg":
        m = rng.randint(-9, 0, (H, W))
    elif k == "two":
        m = rng.randint(0, 2, (H, W))
    else:
        m = np.kron(rng.randint(0, 4, ((H + 1) // 2, (W + 1) // 2)), np.ones((2, 2), int))[:H, :W]
    return str(k), m.astype(int)


def _seed_codes(rng, m):
    H, W = m.shape
    k = rng.choice(["eq", "minus", "below", "marker", "markers", "far", "minconst"])
    lo = int(m.min())
    if k == "eq":
        s = m.copy()
    elif k == "minus":
        s = m - int(rng.randint(1, 4)) * (rng.rand(H, W) < 0.8)
    elif k == "below":
        s = m - rng.randint(0, 5, (H, W))
    elif k == "marker":
        s = np.full((H, W), lo - int(rng.randint(0, 2)))
        i, j = int(rng.randint(H)), int(rng.randint(W))
        s[i, j] = m[i, j]
    elif k == "markers":
        s = np.where(rng.rand(H, W) < 0.2, m - rng.randint(0, 2, (H, W)), lo)
    elif k == "far":
        s = np.full((H, W), lo - int(rng.randint(1, 6)))
    else:
        s = np.full((H, W), lo)
    return str(k), np.minimum(s, m).astype(int)


def _safe_origin(f, o0, o1):
    fh, fw = f.shape
    for a, b in np.argwhere(f):
        if (a, b) != (o0, o1) and (abs(a - o0) > fh // 2 or abs(b - o1) > fw // 2):
            return False
    return True


def _footprint(rng):
    """returns (class, grid or None, offset or None)"""
    k = rng.choice(["def", "4", "full", "r33", "r55", "r35", "r53", "r37", "r73", "one", "empty", "r77", "r99",
                    "even", "ctr", "shift"],
                   p=[.20, .08, .04, .14, .09, .04, .04, .04, .04, .05, .02, .03, .02, .07, .06, .04])
    if k == "def":
        return "def", None, None
    if k == "4":
        return "4", [[0, 1, 0], [1, 1, 1], [0, 1, 0]], None
    if k == "full":
        return "full", [[1, 1, 1], [1, 1, 1], [1, 1, 1]], None
    dims = {"r33": (3, 3), "r55": (5, 5), "r35": (3, 5), "r53": (5, 3), "r37": (3, 7), "r73": (7, 3), "r77": (7, 7),
            "r99": (9, 9), "one": (3, 3), "empty": (3, 3)}.get(k)
    if k == "one":
        f = np.zeros(dims, int)
        f[int(rng.randint(3)), int(rng.randint(3))] = 1
        return k, f.tolist(), None
    if k == "empty":
        f = np.zeros(dims, int)
        f[1, 1] = int(rng.randint(2))
        return k, f.tolist(), None
    how = str(rng.choice(["array", "list", "tuple"]))
    if k == "ctr":       # the default origin, passed explicitly
        dims = [(3, 3), (5, 5), (3, 5), (5, 3), (3, 7)][int(rng.randint(5))]
        f = (rng.rand(*dims) < 0.5).astype(int)
        return k, f.tolist(), {"o": [dims[0] // 2, dims[1] // 2], "as": how}
    if k in ("even", "shift"):
        for _ in range(20):
            if k == "even":
                dims = [(2, 2), (2, 3), (3, 2), (4, 4), (4, 3), (2, 5), (4, 2), (6, 4)][int(rng.randint(8))]
            else:
                dims = [(3, 3), (5, 5), (3, 5), (5, 3), (7, 3)][int(rng.randint(5))]
            f = (rng.rand(*dims) < rng.choice([0.3, 0.6, 1.0])).astype(int)
            o0, o1 = int(rng.randint(dims[0])), int(rng.randint(dims[1]))
            if _safe_origin(f, o0, o1):
                return k, f.tolist(), {"o": [o0, o1], "as": how}
        return "def", None, None
    f = (rng.rand(*dims) < rng.choice([0.25, 0.5, 0.7])).astype(int)
    return str(k), f.tolist(), None


def _ext_table(rng, dt, n):
    """n strictly increasing values of dtype dt that include its extremes"""
    if dt == "bool":
        return [0, 1][:n] if n <= 2 else None
    ii = np.iinfo(dt)
    mn, mx = int(ii.min), int(ii.max)
    if mx - mn + 1 < n:
        return None
    pool = {mn, mx}
    for v in (mn + 1, mx - 1, 0, 1, -1, mn // 2, mx // 2, mx // 2 + 1, mn + 2, mx - 2):
        if mn <= v <= mx:
            pool.add(v)
    if dt in ("int64", "uint64"):
        # keep the float64 images distinct: extremes plus multiples of 2^12 away from them
        pool = {mn, mx}
        if mn <= 0:
            pool.add(0)
        while len(pool) < n + 4:
            v = int(rng.randint(-2 ** 50, 2 ** 50)) * 4096
            if mn + 2 ** 13 <= v <= mx - 2 ** 13:
                pool.add(v)
    pool = sorted(pool)
    if len(pool) > n:
        keep = {pool[0], pool[-1]}
        rest = [v for v in pool if v not in keep]
        rng.shuffle(rest)
        pool = sorted(list(keep) + rest[:max(0, n - 2)]) if n >= 2 else [pool[int(rng.randint(len(pool)))]]
    while len(pool) < n:
        span = mx - mn
        v = mn + int(rng.randint(0, 2 ** 31)) * (span // 2 ** 31 + 1) % (span + 1)
        if dt in ("int64", "uint64"):
            v = (v // 4096) * 4096
            if not (mn + 2 ** 13 <= v <= mx - 2 ** 13):
                continue
        if v not in pool:
            pool = sorted(pool + [v])
    return pool


def _real_table(rng, n):
    k = str(rng.choice(["unit", "neg", "small", "huge", "f32", "inf", "mixed"]))
    if k == "unit":
        t = rng.rand(n)
    elif k == "neg":
        t = rng.rand(n) - 2.0
    elif k == "small":
        t = rng.rand(n) * 1e-300
    elif k == "huge":
        t = (rng.rand(n) - 0.5) * 1e300
    elif k == "f32":
        t = (rng.rand(n).astype(np.float32) * np.float32(rng.choice([1.0, 1e-30, 1e30]))).astype(float)
    else:
        t = np.round((rng.rand(n) - 0.5) * 8, int(rng.randint(0, 3)))
    t = sorted(set(float(x) for x in t))
    if len(t) != n:
        return k, None
    if k in ("inf", "mixed") and n >= 2:
        if rng.rand() < 0.7:
            t[0] = float("-inf")
        if rng.rand() < 0.7:
            t[-1] = float("inf")
    return k, t


def _enc(rng, s, m, count):
    lo, hi = int(min(s.min(), m.min())), int(m.max())
    n = hi - lo + 1
    svals = lambda tbl: sorted(set(tbl[k - lo] for k in s.ravel().tolist()))
    mvals = lambda tbl: sorted(set(tbl[k - lo] for k in m.ravel().tolist()))
    tbl, tk = None, None
    u = rng.rand()
    if u < 0.35:
        dt = str(rng.choice(["bool"] + INT_DT))
        tbl = _ext_table(rng, dt, n)
        tk = "ext-" + dt
    elif u < 0.65:
        rk, tbl = _real_table(rng, n)
        tk = "real-" + rk
    if tbl is not None and not _injective64(tbl):
        count("excluded: table not injective in float64")
        tbl = None
    if tbl is None:
        tbl, tk = list(range(lo, hi + 1)), "ident"
    sd = [d for d in ALL_DT if _fits(svals(tbl), d)]
    md = [d for d in ALL_DT if _fits(mvals(tbl), d)]
    pick = lambda ds: str(ds[int(rng.randint(len(ds)))]) if rng.rand() < 0.7 else str(ds[0])   # ds[0] = narrowest
    lay = ["C", "C", "C", "F", "strided", "rev", "ro"]
    return tk, {"lo": lo, "tbl": tbl, "sd": pick(sd), "md": pick(md), "negzero": bool(rng.rand() < 0.3)}, \
        {"seed": str(rng.choice(lay)), "mask": str(rng.choice(lay)), "fp": str(rng.choice(["C", "C", "F", "strided"]))}


def _random_case(rng, big, count=lambda k: None):
    H, W = _shape(rng, big)
    mk, m = _mask_codes(rng, H, W)
    sk, s = _seed_codes(rng, m)
    fk, fp, off = _footprint(rng)
    tk, enc, lay = _enc(rng, s, m, count)
    fpenc = None
    if fp is not None and rng.rand() < 0.45:
        dt = str(rng.choice(["uint8", "int8", "int32", "int64", "uint64", "float64", "float32", "list"]))
        vals = {"uint8": [1, 2, 255, 128], "int8": [1, -1, 127, -128], "int32": [1, 7, -3], "int64": [1, 2 ** 40, -1],
                "uint64": [1, 2 ** 63], "float64": [1.0, 0.5, -2.0, float("inf"), 1e-300], "float32": [1.0, 0.25, -1.0],
                "list": [1, 3, True]}[dt]
        fpenc = {"dt": dt, "vals": vals if rng.rand() < 0.6 else vals[:1]}
    case = {"seed": s.tolist(), "mask": m.tolist(), "fp": fp, "fpenc": fpenc, "offset": off, "enc": enc, "lay": lay, "bad": None,
            "cls": "%s/%s/%s/%s" % (mk, sk, fk, tk)}
    u = rng.rand()
    if u < 0.015:
        i, j = int(rng.randint(H)), int(rng.randint(W))
        lo = min(min(map(min, case["seed"])), min(map(min, case["mask"])))
        hi = max(map(max, case["mask"])) + 1
        case["seed"][i][j] = case["mask"][i][j] + 1
        case["enc"] = {"lo": lo, "tbl": list(range(lo, hi + 1)), "sd": "int64", "md": "int64", "negzero": False}
        case["bad"] = "seed>mask"
    elif u < 0.03:
        case["mask"] = case["mask"] + [case["mask"][-1]]
        case["bad"] = "shape"
    elif u < 0.04:
        case["fp"] = [[1, 1, 1, 1], [1, 1, 1, 1], [1, 1, 1, 1]] if rng.rand() < 0.5 else [[1, 1, 1], [1, 1, 1]]
        case["offset"] = None
        case["bad"] = "evenfp"
    return case


def _corpus():
    d = os.path.join(os.path.dirname(os.path.dirname(os.path.dirname(os.path.abspath(__file__)))), "corpus", "C04")
    res = []
    if os.path.isdir(d):
        for n in sorted(os.listdir(d)):
            if n.endswith(".json"):
                with open(os.path.join(d, n)) as f:
                    x = json.load(f)
                res.extend(x if isinstance(x, list) else [x])
    return res


def generate(ctx):
    rng = ctx.rng
    cases = _corpus()
    for c in cases:
        ctx.count("corpus")
    big = ctx.n(9, 30)
    for _ in range(ctx.n(3000, 20000)):
        cases.append(_random_case(rng, big, ctx.count))
    for c in cases:
        hw = max(len(c["seed"]), len(c["seed"][0]))
        ctx.count("shape %s" % ("1x1" if hw == 1 else "line" if min(len(c["seed"]), len(c["seed"][0])) == 1 else
                                "<=4" if hw <= 4 else "<=9" if hw <= 9 else ">9"))
        parts = (c.get("cls", "corpus") + "///").split("/")
        ctx.count("fp " + parts[2])
        ctx.count("table " + parts[3])
        ctx.count("dtype seed " + c["enc"]["sd"])
        ctx.count("dtype mask " + c["enc"]["md"])
        ctx.count("layout " + c["lay"]["seed"])
        ctx.count("offset " + ("None" if not c.get("offset") else c["offset"]["as"]))
        ctx.count("footprint dtype " + ("None" if c["fp"] is None else (c.get("fpenc") or {"dt": "bool"})["dt"]))
        if c.get("bad"):
            ctx.count("malformed " + c["bad"])
    return cases


# ---------------------------------------------------------------------------- implementation side
class _Server:
    """A long-lived forked child that serves cases one after the other (several calls in one process), watched by
    the parent: a broken list (cycle) makes the C loop spin forever without returning to the interpreter and an
    out-of-range link can kill the process.  Both are outcomes of the case ({"crash": ...}); the child is then
    replaced.  The first hang is given 20 s; once one has been seen the limit drops (the run is failing anyway)."""
    pid = None
    to_child = None
    from_child = None
    served = 0
    hangs = 0
    buf = b""


def _start_server():
    import signal
    from centrosome import cpmorphology as _M     # noqa: import in the parent so that children do not re-import
    c2p_r, c2p_w = os.pipe()
    p2c_r, p2c_w = os.pipe()
    pid = os.fork()
    if pid == 0:
        try:
            os.close(c2p_r); os.close(p2c_w)
            signal.alarm(0)
            inp = os.fdopen(p2c_r, "rb")
            for line in inp:
                case = json.loads(line.decode())
                try:
                    o = _impl(case)
                except BaseException as e:      # noqa
                    o = {"exc": type(e).__name__, "msg": str(e)[:300]}
                data = json.dumps(o).encode() + b"\n"
                while data:
                    n = os.write(c2p_w, data)
                    data = data[n:]
        finally:
            os._exit(0)
    os.close(c2p_w); os.close(p2c_r)
    _Server.pid, _Server.to_child, _Server.from_child, _Server.served, _Server.buf = pid, p2c_w, c2p_r, 0, b""


def _stop_server(kill=False):
    import signal
    if _Server.pid is None:
        return None
    for fd in (_Server.to_child, _Server.from_child):
        try:
            os.close(fd)
        except OSError:
            pass
    if kill:
        try:
            os.kill(_Server.pid, signal.SIGKILL)
        except OSError:
            pass
    _, status = os.waitpid(_Server.pid, 0)
    _Server.pid = None
    return status


def impl(case):
    import select
    import time
    if _Server.pid is not None and _Server.served >= 200:
        _stop_server()
    if _Server.pid is None:
        _start_server()
    data = json.dumps(case).encode() + b"\n"
    try:
        while data:
            n = os.write(_Server.to_child, data)
            data = data[n:]
    except OSError:
        st = _stop_server(kill=True)
        return {"crash": "child died", "detail": "before this case was sent, wait status %s" % st}
    limit = 20.0 if _Server.hangs == 0 else (2.0 if _Server.hangs < 5 else 0.5)
    t_end = time.time() + limit
    while b"\n" not in _Server.buf:
        left = t_end - time.time()
        if left <= 0:
            _stop_server(kill=True)
            _Server.hangs += 1
            return {"crash": "hang", "detail": "grey_reconstruction did not return within %.1f s" % limit}
        ready, _, _ = select.select([_Server.from_child], [], [], left)
        if ready:
            chunk = os.read(_Server.from_child, 1 << 16)
            if not chunk:
                st = _stop_server()
                return {"crash": "child died", "detail": "wait status %s" % st}
            _Server.buf += chunk
    line, _Server.buf = _Server.buf.split(b"\n", 1)
    _Server.served += 1
    return json.loads(line.decode())


def _same(a, b):
    return bool(a.shape == b.shape and a.dtype == b.dtype and np.array_equal(a, b))


def _impl(case):
    from centrosome import cpmorphology as M
    enc, lay = case["enc"], case["lay"]
    img = _encode(enc, case["seed"], enc["sd"], lay["seed"], enc.get("negzero"))
    msk = _encode(enc, case["mask"], enc["md"], lay["mask"], enc.get("negzero"))
    if case["fp"] is None:
        fp = None
    else:
        g, dt = _fp_values(case)
        fp = [list(r) for r in g] if dt == "list" else _layout(np.array(g, dtype=dt), lay["fp"])
    kw = {}
    if case.get("offset"):
        o = case["offset"]
        kw["offset"] = np.array(o["o"]) if o["as"] == "array" else list(o["o"]) if o["as"] == "list" else tuple(o["o"])
    img0, msk0, fp0 = img.copy(), msk.copy(), None if fp is None else ([list(r) for r in fp] if isinstance(fp, list) else fp.copy())
    r = np.asarray(M.grey_reconstruction(img, msk, fp, **kw))
    dec = _decoder(enc, case)
    out = {"shape": list(r.shape), "dtype": str(r.dtype)}
    try:
        out["R"] = [[dec[float(v)] for v in row] for row in r.tolist()]
    except KeyError as e:
        out["not_a_copy"] = repr(e)
        return out
    out["inputs_mutated"] = bool(not np.array_equal(img, img0) or not np.array_equal(msk, msk0)
                                 or (fp is not None and not np.array_equal(np.asarray(fp), np.asarray(fp0))))
    try:
        r2 = np.asarray(M.grey_reconstruction(r, msk, fp, **kw))
        out["again_same"] = _same(r2, r)
    except Exception as e:      # noqa: the first output is still reported and checked
        out["again_same"] = False
        out["again_exc"] = type(e).__name__
    try:
        r3 = np.asarray(M.grey_reconstruction(img0, msk0, fp0, **kw))
        out["repeat_same"] = _same(r3, r)
    except Exception as e:      # noqa
        out["repeat_same"] = False
        out["repeat_exc"] = type(e).__name__
    return out


def _bad(o):
    return (not isinstance(o, dict)) or "exc" in o or "crash" in o or "R" not in o


def _padded_cells(c):
    g = _fp_grid(c)
    return (len(c["seed"]) + 2 * (len(g) // 2)) * (len(c["seed"][0]) + 2 * (len(g[0]) // 2))


def model(ctx, cases, outs):
    args = [[c["seed"], c["mask"], _fp_wire(c), _off_arg(c)] for c in cases]
    res = ctx.run_model("entry_recon", args)
    # premise of C04_model_safe_partial, discharged per instance: the set-up state satisfies Inv
    inv = ctx.run_model("entry_prep_check", args)
    # C04_setup_ord is a theorem now; the (quadratic) boolean Ord check is kept on a sub-sample as a cross-check
    # of the extracted set-up against the statement of the theorem
    small = [k for k, c in enumerate(cases) if not c.get("bad") and _padded_cells(c) <= 200][:ctx.n(150, 600)]
    ordr = dict(zip(small, ctx.run_model("entry_ord_check", [args[k] for k in small])))
    ctx.count("ord_check evaluated", len(small))
    return [{"m": r, "inv": i, "ord": ordr.get(k)} for k, (r, i) in enumerate(zip(res, inv))]


def compare(case, out, m):
    ordv, inv, m = m.get("ord"), m["inv"], m["m"]
    if ordv is not None and ordv != 1:
        return "Spec.ReconInv.ord_check is false on the set-up state of a valid input (contradicts C04_setup_ord)"
    if isinstance(m, dict) or isinstance(inv, dict):
        return "model error: %s %s" % (m, inv)
    if not case.get("bad") and inv != 1:
        return "Spec.ReconInv.prep_check is false on the set-up state of a valid input (contradicts C04_setup_inv)"
    if case.get("bad"):
        rej_i = isinstance(out, dict) and out.get("exc") in ("AssertionError", "ValueError")
        rej_m = (m == [3])
        if rej_i != rej_m:
            return "malformed input (%s): implementation %s, model %s" % (case["bad"], str(out)[:120], m)
        return None
    if m in ([1], [2], [3]):
        return "model result code %s (1 = out-of-bounds access, 2 = out of fuel, 3 = rejected) on a valid input" % m
    if _bad(out):
        return "implementation raised/crashed: %s" % (str(out)[:300],)
    if m[0] != out["R"]:
        return "output differs from the line-level model: impl %s model %s" % (str(out["R"])[:200], str(m[0])[:200])
    if m[1] != 0:
        return "model executed the relink with next[link] < 0 (%d dropped nodes)" % m[1]
    return None


def _offsets(case):
    fpg = _fp_grid(case)
    o0, o1 = _origin(case)
    return [(a - o0, b - o1) for a in range(len(fpg)) for b in range(len(fpg[0]))
            if fpg[a][b] and (a, b) != (o0, o1)]


def _levels(case, R):
    """untrusted certificate: breadth-first levels from the pixels that kept their seed value"""
    H, W = len(R), len(R[0])
    seed = case["seed"]
    offs = _offsets(case)
    lvl = [[-1] * W for _ in range(H)]
    q = deque()
    for i in range(H):
        for j in range(W):
            if R[i][j] == seed[i][j]:
                lvl[i][j] = 0
                q.append((i, j))
    while q:
        i, j = q.popleft()
        for a, b in offs:
            y, x = i + a, j + b
            if 0 <= y < H and 0 <= x < W and lvl[y][x] < 0 and R[y][x] <= R[i][j]:
                lvl[y][x] = lvl[i][j] + 1
                q.append((y, x))
    return lvl


def check(ctx, cases, outs):
    res = [None] * len(cases)
    idx = []
    for k, (c, o) in enumerate(zip(cases, outs)):
        if c.get("bad"):
            continue
        if _bad(o):
            res[k] = "implementation raised/crashed/returned a value that is no input value on a valid input: %s" % (
                str(o)[:300],)
            continue
        if o["shape"] != [len(c["seed"]), len(c["seed"][0])]:
            res[k] = "output shape %s differs from the input shape" % (o["shape"],)
            continue
        idx.append(k)
    args = [[cases[k]["seed"], cases[k]["mask"], _fp_grid(cases[k]), outs[k]["R"], _levels(cases[k], outs[k]["R"]),
             _off_arg(cases[k])] for k in idx]
    for k, r in zip(idx, ctx.run_model("entry_check", args)):
        if r != 1:
            res[k] = ("output is not the reconstruction by dilation (Spec.ReconSpec.recon_check rejects it: not between "
                      "seed and mask, raisable by a dilate-and-clip step, or not least)")
    iargs = [[cases[k]["seed"], cases[k]["mask"], _fp_grid(cases[k]), len(cases[k]["seed"]) * len(cases[k]["seed"][0]) + 2,
              _off_arg(cases[k])] for k in idx]
    for k, r in zip(idx, ctx.run_model("entry_iter", iargs)):
        if res[k]:
            continue
        if r == []:
            ctx.count("iter_out_of_fuel")
        elif r[0] != outs[k]["R"]:
            res[k] = "output differs from iterated dilate-and-clip (Spec.ReconSpec.recon_iter): %s vs %s" % (
                str(outs[k]["R"])[:150], str(r[0])[:150])
        elif not outs[k]["again_same"]:
            res[k] = "applying grey_reconstruction to its own output changed it (%s)" % outs[k].get("again_exc", "differs")
        elif not outs[k]["repeat_same"]:
            res[k] = ("calling grey_reconstruction again with the same inputs in the same process gave a different "
                      "result (%s): state kept between calls" % outs[k].get("repeat_exc", "differs"))
        if outs[k].get("inputs_mutated"):
            ctx.count("note: caller's arrays modified by the call")
    return res


def nontrivial(case, out):
    if case.get("bad") or _bad(out):
        return False
    return out["R"] != case["seed"] and out["R"] != case["mask"]


def kernel_crosscheck(ctx, cases, outs):
    idx = [k for k, c in enumerate(cases) if not c.get("bad") and not _bad(outs[k])
           and len(c["seed"]) * len(c["seed"][0]) <= 16 and len(_fp_grid(c)) * len(_fp_grid(c)[0]) <= 15
           and nontrivial(c, outs[k])][:40]
    idx += [k for k, c in enumerate(cases) if c.get("bad")][:4]
    args = [[cases[k]["seed"], cases[k]["mask"], _fp_wire(cases[k]), _off_arg(cases[k])] for k in idx]
    exp = [[3] if cases[k].get("bad") else [outs[k]["R"], 0] for k in idx]
    r = ctx.coq_eval_eq("Model.Recon", "entry_recon", args, exp, tag="recon")
    bad = [k for k, b in zip(idx, r) if b is not True]
    if bad:
        return "vm_compute evaluation of Model.Recon.entry_recon differs from the implementation on case %d" % bad[0], len(idx)
    # the extracted checker against the kernel, on accepted outputs and on perturbed ones (by uniqueness of the
    # reconstruction every perturbed output must be rejected, whatever certificate accompanies it)
    cargs, cexp = [], []
    for n, k in enumerate([k for k in idx if not cases[k].get("bad")][:24]):
        c, R = cases[k], outs[k]["R"]
        cargs.append([c["seed"], c["mask"], _fp_grid(c), R, _levels(c, R), _off_arg(c)]); cexp.append(1)
        i, j = n % len(R), (n // 2) % len(R[0])
        R2 = [list(row) for row in R]
        R2[i][j] += 1 if n % 2 else -1
        cargs.append([c["seed"], c["mask"], _fp_grid(c), R2, _levels(c, R2), _off_arg(c)]); cexp.append(0)
    ext = ctx.run_model("entry_check", cargs)
    if ext != cexp:
        return "extracted recon_check accepts a perturbed output or rejects a correct one (harness self-test)", len(idx)
    r2 = ctx.coq_eval_eq("Spec.ReconSpec", "entry_check", cargs, cexp, tag="chk")
    if not all(b is True for b in r2):
        return "vm_compute evaluation of Spec.ReconSpec.entry_check differs from the extracted checker", len(idx)
    return None, len(idx) + len(cargs)


def search_cases(ctx, rnd):
    rng = ctx.rng
    cases = []
    for _ in range(1500):
        c = _random_case(rng, 12)
        if not c.get("bad"):
            cases.append(c)
    return cases


_PLAIN_LAY = {"seed": "C", "mask": "C", "fp": "C"}


def _plain_enc(s, m):
    lo, hi = int(min(s.min(), m.min())), int(m.max())
    return {"lo": lo, "tbl": list(range(lo, hi + 1)), "sd": "int64", "md": "int64", "negzero": False}


def _mk(case, seed, mask, fp="same"):
    c = dict(case)
    s = np.array(seed, int)
    m = np.array(mask, int)
    c["seed"], c["mask"] = s.tolist(), m.tolist()
    if fp != "same":
        c["fp"] = fp
    return c


def shrink_candidates(case):
    if case.get("bad"):
        return
    s = np.array(case["seed"], int)
    m = np.array(case["mask"], int)
    H, W = s.shape
    for i in range(H):
        if H > 1:
            yield _mk(case, np.delete(s, i, 0), np.delete(m, i, 0))
    for j in range(W):
        if W > 1:
            yield _mk(case, np.delete(s, j, 1), np.delete(m, j, 1))
    if case["fp"] is not None:
        f = np.array(case["fp"], int)
        o0, o1 = _origin(case)
        for a, b in np.argwhere(f):
            g = f.copy(); g[a, b] = 0
            yield _mk(case, s, m, g.tolist())
        if not case.get("offset"):
            if f.shape[0] > 3 and not f[0].any() and not f[-1].any():
                yield _mk(case, s, m, f[1:-1].tolist())
            if f.shape[1] > 3 and not f[:, 0].any() and not f[:, -1].any():
                yield _mk(case, s, m, f[:, 1:-1].tolist())
    lo = int(s.min())
    for i, j in np.argwhere(s > lo)[:12]:
        t = s.copy(); t[i, j] = lo
        yield _mk(case, t, m)
    for i, j in np.argwhere(m > s)[:12]:
        t = m.copy(); t[i, j] = s[i, j]
        yield _mk(case, s, t)
    if case["lay"] != _PLAIN_LAY:
        c = dict(case); c["lay"] = dict(_PLAIN_LAY)
        yield c
    pe = _plain_enc(s, m)
    if case["enc"] != pe:
        c = dict(case); c["enc"] = pe
        yield c
    if case.get("fpenc"):
        c = dict(case); c["fpenc"] = None
        yield c
    if case.get("offset") and case["offset"]["as"] != "array":
        c = dict(case); c["offset"] = {"o": case["offset"]["o"], "as": "array"}
        yield c


MANIFEST = {
    "level_text": (
        "Machine-checked proof (Coq 8.16), no per-instance premise: for every accepted input (seed <= mask, footprint "
        "with odd dimensions >= 3, any footprint incl. asymmetric) the line-level executable Gallina model of "
        "grey_reconstruction (padding, strides, lexsort, linked list, rank_order) and of grey_reconstruction_loop (exact "
        "unlink/relink, checked array accesses) terminates within its fuel, never accesses out of bounds, never drops a "
        "node, and returns THE reconstruction by dilation (between seed and mask, unchanged by dilate-and-clip, pointwise "
        "least) - C04_grey_reconstruction_model_correct; with uniqueness, idempotence, closed = step-fixed, soundness of "
        "the extracted certificate checker recon_check and of iterate-until-stable. The model is tied to the code by exact "
        "equality of complete outputs on every generated case (all dtypes, layouts, footprint types, offsets); the "
        "verified checker and the iterated definition are also evaluated on the implementation's own output."),
    "level_note": (
        "Trusted: Coq kernel + vm_compute; extraction (ExtrOcamlBasic only) and the S-expression driver; the Python "
        "harness incl. the order-preserving integer coding of the inputs (all dtypes); NumPy sort semantics as modelled. "
        "The tie between model and code is differential, not a proof about Python/C: the theorem is about the model, the "
        "implementation is shown equal to the model on the generated cases."),
    "technique": "Coq proof over spec + verified certificate checker on implementation output + exact differential "
                 "correspondence with a line-level executable model (extracted OCaml and vm_compute)",
    "design_ref": "DESIGN.md section 7, C04",
}
