"""C13 - per-object measurements depend only on the object's own pixels."""
import math
import os
import numpy as np

ID = "C13"
PROPS_FILE = "theories/Props/C13.v"
EXTRACT = ("theories/Extract/XC13.v", "c13", ["entry_measure", "entry_idioms", "entry_ell_coords", "entry_median", "entry_hull_area",
                                           "entry_chrystal_many", "entry_chrystal_vec", "entry_sweep_many",
                                           "entry_hull_areas_vec"])
PYX = {}
CASE_TIMEOUT = 60
RULE = (
    "scene cases: label images 3..16 x 3..16 with 1-12 objects drawn from {nearest-seed blobs (touching), nested rings, "
    "rectangles clipped at the border, single pixels, one-pixel lines, random speckle (non-contiguous objects), "
    "staircases (a label's bottom row is the next label's top row), background-free tessellations, notches/holes "
    "exactly filled by other labels, diagonal-only objects next to other labels}, plus 1 x N and N x 1 label images "
    "(N = 1..12), 700..1030 x 3..6 scenes and scenes with 200-1500 objects; label numbers renumbered into a sparse range (gaps, up to ~70000), dyadic "
    "intensities k/16, a fixed skeleton image per scene; each scene is measured with all twelve measurements on: the "
    "scene with the full (shuffled) request list, each object alone with the other pixels' intensities redrawn, an "
    "'altered' scene (other objects deleted / merged / recoloured / new objects added to the background; also "
    "measured with the ORIGINAL request list, so that removed labels - the largest included - stay in the request), "
    "a renumbered scene, a permuted request list, a strict sub-list, a request list with absent labels "
    "(always one above every label present, one between / below where one exists), a zero-padded (translated) "
    "scene, (d) the scene in another label dtype (bool, int8..int64, uint8..uint32, one label at the dtype maximum), "
    "intensity dtype (float32/64, integer dtypes scaled to their range), memory layout (Fortran, strided, negative "
    "strides, read-only) and request-list type (list, int32/int64/uint8/uint16/uint32, read-only intp), the first "
    "call repeated after all the others in the same process, and a check that no input array was modified; Haralick "
    "with nlevels drawn from {4, 8, 16, 32}. Sub-list and absent-label requests are inside the property for every "
    "measurement (round 6); still excluded and counted ('excluded_*'): feret_diameter when no requested label is "
    "present, bool label images for ellipse / median / zernike. The exact models (areas, extents, perimeters, Euler, median (two models), ellipse "
    "moments (two models), skeleton length, per-object hull area and solidity, calculate_convex_hull_areas as "
    "written (it never raises), minimum enclosing circle (scalar and "
    "vectorised Chrystal), Feret calipers) are compared with the implementation "
    "on the scene, the absent-label request, the renumbered scene and the padded scene. idiom cases: bincount / "
    "anti-index / offsets / Indexes / table_idx_from_labels against NumPy and centrosome. non-trivial = at least two "
    "objects and at least one object touching another one or nested; distinct by hash of the case")
TRUSTED = [
    "modelled, not verified: the float numerics of every measurement (sqrt, arctan2, arccos, log, division); "
    "scipy.ndimage.sum/minimum/maximum with an index list (modelled by their specification); NumPy fancy indexing, "
    "lexsort, cumsum",
    "Zernike, Haralick: no Coq model, decided by the two-run relations on the implementation (floats at 1e-9 "
    "relative, ints exact)",
    "hull area, enclosing circle, Feret: the Coq models are exact (integers / rationals, squared quantities); the "
    "final float sqrt / division of the implementation is compared at 1e-9 relative",
]
ASSUMPTIONS = [
    "labels are non-negative and below 2^31; request lists are duplicate-free",
    "intensities in the exact median stream are dyadic (k/16)",
    "request lists are non-empty; feret_diameter is only called when at least one requested label is present "
    "(observation F); Haralick without mask, nlevels <= 32",
]
EXHAUSTIVE = {"quick": False, "thorough": False}
RTOL = 1e-9

# ----------------------------------------------------------------------------- translator

_TABLE_CODE = r"""
import json, numpy as np
import centrosome.cpmorphology as M
lab = np.zeros((3, 3), int); lab[1, 1] = 1
M.skeleton_length(lab, [1])
perim = M.__dict__["__perimeter_scoring"]
skel = M.__dict__["__skel_length_table"]
print(json.dumps({"perim": [float(v) for v in perim], "perim_dtype": str(perim.dtype),
                  "skel": [float(v) for v in skel], "skel_dtype": str(skel.dtype)}))
"""


def render_tables(d):
    """Gen/TablesC13.v from the tables the staged code computes.  Fail-closed."""
    perim, skel = d["perim"], d["skel"]
    if len(perim) != 512 or len(skel) != 512 or d["perim_dtype"] != "float64" or d["skel_dtype"] != "float32":
        raise ValueError("unexpected table shape/dtype: %s %s %d %d" % (d["perim_dtype"], d["skel_dtype"], len(perim), len(skel)))
    pz = []
    for v in perim:
        k = int(round(v * 1000))
        if k < 0 or float(k) / 1000.0 != v:
            raise ValueError("perimeter score %r is not a non-negative multiple of 0.001" % v)
        pz.append(k)
    sz = []
    for v in skel:
        k = v * 16777216.0
        if k != int(k) or k < 0 or v >= 8:
            raise ValueError("skeleton length score %r is not a float32 below 8" % v)
        sz.append(int(k))

    def lst(name, xs):
        rows = ["  " + "; ".join(str(x) for x in xs[s:s + 16]) for s in range(0, len(xs), 16)]
        return "Definition %s : list Z := [\n%s\n]." % (name, ";\n".join(rows))
    return ("(* GENERATED by harness/props/c13.py from the staged cpmorphology.py - do not edit.\n"
            "   perim_table: __perimeter_scoring * 1000; skel_table: __skel_length_table * 2^24 (float32, exact). *)\n"
            "From Coq Require Import ZArith List.\nImport ListNotations.\nOpen Scope Z_scope.\n\n"
            + lst("perim_table", pz) + "\n\n" + lst("skel_table", sz) + "\n")


def gen_files(ctx):
    import json
    d = json.loads(ctx.run_staged_python(_TABLE_CODE))
    return {"theories/Gen/TablesC13.v": render_tables(d)}


# ----------------------------------------------------------------------------- scene generator

def _blobs(rng, H, W, n):
    pts = np.array([(rng.randint(H), rng.randint(W)) for _ in range(n)])
    yy, xx = np.mgrid[0:H, 0:W]
    d = np.stack([(yy - p[0]) ** 2 + (xx - p[1]) ** 2 for p in pts])
    lab = d.argmin(0) + 1
    return lab * (d.min(0) < rng.choice([2, 4, 9, 25, 400]))


def _scene(rng, small=False):
    """label image with objects 1..n (dense numbering; renumbered later)"""
    H, W = (int(rng.randint(3, 8)), int(rng.randint(3, 8))) if small else (int(rng.randint(3, 17)), int(rng.randint(3, 17)))
    kind = rng.choice(["blobs", "nested", "rects", "speckle", "mixed", "mixed", "stairs", "tess", "notch", "diag"])
    lab = np.zeros((H, W), int)
    if kind == "stairs":
        # consecutive labels whose bottom row is the next one's top row (side by side in that row)
        y, x, k = 0, 0, 1
        while y < H and x < W:
            h, w = int(rng.randint(1, 4)), int(rng.randint(1, 4))
            lab[y:y + h, x:x + w] = k
            y, x, k = y + h - 1, x + w, k + 1
        if rng.rand() < 0.5:
            lab = lab[:, ::-1].copy()
    elif kind == "tess":
        # background-free tessellation: every hull vertex is surrounded by other labels
        n = int(rng.randint(2, 9))
        pts = np.array([(rng.randint(H), rng.randint(W)) for _ in range(n)])
        yy, xx = np.mgrid[0:H, 0:W]
        if rng.rand() < 0.5:
            d = np.stack([(yy - p[0]) ** 2 + (xx - p[1]) ** 2 for p in pts])
        else:
            d = np.stack([abs(yy - p[0]) + abs(xx - p[1]) for p in pts])
        lab = d.argmin(0) + 1
    elif kind == "notch":
        # an object with notches / a hole, each exactly filled by another label
        lab[:, :] = 0
        y0, x0 = int(rng.randint(0, 2)), int(rng.randint(0, 2))
        lab[y0:H - int(rng.randint(0, 2)), x0:W - int(rng.randint(0, 2))] = 1
        k = 2
        for _ in range(int(rng.randint(1, 5))):
            h, w = int(rng.randint(1, 3)), int(rng.randint(1, 3))
            side = int(rng.randint(5))
            y = [0 + y0, H - h - 1, int(rng.randint(H - h + 1)), int(rng.randint(H - h + 1)), int(rng.randint(1, max(2, H - h)))][side]
            x = [int(rng.randint(W - w + 1)), int(rng.randint(W - w + 1)), x0, W - w - 1, int(rng.randint(1, max(2, W - w)))][side]
            y, x = max(y, 0), max(x, 0)
            lab[y:y + h, x:x + w] = k if rng.rand() < 0.8 else 0
            k += 1
    elif kind == "diag":
        # diagonal-only steps next to other objects
        lab = (_blobs(rng, H, W, int(rng.randint(1, 4))) > 0).astype(int) * 0
        k = 1
        for _ in range(int(rng.randint(1, 4))):
            y, x = int(rng.randint(H)), int(rng.randint(W))
            dx = 1 if rng.rand() < 0.5 else -1
            for t in range(int(rng.randint(2, 8))):
                if 0 <= y + t < H and 0 <= x + dx * t < W:
                    lab[y + t, x + dx * t] = k
            k += 1
        fill = rng.rand()
        if fill < 0.6:                                  # neighbours: fill the rest with one or two other labels
            bg = lab == 0
            lab[bg & (np.add.outer(np.arange(H), np.arange(W)) % 2 == 0)] = k
            if fill < 0.3:
                lab[lab == 0] = k + 1
    elif kind == "blobs":
        lab = _blobs(rng, H, W, int(rng.randint(1, 7)))
    elif kind == "nested":
        yy, xx = np.mgrid[0:H, 0:W]
        cy, cx = H // 2, W // 2
        r = np.maximum(abs(yy - cy), abs(xx - cx)) if rng.rand() < 0.5 else np.round(np.hypot(yy - cy, xx - cx)).astype(int)
        nr = int(rng.randint(2, 6))
        lab = np.where(r < nr, nr - r, 0)
        if rng.rand() < 0.5:         # hole in the middle / gaps between rings
            lab[lab == int(rng.randint(1, nr + 1))] = 0
    elif kind == "rects":
        for k in range(1, int(rng.randint(2, 8))):
            y0, x0 = int(rng.randint(-1, H)), int(rng.randint(-1, W))
            h, w = int(rng.randint(1, 6)), int(rng.randint(1, 6))
            lab[max(y0, 0):y0 + h, max(x0, 0):x0 + w] = k
    elif kind == "speckle":
        n = int(rng.randint(1, 6))
        lab = rng.randint(1, n + 1, (H, W)) * (rng.rand(H, W) < rng.choice([0.2, 0.5, 0.9]))
    else:
        lab = _blobs(rng, H, W, int(rng.randint(1, 5)))
        k = lab.max() + 1
        for _ in range(int(rng.randint(1, 5))):
            u = rng.rand()
            y, x = int(rng.randint(H)), int(rng.randint(W))
            if u < 0.4:                                   # single pixel
                lab[y, x] = k
            elif u < 0.7:                                 # one-pixel line
                if rng.rand() < 0.5:
                    lab[y, x:x + int(rng.randint(2, 7))] = k
                else:
                    lab[y:y + int(rng.randint(2, 7)), x] = k
            else:                                         # ring around whatever is there (nested)
                h, w = int(rng.randint(3, 7)), int(rng.randint(3, 7))
                ring = np.zeros((H, W), bool)
                ring[y:y + h, x:x + w] = True
                ring[y + 1:y + h - 1, x + 1:x + w - 1] = False
                lab[ring] = k
            k += 1
    # dense renumbering 1..n in order of first appearance
    present = [v for v in np.unique(lab) if v != 0]
    lut = np.zeros(lab.max() + 1, int)
    order = list(rng.permutation(present))
    for k, v in enumerate(order):
        lut[v] = k + 1
    return lut[lab]


def _sparse_numbers(rng, n, big):
    """n distinct label numbers: gaps, not starting at 1, sometimes large"""
    u = rng.rand()
    if u < 0.25:
        pool = np.arange(1, n + 1)
    elif u < 0.6:
        pool = rng.choice(np.arange(1, 3 * n + 6), n, replace=False)
    elif u < 0.85 or not big:
        pool = rng.choice(np.arange(1, max(200, 3 * n)), n, replace=False)
    else:
        pool = rng.choice(np.arange(1, 70000), n, replace=False)
    return [int(v) for v in rng.permutation(pool)]


def _renumber(lab, nums):
    lut = np.zeros(len(nums) + 1, int)
    lut[1:] = nums
    return lut[lab]


def _skeleton(rng, lab):
    """a fixed labelled 'skeleton' image: thinned-looking subsets of the objects"""
    H, W = lab.shape
    u = rng.rand()
    if u < 0.4:
        return lab * (rng.rand(H, W) < 0.5)
    if u < 0.7:
        sk = np.zeros_like(lab)
        sk[::2, :] = lab[::2, :]
        sk[:, ::3] = lab[:, ::3]
        return sk
    return lab.copy()


def _long_scene(rng):
    """thin long scene (700 x 5 or 5 x 700): longer than any internal chunk"""
    L, T = int(rng.choice([700, 700, 1030])), int(rng.randint(3, 7))
    lab = np.zeros((L, T), int)
    y, k = 0, 1
    while y < L:
        h = int(rng.choice([1, 2, 3, 7, 40, 150]))
        if rng.rand() < 0.8:
            x0 = int(rng.randint(0, T))
            lab[y:y + h, x0:int(rng.randint(x0 + 1, T + 1))] = k
            k += 1
        y += h if rng.rand() < 0.7 else h - 1 if h > 1 else 1     # sometimes share a row with the next one
    if lab.max() == 0:
        lab[0, 0] = 1
    return lab if rng.rand() < 0.5 else lab.T.copy()


def _line_scene(rng):
    """label image with one row or one column (1 x N / N x 1, N = 1..12): runs of labels, gaps, repeated labels"""
    N = int(rng.randint(1, 13))
    row = np.zeros(N, int)
    x, k = 0, 1
    while x < N:
        w = int(rng.randint(1, 5))
        u = rng.rand()
        if u < 0.65:
            row[x:x + w] = k
            k += 1
        elif u < 0.8 and k > 1:
            row[x:x + w] = int(rng.randint(1, k))        # a non-contiguous object
        x += w
    if row.max() == 0:
        row[int(rng.randint(N))] = 1
    return row.reshape(1, N) if rng.rand() < 0.5 else row.reshape(N, 1)


def _many_scene(rng):
    """200+ objects in one call"""
    H, W = int(rng.randint(30, 46)), int(rng.randint(30, 46))
    if rng.rand() < 0.5:
        yy, xx = np.mgrid[0:H, 0:W]
        s = int(rng.choice([2, 2, 3]))
        lab = (yy // s) * ((W + s - 1) // s) + (xx // s) + 1
        lab = lab * (rng.rand(H, W) < 0.9)
    else:
        lab = np.arange(1, H * W + 1).reshape(H, W) * (rng.rand(H, W) < 0.3)
    return lab


LDTYPES = ["bool", "int8", "uint8", "int16", "uint16", "int32", "uint32", "int64"]
IDTYPES = ["float32", "float64", "uint8", "int16", "int32", "int64", "uint16"]
LAYOUTS = ["C", "F", "strided", "ro", "negstride"]
IDXTYPES = ["list", "int32", "int64", "uint8", "uint16", "uint32", "intp_ro"]


def _variant(rng, n):
    """dtype / memory layout / request-list type of the variant run (relation d)"""
    ldt = str(rng.choice(LDTYPES))
    if n > 100 and ldt in ("bool", "int8", "uint8"):
        ldt = "uint16"
    return {"ldt": ldt, "idt": str(rng.choice(IDTYPES)), "layout": str(rng.choice(LAYOUTS)),
            "idxt": str(rng.choice(IDXTYPES)), "atmax": bool(rng.rand() < 0.6)}


def _make_scene_case(rng, small=False, big=True, special=None):
    while True:
        dense = (_long_scene(rng) if special == "long" else _many_scene(rng) if special == "many"
                 else _line_scene(rng) if special == "line1" else _scene(rng, small))
        n = int(dense.max())
        if n >= 1:
            break
    if special:
        # dense renumbering in raster order of first appearance
        u, inv = np.unique(dense, return_inverse=True)
        dense = inv.reshape(dense.shape) if u[0] == 0 else inv.reshape(dense.shape) + 1
        n = int(dense.max())
    if special == "line1":
        special = None                                   # a small scene: every run, Zernike included
    H, W = dense.shape
    nums = _sparse_numbers(rng, n, big)
    lab = _renumber(dense, nums)
    present = sorted(nums)
    img = rng.randint(0, 17, (H, W))
    if rng.rand() < 0.2:
        img = rng.randint(0, 3, (H, W)) * 8          # many ties
    idx = [int(v) for v in rng.permutation(present)]
    c = {"fn": "scene", "lab": lab.tolist(), "img": img.tolist(), "idx": idx,
         "sk": _skeleton(rng, lab).tolist()}
    # permuted and subset lists
    c["perm"] = [int(v) for v in rng.permutation(idx)]
    k = int(rng.randint(1, n + 1))
    c["sub"] = [int(v) for v in rng.permutation(idx)[:k]]
    # absent labels: one between, one above
    absent = [v for v in range(1, max(present) + 3) if v not in present]
    ab = []
    if absent:
        ab.append(int(rng.choice(absent)))
    if min(present) > 1 and rng.rand() < 0.5:
        ab.append(int(rng.randint(1, min(present))))       # smaller than every label present
    ab.append(int(max(present) + rng.randint(1, 50)))       # larger than every label present
    ab = sorted(set(ab))
    mix = idx + ab
    c["absent"] = [int(v) for v in rng.permutation(mix)]
    # renumbering (into a different sparse range, some large)
    nums2 = _sparse_numbers(rng, n, big)
    c["renum"] = [[a, b] for a, b in zip(nums, nums2)]
    nums3 = [int(v) for v in rng.permutation(np.arange(1, n + 4))[:n]]          # small one for Haralick
    c["renum_small"] = [[a, b] for a, b in zip(nums, nums3)]
    # translation by zero padding
    c["pad"] = [int(v) for v in rng.randint(0, 6, 4)] if rng.rand() < 0.8 else [0, 0, 0, 0]
    # targets of the 'alone' relation (cap the cost) and the 'altered' scene
    c["targets"] = [int(v) for v in rng.permutation(present)[:5]]
    keep = [int(v) for v in rng.permutation(present)[:int(rng.randint(1, n + 1))]]
    alt = np.where(np.isin(lab, keep), lab, 0)
    others = [v for v in present if v not in keep]
    free = [v for v in range(1, max(present) + 40) if v not in present]
    for v in others:
        u = rng.rand()
        m = lab == v
        if u < 0.35:
            continue                                             # deleted
        if u < 0.7:
            alt[m] = int(rng.choice(free))                       # recoloured (possibly merged with another)
        else:
            alt[m & (rng.rand(H, W) < 0.6)] = int(rng.choice(free))   # eroded + recoloured
    bg = (lab == 0) & (rng.rand(H, W) < rng.choice([0.0, 0.2, 0.7]))
    alt[bg] = int(rng.choice(free))                              # new object on the background
    c["alt"] = alt.tolist()
    c["keep"] = keep
    c["img2"] = rng.randint(0, 17, (H, W)).tolist()
    c["hscale"] = [int(v) for v in [(3, 0), (3, 0), (0, 1), (1, 1), (2, -1), (1, 0)][int(rng.randint(6))]]
    c["nlevels"] = int(rng.choice([4, 8, 16, 32]))
    c["var"] = _variant(rng, n)
    if special:
        c["special"] = special
        c["targets"] = c["targets"][:2]
    return c


def _make_idiom_case(rng):
    n = int(rng.randint(0, 30))
    hi = int(rng.choice([1, 3, 10, 40]))
    labs = rng.randint(0, hi + 1, n).tolist()
    ws = rng.randint(-20, 21, n).tolist()
    m = int(rng.choice([0, 0, 1, hi, hi + 1, hi + 5]))
    k = int(rng.randint(1, 8))
    idxs = [int(v) for v in rng.choice(np.arange(0, 30), k, replace=False)]
    counts = rng.randint(0, 5, int(rng.randint(1, 8))).tolist()
    if rng.rand() < 0.1:
        counts = [0] * len(counts)
    H, W = int(rng.randint(1, 7)), int(rng.randint(1, 7))      # 1 x N and N x 1 included
    im = rng.randint(0, 3, (H, W)).tolist()
    return {"fn": "idiom", "labs": labs, "ws": ws, "m": m, "idxs": idxs, "counts": counts, "im": im}


def _corpus():
    """hand-written edge cases, always first"""
    out = []
    base = {"fn": "scene"}

    def mk(lab, idx=None, pad=(1, 2, 3, 0)):
        lab = np.array(lab, int)
        present = sorted(int(v) for v in np.unique(lab) if v)
        idx = idx or present
        H, W = lab.shape
        rng = np.random.RandomState(len(out) + 11)
        c = dict(base)
        c.update({"lab": lab.tolist(), "img": rng.randint(0, 17, (H, W)).tolist(), "idx": idx, "sk": lab.tolist(),
                  "perm": idx[::-1], "sub": idx[:1], "absent": idx + [max(present) + 7],
                  "renum": [[v, 3 * v + 100] for v in present], "renum_small": [[v, len(present) + 1 - k] for k, v in enumerate(present)],
                  "pad": list(pad), "targets": present[:5], "alt": np.where(lab == present[0], lab, 0).tolist(),
                  "keep": present[:1], "img2": rng.randint(0, 17, (H, W)).tolist(), "hscale": [3, 0],
                  "nlevels": [4, 8, 16, 32][len(out) % 4],
                  "var": {"ldt": LDTYPES[len(out) % 8], "idt": IDTYPES[len(out) % 7], "layout": LAYOUTS[len(out) % 5],
                          "idxt": IDXTYPES[len(out) % 7], "atmax": True}})
        out.append(c)
    mk([[1, 0], [0, 0]])
    mk([[5, 5], [5, 5]])
    mk([[1, 2], [3, 4]])                                             # four touching single pixels
    mk([[1, 1, 1, 1, 1], [1, 2, 2, 2, 1], [1, 2, 3, 2, 1], [1, 2, 2, 2, 1], [1, 1, 1, 1, 1]])   # nested
    mk([[7, 0, 9], [0, 0, 0], [9, 0, 7]])                            # non-contiguous objects, border
    mk([[0, 0, 0, 0], [0, 4, 4, 0], [0, 4, 4, 0], [0, 0, 0, 0], [2, 2, 2, 2], [2, 0, 0, 2], [2, 2, 2, 2]], idx=[4, 2])
    mk([[1, 1, 0, 60000, 60000], [1, 1, 0, 60000, 60000], [0, 0, 0, 0, 0], [3, 3, 3, 3, 3], [3, 3, 3, 3, 3], [3, 3, 3, 3, 3]])
    # round 6: one-row / one-column images, sub-list requests below the largest label, absent labels above it,
    # Haralick with 16 grey levels (the hunt's witnesses)
    mk([[0, 1, 1, 0]], pad=(1, 1, 0, 0))
    mk([[1]], pad=(0, 1, 2, 0))
    mk([[2], [2], [0], [1]], pad=(0, 0, 1, 0))
    z = np.zeros((7, 9), int); z[1:4, 1:5] = 1; z[4:6, 5:8] = 2
    mk(z.tolist(), idx=[1, 2])
    z = np.zeros((5, 8), int); z[1:4, 1:3] = 1; z[1:4, 5:7] = 2
    mk(z.tolist(), idx=[1, 2])
    out[-1]["alt"] = np.where(z == 1, 1, 0).tolist()
    mk([[1, 1, 1, 1], [0, 0, 0, 0], [2, 2, 2, 2]], idx=[1, 2], pad=(0, 0, 0, 0))
    out[-1].update({"img": [[0, 3, 6, 16], [0, 0, 0, 0], [16, 10, 10, 0]], "hscale": [0, 1], "nlevels": 16,
                    "renum_small": [[1, 1], [2, 2]]})
    return out


def _corpus_files():
    import json
    d = os.path.join(os.path.dirname(os.path.dirname(os.path.dirname(os.path.abspath(__file__)))), "corpus", "C13")
    out = []
    if os.path.isdir(d):
        for name in sorted(os.listdir(d)):
            if name.endswith(".json"):
                with open(os.path.join(d, name)) as f:
                    out.append(json.load(f))
    return out


def generate(ctx):
    rng = ctx.rng
    cases = _corpus_files() + _corpus()
    for _ in range(ctx.n(220, 2600)):
        cases.append(_make_scene_case(rng, small=rng.rand() < 0.25))
    for _ in range(ctx.n(24, 300)):
        cases.append(_make_scene_case(rng, special="line1"))
    for _ in range(ctx.n(2, 16)):
        cases.append(_make_scene_case(rng, big=False, special="long"))
    for _ in range(ctx.n(2, 12)):
        cases.append(_make_scene_case(rng, big=False, special="many"))
    for _ in range(ctx.n(150, 1500)):
        cases.append(_make_idiom_case(rng))
    for c in cases:
        ctx.count(c["fn"])
    for c in cases:
        if c["fn"] == "scene":
            _count_domain(ctx, c)
    return cases


# ----------------------------------------------------------------------------- domain of the four partial functions

# Round 6 (coordinator's ruling): sub-list requests and requests naming absent labels - smaller or larger than every
# label present - are INSIDE the property.  The former observations Z (zernike with max(idx) < max(labels)), E
# (ellipse_from_second_moments with a requested label above max(labels)) and H (calculate_convex_hull_areas / solidity
# with a requested label above the largest hull label) are defects; nothing is excluded for them any more.

def _zern_ok(lab, idx):
    """zernike takes max(indexes): an empty request list is outside"""
    return len(idx) > 0


def _feret_ok(lab, idx):
    """feret_diameter raises when no requested label is present (observation F)"""
    return any(np.any(lab == v) for v in idx)


DOMAIN = {"zernike": _zern_ok, "feret": _feret_ok}


def _count_domain(ctx, c):
    lab = np.array(c["lab"])
    for name, ok in DOMAIN.items():
        for req in ("sub", "absent"):
            if not ok(lab, c[req]):
                ctx.count("excluded_%s_%s" % (name, req))
        if not ok(np.array(c["alt"]), c["keep"]):
            ctx.count("excluded_%s_alt" % name)


# ----------------------------------------------------------------------------- implementation side

POS = {"ell_center", "ell_w_center", "mec_c"}          # position outputs (shift under translation)
ANGLE = {"ell_theta", "ell_w_theta"}                    # orientation, mod pi
NO_TRANSLATE = {"zernike"}


def _measures(lab, img, idx, sk, skip=(), ia=None, imf=None, imw=None):
    """all twelve measurements; one entry per request index; an exception is an outcome.
    ia / imf / imw override the request-list object, the intensity image and the weight image."""
    import centrosome.cpmorphology as M
    from centrosome import zernike as Z
    import scipy.ndimage as scind
    out = {}
    if ia is None:
        ia = np.array(idx, dtype=np.int32)
    if imf is None:
        imf = img / 16.0
    if imw is None:
        imw = (img + 1) / 16.0

    def run(names, f, gate=None):
        if names[0] in skip or (gate is not None and not DOMAIN[gate](lab, idx)):
            return                                      # outside the function's domain: not called
        try:
            r = f()
            for n, v in zip(names, r):
                out[n] = np.asarray(v, float).tolist()
        except Exception as e:                          # noqa
            for n in names:
                out[n] = {"exc": type(e).__name__, "msg": str(e)[:120]}

    run(["ell_center", "ell_ecc", "ell_major", "ell_minor", "ell_theta", "ell_comp"],
        lambda: M.ellipse_from_second_moments(np.ones(lab.shape), lab, ia, True))
    run(["ell_w_center", "ell_w_ecc", "ell_w_major", "ell_w_minor", "ell_w_theta", "ell_w_comp"],
        lambda: M.ellipse_from_second_moments(imw, lab, ia, True))
    run(["perim"], lambda: [M.calculate_perimeters(lab, ia)])
    run(["euler"], lambda: [M.euler_number(lab, ia)])
    run(["charea"], lambda: [M.calculate_convex_hull_areas(lab, ia)])
    run(["solidity"], lambda: [M.calculate_solidity(lab, ia)])
    run(["extent"], lambda: [M.calculate_extents(lab, ia)])
    run(["area"], lambda: [M.fixup_scipy_ndimage_result(scind.sum(np.ones(lab.shape), lab, ia))])
    run(["mec_c", "mec_r"], lambda: M.minimum_enclosing_circle(lab, ia))

    def fer():
        h, cnt = M.convex_hull(lab, ia)
        return M.feret_diameter(h, cnt, ia)
    run(["feret_min", "feret_max"], fer, "feret")
    run(["median"], lambda: [M.median_of_labels(imf, lab, ia)])
    run(["skel_len"], lambda: [M.skeleton_length(sk, ia)])
    if "zernike" not in skip:
        run(["zernike"], lambda: [Z.zernike(Z.get_zernike_indexes(5), lab, ia)], "zernike")
    return out


def _pair_mask(m, si, sj):
    """does the object contain two pixels at the co-occurrence offset? (slicing as in haralick.cooccurrence)"""
    if si < 0:
        si, sj = -si, -sj
    if si == 0 and sj > 0:
        a, b = m[:, :-sj], m[:, sj:]
    elif si > 0 and sj == 0:
        a, b = m[:-si, :], m[si:, :]
    elif si > 0 and sj > 0:
        a, b = m[:-si, :-sj], m[si:, sj:]
    else:
        a, b = m[:-si, -sj:], m[si:, :sj]
    return bool(a.shape == b.shape and a.size > 0 and (a & b).any())


def _haralick(lab, img, scale, nlevels=8):
    return _haralick_raw(lab, img / 16.0, scale, nlevels)


def _haralick_raw(lab, imf, scale, nlevels=8):
    """features x objects for labels 1..max, plus which labels contain a co-occurring pair"""
    from centrosome import haralick as Hk
    si, sj = scale
    n = int(lab.max())
    if n == 0:
        return {"f": [], "pair": []}
    try:
        h = Hk.Haralick(imf, lab, si, sj, nlevels)
        f = np.array(h.all(), float)                      # 13 x n
    except Exception as e:                                # noqa
        return {"exc": type(e).__name__, "msg": str(e)[:120]}
    pair = [_pair_mask(lab == l, si, sj) for l in range(1, n + 1)]
    return {"f": f.T.tolist(), "pair": pair}


def _layout(a, layout):
    """the same values in another memory layout"""
    if layout == "F":
        return np.asfortranarray(a)
    if layout == "strided":
        big = np.zeros((a.shape[0] * 2 + 1, a.shape[1] * 3), a.dtype)
        big[1::2, 1::3] = a
        return big[1::2, 1::3]
    if layout == "negstride":
        return a[::-1, ::-1].copy()[::-1, ::-1]
    if layout == "ro":
        b = a.copy()
        b.flags.writeable = False
        return b
    return np.ascontiguousarray(a)


def _var_numbers(case):
    """label numbers of the variant run: inside the label dtype, sparse, one at the dtype maximum"""
    v = case["var"]
    idx = case["idx"]
    top = 1 if v["ldt"] == "bool" else min(int(np.iinfo(v["ldt"]).max), 65535)
    rng = np.random.RandomState(len(idx) * 7919 + sum(idx) % 1000)
    n = len(idx)
    if top < n:
        return None
    nums = rng.choice(np.arange(1, top + 1), n, replace=False)
    if v["atmax"]:
        nums[int(rng.randint(n))] = top
        if len(set(nums.tolist())) < n:
            nums = np.arange(top - n + 1, top + 1)
    return dict((a, int(b)) for a, b in zip(idx, nums))


def _int_scale(idt):
    """(median scale, weight scale) for integer intensity dtypes: values up to the dtype's range"""
    if idt.startswith("float"):
        return None, None
    mx = int(np.iinfo(idt).max)
    return (mx // 16 if mx < 2 ** 62 else 2 ** 58), (mx // 17 if mx < 2 ** 40 else 2 ** 40)


def _var_run(case, lab, img, sk):
    """relation (d): the scene in another label dtype / intensity dtype / memory layout / request-list type"""
    v = case["var"]
    idx = case["idx"]
    skip = ["zernike"] if case.get("special") else []
    if v["ldt"] == "bool":
        l = case["targets"][0]
        l2, s2, idx2 = (lab == l), (sk == l), [1]
        # bool label images index as masks in ellipse / median / zernike (observation B): not called
        skip += ["ell_center", "ell_w_center", "median", "zernike"]
        mp = {l: 1}
    else:
        mp = _var_numbers(case)
        if mp is None:
            return None
        pairs = list(mp.items())
        l2 = _apply_map(lab, pairs).astype(v["ldt"])
        s2 = _apply_map(sk, pairs).astype(v["ldt"])
        idx2 = [mp[a] for a in idx]
    ks, kw = _int_scale(v["idt"])
    if ks is None:
        imf = (img / 16.0).astype(v["idt"])
        imw = ((img + 1) / 16.0).astype(v["idt"])
    else:
        imf = (img.astype(object) * ks).astype(v["idt"])
        imw = ((img.astype(object) + 1) * kw).astype(v["idt"])
    t = v["idxt"]
    if t == "list":
        ia = [int(a) for a in idx2]
    elif t == "intp_ro":
        ia = np.array(idx2, dtype=np.intp)
        ia.flags.writeable = False
    else:
        ia = np.array(idx2, dtype=t if max(idx2) <= np.iinfo(t).max else np.int64)
    lay = v["layout"]
    o = _measures(_layout(l2, lay), None, idx2, _layout(s2, lay), skip=skip, ia=ia, imf=_layout(imf, lay), imw=_layout(imw, lay))
    return {"o": o, "idx": idx2, "map": [[a, b] for a, b in mp.items()], "mscale": (1.0 if ks is None else 16.0 * ks),
            "wscale": (1.0 if ks is None else 16.0 * kw)}


def _hullv(lab, idx):
    """the implementation's own hull vertex list of every requested label, in request order"""
    try:
        import centrosome.cpmorphology as M
        hv, hc = M.convex_hull(lab, np.array(idx, dtype=np.int32))
        off = np.concatenate(([0], np.cumsum(hc)))
        return [np.asarray(hv)[off[k]:off[k + 1], 1:].tolist() for k in range(len(idx))]
    except Exception as e:      # noqa
        return {"exc": type(e).__name__, "msg": str(e)[:120]}


def _apply_map(arr, pairs):
    arr = np.asarray(arr)
    out = np.zeros_like(arr)
    for a, b in pairs:
        out[arr == a] = b
    return out


def impl(case):
    if case["fn"] == "idiom":
        return _impl_idiom(case)
    lab = np.array(case["lab"], int)
    img = np.array(case["img"], int)
    img2 = np.array(case["img2"], int)
    sk = np.array(case["sk"], int)
    idx = case["idx"]
    keep0 = (lab.copy(), img.copy(), sk.copy())
    zskip = ("zernike",) if case.get("special") else ()          # Zernike on 700-long / 200-object scenes: base run only
    o = {"base": _measures(lab, img, idx, sk)}
    o["hullv"] = _hullv(lab, idx)
    o["hullv_perm"] = _hullv(lab, case["perm"])
    o["hullv_absent"] = _hullv(lab, case["absent"])
    o["perm"] = _measures(lab, img, case["perm"], sk, skip=zskip)
    o["sub"] = _measures(lab, img, case["sub"], sk, skip=zskip)
    o["absent"] = _measures(lab, img, case["absent"], sk, skip=zskip)
    # each target alone; intensities of every other pixel redrawn
    o["alone"] = {}
    for l in case["targets"]:
        al = np.where(lab == l, lab, 0)
        im = np.where(lab == l, img, img2)
        o["alone"][str(l)] = _measures(al, im, [l], np.where(sk == l, sk, 0))
    # altered scene: request the kept labels only, and the full list where every function is defined for it
    alt = np.array(case["alt"], int)
    ima = np.where(np.isin(lab, case["keep"]), img, img2)
    ska = np.where(np.isin(sk, case["keep"]), sk, 0)
    o["alt"] = _measures(alt, ima, case["keep"], ska)
    o["alt_full"] = _measures(alt, ima, idx, ska)
    # renumbered
    lab3 = _apply_map(lab, case["renum"])
    mp = dict((a, b) for a, b in case["renum"])
    o["renum"] = _measures(lab3, img, [mp[v] for v in idx], _apply_map(sk, case["renum"]))
    # translated by zero padding
    pt, pb, pl, pr = case["pad"]
    pw = ((pt, pb), (pl, pr))
    o["pad"] = _measures(np.pad(lab, pw), np.pad(img, pw), idx, np.pad(sk, pw), skip=("zernike",))
    # Haralick (labels 1..max only: use the small renumbering as the base scene)
    labs = _apply_map(lab, case["renum_small"])
    hs = case["hscale"]
    nl = case.get("nlevels", 8)
    o["har"] = _haralick(labs, img, hs, nl)
    o["har_pad"] = _haralick(np.pad(labs, pw), np.pad(img, pw), hs, nl)
    o["har_alone"] = {}
    ms = dict((a, b) for a, b in case["renum_small"])
    for l in case["targets"][:3]:
        k = ms[l]
        o["har_alone"][str(k)] = _haralick(np.where(labs == k, labs, 0), np.where(labs == k, img, img2), hs, nl)
    # second small renumbering = reversed order of the first
    n = int(labs.max())
    rev = n + 1 - labs
    rev[labs == 0] = 0
    o["har_rev"] = _haralick(rev, img, hs, nl)
    # (d) other dtypes / layouts / request-list types; Haralick with float32 intensities and the variant layout
    if "var" in case:
        o["var"] = _var_run(case, lab, img, sk)
        v = case["var"]
        ldt = v["ldt"] if v["ldt"] != "bool" and labs.max() <= np.iinfo(v["ldt"]).max else "int64"
        o["har_var"] = _haralick_raw(_layout(labs.astype(ldt), v["layout"]),
                                     _layout((img / 16.0).astype("float32" if v["idt"] == "float32" else "float64"), v["layout"]), hs, nl)
        # several calls in one process: the first call again, after everything else
        o["again"] = _measures(lab, img, idx, sk)
        o["har_again"] = _haralick(labs, img, hs, nl)
        o["mutated"] = not (np.array_equal(lab, keep0[0]) and np.array_equal(img, keep0[1]) and np.array_equal(sk, keep0[2]))
    return o


def _impl_idiom(case):
    import centrosome.cpmorphology as M
    from centrosome.index import Indexes
    labs = np.array(case["labs"], int)
    ws = np.array(case["ws"], int)
    bc = np.bincount(labs, weights=ws, minlength=case["m"])
    idxs = np.array(case["idxs"], int)
    anti = np.zeros(idxs.max() + 1, int)
    anti[idxs] = np.arange(len(idxs))
    counts = np.array(case["counts"], int)
    point_index = np.zeros(len(counts), int)
    point_index[1:] = np.cumsum(counts[:-1])
    ix = Indexes([counts])
    assert np.array_equal(ix.fwd_idx, point_index)
    t = M.table_idx_from_labels(np.array(case["im"], int))
    return {"bincount": [int(v) for v in bc], "anti": anti.tolist(), "offsets": point_index.tolist(),
            "rev": np.asarray(ix.rev_idx).tolist(), "idx": (np.asarray(ix.idx[0]).tolist() if ix.length else []),
            "tidx": t.tolist()}


# ----------------------------------------------------------------------------- model side

def _bad(o):
    return (not isinstance(o, dict)) or "exc" in o or "crash" in o


def _model_args(case):
    """the scenes on which the exact models are compared: base, renumbered, padded"""
    lab = np.array(case["lab"], int)
    img = np.array(case["img"], int)
    sk = np.array(case["sk"], int)
    idx = case["idx"]
    mp = dict((a, b) for a, b in case["renum"])
    pt, pb, pl, pr = case["pad"]
    pw = ((pt, pb), (pl, pr))
    res = [
        ("base", [lab.tolist(), img.tolist(), idx, sk.tolist()]),
        ("absent", [lab.tolist(), img.tolist(), case["absent"], sk.tolist()]),
        ("renum", [_apply_map(lab, case["renum"]).tolist(), img.tolist(), [mp[v] for v in idx],
                   _apply_map(sk, case["renum"]).tolist()]),
        ("pad", [np.pad(lab, pw).tolist(), np.pad(img, pw).tolist(), idx, np.pad(sk, pw).tolist()]),
    ]
    # label numbers above 5000 make the list-based model slow (unary positions): those scenes go through the
    # model for one case in six only (the two-run relations always run on them)
    sel = (sum(map(sum, case["lab"])) + len(idx)) % 6 == 0
    return [(t, a) for t, a in res if sel or max(a[2] + [0]) <= 5000]


def model(ctx, cases, outs):
    res = [None] * len(cases)
    args, where = [], []
    for k, c in enumerate(cases):
        if c["fn"] == "scene":
            for tag, a in _model_args(c):
                args.append(a)
                where.append((k, tag))
            res[k] = {}
    for (k, tag), r in zip(where, ctx.run_model("entry_measure", args)):
        res[k][tag] = r
    # the coordinate-level ellipse model on every requested object of the base scene
    cargs, cwhere = [], []
    for k, c in enumerate(cases):
        if c["fn"] == "scene":
            lab = np.array(c["lab"], int)
            res[k]["ellc"] = []
            for l in c["idx"]:
                cargs.append(np.argwhere(lab == l).tolist())
                cwhere.append(k)
    for k, r in zip(cwhere, ctx.run_model("entry_ell_coords", cargs)):
        res[k]["ellc"].append(r)
    # per-object convex hull area from the implementation's own hull vertices
    hargs, hwhere = [], []
    for k, c in enumerate(cases):
        if c["fn"] == "scene" and isinstance(outs[k], dict) and isinstance(outs[k].get("hullv"), list):
            res[k]["harea"] = []
            for vs in outs[k]["hullv"]:
                hargs.append(vs)
                hwhere.append(k)
    for k, r in zip(hwhere, ctx.run_model("entry_hull_area", hargs)):
        res[k]["harea"].append(r)
    # C14's MEC / Feret models on the hull rows of the call (request order: base and permuted)
    for tag, key in (("hullv", "idx"), ("hullv_perm", "perm")):
        ks = [k for k, c in enumerate(cases) if c["fn"] == "scene" and isinstance(outs[k], dict)
              and isinstance(outs[k].get(tag), list)]
        blocks = [outs[k][tag] for k in ks]
        for k, r, w in zip(ks, ctx.run_model("entry_chrystal_many", blocks), ctx.run_model("entry_sweep_many", blocks)):
            res[k]["mec_" + tag] = r
            res[k]["sweep_" + tag] = w
        cheap = [k for k, hs in zip(ks, blocks) if len(hs) * sum(len(h) for h in hs) ** 2 <= 2 * 10 ** 7]
        ctx.count("mec_vectorised_model_compared", len(cheap))
        ctx.count("mec_vectorised_model_skipped_large_call", len(ks) - len(cheap))
        for k, r in zip(cheap, ctx.run_model("entry_chrystal_vec", [[cases[k][key], outs[k][tag]] for k in cheap])):
            res[k]["mecvec_" + tag] = r
    # calculate_convex_hull_areas as written (ragged bookkeeping) on the hull rows of the call
    for tag, key in (("hullv", "idx"), ("hullv_perm", "perm"), ("hullv_absent", "absent")):
        ks = [k for k, c in enumerate(cases) if c["fn"] == "scene" and isinstance(outs[k], dict)
              and isinstance(outs[k].get(tag), list)]
        for k, r in zip(ks, ctx.run_model("entry_hull_areas_vec", [[cases[k][key], outs[k][tag]] for k in ks])):
            res[k]["hav_" + tag] = r
    # b18's as-written median model (the one the C13 median theorems are about) on the base scene
    margs, mwhere = [], []
    for k, c in enumerate(cases):
        if c["fn"] == "scene" and "base" in res[k] and max(c["idx"]) <= 5000:
            lab = np.array(c["lab"], int)
            margs.append([(2 * np.array(c["img"], int)).ravel().tolist(), lab.ravel().tolist(), c["idx"]])
            mwhere.append(k)
    for k, r in zip(mwhere, ctx.run_model("entry_median", margs)):
        res[k]["med18"] = r
    ii = [k for k, c in enumerate(cases) if c["fn"] == "idiom"]
    ia = [[cases[k]["labs"], cases[k]["ws"], cases[k]["m"], cases[k]["idxs"], cases[k]["counts"], cases[k]["im"]] for k in ii]
    for k, r in zip(ii, ctx.run_model("entry_idioms", ia)):
        res[k] = r
    return res


def _close(a, b, rtol=RTOL, atol=1e-12):
    if a is None or b is None:
        return a is b
    if isinstance(a, (list, tuple)):
        return isinstance(b, (list, tuple)) and len(a) == len(b) and all(_close(x, y, rtol, atol) for x, y in zip(a, b))
    if isinstance(a, float) and math.isnan(a):
        return isinstance(b, float) and math.isnan(b)
    if isinstance(b, float) and math.isnan(b):
        return False
    if math.isinf(a) or math.isinf(b):
        return a == b
    return abs(a - b) <= atol + rtol * max(abs(a), abs(b))


def _q(p):
    return p[0] / p[1]


def _ell_from_moments(row):
    """the float formulas of ellipse_from_second_moments_ijv applied to the exact moments"""
    n, ic, jc, a, b, c = [_q(p) for p in row]
    theta = math.atan2(b, c - a) / 2
    temp = math.sqrt(b * b + (a - c) ** 2)
    major = math.sqrt(max(8 * (a + c + temp), 0.0)) * 0.9975 + 0.095
    minor = math.sqrt(max(8 * (a + c - temp), 0.0)) * 0.9975 + 0.095
    ecc = math.sqrt(max(1 - (minor / major) ** 2, 0.0))
    comp = 2 * math.pi * (a + c) / n
    return [ic, jc], ecc, major, minor, theta, comp, temp, a + c


def _angle_close(a, b, tol=1e-7):
    if math.isnan(a) or math.isnan(b):
        return math.isnan(a) and math.isnan(b)
    d = abs(((a - b) + math.pi / 2) % math.pi - math.pi / 2)
    return d < tol


def _compare_scene(tag, margs, m, o):
    """exact models vs implementation on one scene"""
    lab = np.array(margs[0])
    idx = margs[2]
    if isinstance(m, dict):
        return "model error %s" % (m,)
    ar, ext, per, eu, med, ell, skl = m
    for name in ("area", "extent", "perim", "euler", "median", "skel_len"):
        if not isinstance(o.get(name), list):
            return "%s: implementation raised on %s: %s" % (tag, name, o.get(name))
    if [float(v) for v in ar] != o["area"]:
        return "%s: areas differ: impl %s model %s" % (tag, o["area"], ar)
    exp = [float(a) / float(bb) for a, bb in ext]
    if exp != o["extent"]:
        return "%s: extents differ: impl %s model %s" % (tag, o["extent"], ext)
    if not _close([v / 1000.0 for v in per], o["perim"]):
        return "%s: perimeters differ: impl %s model/1000 %s" % (tag, o["perim"], per)
    if [v / 4.0 for v in eu] != o["euler"]:
        return "%s: Euler numbers differ: impl %s model 4W %s" % (tag, o["euler"], eu)
    expm = [(v[0] / 32.0 if v else float("nan")) for v in med]
    if not _close(expm, o["median"], 0.0, 0.0):
        return "%s: medians differ: impl %s model %s" % (tag, o["median"], expm)
    if skl == []:
        return "%s: model skeleton_length gather failed" % tag
    if [v / 16777216.0 for v in skl[0]] != o["skel_len"]:
        return "%s: skeleton lengths differ: impl %s model %s" % (tag, o["skel_len"], skl[0])
    # ellipse: every request list of non-negative labels is defined (round 6: tables of size max(indexes) + 1)
    if ell == 0:
        return "%s: ellipse model could not gather the requested rows (request %s)" % (tag, idx)
    if not isinstance(o.get("ell_center"), list):
        return "%s: implementation raised in ellipse_from_second_moments: %s" % (tag, o.get("ell_center"))
    if ell == 1:
        if any(v != [0.0, 0.0] for v in o["ell_center"]) or any(v != 1.0 for v in o["ell_ecc"]):
            return "%s: ellipse on an empty image: impl %s" % (tag, o["ell_center"])
        return None
    for k, row in enumerate(ell):
        if not row:
            if not all(math.isnan(v) for v in o["ell_center"][k]):
                return "%s: ellipse centre of an absent label is not nan: %s" % (tag, o["ell_center"][k])
            continue
        cen, ecc, major, minor, theta, comp, temp, tr = _ell_from_moments(row)
        got = (o["ell_center"][k], o["ell_major"][k], o["ell_minor"][k], o["ell_comp"][k])
        if not _close([cen, major, comp], [got[0], got[1], got[3]]):
            return "%s: ellipse of label %d: impl %s, from exact moments %s" % (tag, idx[k], got, (cen, major, minor, comp))
        # minor axis / eccentricity / orientation: only where well conditioned
        if tr - temp > 1e-6 * tr and not _close(minor, got[2], 1e-7):
            return "%s: minor axis of label %d: impl %r model %r" % (tag, idx[k], got[2], minor)
        if temp > 1e-6 * max(tr, 1e-300):
            if not _angle_close(theta, o["ell_theta"][k]):
                return "%s: orientation of label %d: impl %r model %r" % (tag, idx[k], o["ell_theta"][k], theta)
            # a collinear object has a + c - temp = 0 up to rounding: minor axis / eccentricity are nan or noise
            if ecc > 0.05 and tr - temp > 1e-6 * tr and not _close(ecc, o["ell_ecc"][k], 1e-6):
                return "%s: eccentricity of label %d: impl %r model %r" % (tag, idx[k], o["ell_ecc"][k], ecc)
    return None


def _compare_mec_feret(idx, hullv, mec, mecvec, sweep, o, run):
    """C14's exact models (per object, vectorised bookkeeping, antipodal sweep) vs the implementation"""
    if isinstance(mec, dict) or isinstance(sweep, dict) or isinstance(mecvec, dict):
        return "%s: MEC / Feret model error %s" % (run, (mec, mecvec, sweep))
    if mecvec is not None and mecvec != mec:
        return "%s: vectorised MEC model differs from the per-object model: %s vs %s" % (run, str(mecvec)[:200], str(mec)[:200])
    if not isinstance(o.get("mec_r"), list):
        return "%s: minimum_enclosing_circle raised %s" % (run, o.get("mec_r"))
    for k, r in enumerate(mec):
        c, rad = o["mec_c"][k], o["mec_r"][k]
        if r[0] == 0:
            if not (all(math.isnan(v) for v in c) and rad == 0):
                return "%s: label %d has no pixel but the circle is %s" % (run, idx[k], (c, rad))
            continue
        if r[0] != 3:
            return "%s: Chrystal model did not finish on label %d (tag %d), hull %s" % (run, idx[k], r[0], hullv[k])
        _, ny, nx, d, rn = r
        want = [ny / d, nx / d, math.sqrt(rn) / abs(d)]
        if not _close(want, [c[0], c[1], rad], 1e-7, 1e-9):
            return "%s: enclosing circle of label %d: impl %s, exact Chrystal model %s" % (run, idx[k], (c, rad), want)
    if "feret_max" in o:
        if not isinstance(o["feret_max"], list):
            return "%s: feret_diameter raised %s" % (run, o["feret_max"])
        for k, w in enumerate(sweep):
            if len(w) != 3:
                return "%s: antipodal sweep model out of fuel on label %d" % (run, idx[k])
            want = [math.sqrt(w[1] / w[2]), math.sqrt(w[0])]
            if not _close(want, [o["feret_min"][k], o["feret_max"][k]], 1e-9, 1e-9):
                return "%s: Feret diameters of label %d: impl %s, exact sweep model %s (hull %s)" % (
                    run, idx[k], (o["feret_min"][k], o["feret_max"][k]), want, hullv[k])
    return None


def _compare_hull_areas_vec(lab, idx, hullv, hav, harea, o, run):
    """the as-written model of calculate_convex_hull_areas: where it raises, and its values"""
    if isinstance(hav, dict):
        return "%s: hull area (as written) model error %s" % (run, hav)
    if hav == []:                               # round 6: the label tables cover max(indexes); never an IndexError
        return "%s: as-written hull area model ran out of its label tables (request %s)" % (run, idx)
    rows = hav[0]
    if harea is not None and rows != harea:
        return "%s: as-written hull area model %s differs from the per-object model %s" % (run, str(rows)[:200], str(harea)[:200])
    if not isinstance(o.get("charea"), list):
        return "%s: calculate_convex_hull_areas raised %s" % (run, o.get("charea"))
    for k, (r, a) in enumerate(zip(rows, o["charea"])):
        want = math.sqrt(r[1] / r[2]) + 1 if r[0] == 2 else r[1] / r[2]
        if not _close(want, a, 1e-9, 1e-12):
            return "%s: convex hull area of label %d: impl %r, as-written model %r (vertices %s)" % (run, idx[k], a, want, hullv[k])
    return None


def compare(case, out, m):
    if _bad(out):
        return "implementation raised/crashed: %s" % (str(out)[:300],)
    if case["fn"] == "idiom":
        exp = [out["bincount"], out["anti"], out["offsets"], out["rev"], out["idx"], out["tidx"]]
        if m != exp:
            for name, a, b in zip(("bincount", "anti_index", "offsets", "rev_idx", "idx", "table_idx"), exp, m):
                if a != b:
                    return "idiom %s: NumPy/centrosome %s, model %s" % (name, str(a)[:200], str(b)[:200])
        return None
    for tag, a in _model_args(case):
        if tag not in m:
            return "model output for scene %s missing" % tag
        d = _compare_scene(tag, a, m[tag], out[tag])
        if d:
            return d
    if "harea" in m and isinstance(out["base"].get("charea"), list):
        for k, (r, a, ar) in enumerate(zip(m["harea"], out["base"]["charea"], out["base"]["area"])):
            if isinstance(r, dict):
                return "hull area model error %s" % (r,)
            want = math.sqrt(r[1] / r[2]) + 1 if r[0] == 2 else r[1] / r[2]
            if not _close(want, a, 1e-9, 1e-12):
                return "convex hull area of label %d: impl %r, per-object model %r (vertices %s)" % (case["idx"][k], a, want, out["hullv"][k])
            sol = out["base"].get("solidity")
            if isinstance(sol, list) and want > 0 and not _close(ar / want, sol[k], 1e-9, 1e-12):
                return "solidity of label %d: impl %r, area / per-object hull area %r" % (case["idx"][k], sol[k], ar / want)
    for tag, key, run in (("hullv", "idx", "base"), ("hullv_perm", "perm", "perm")):
        if "mec_" + tag not in m:
            continue
        d = _compare_mec_feret(case[key], out[tag], m["mec_" + tag], m.get("mecvec_" + tag), m["sweep_" + tag], out[run], run)
        if d:
            return d
    for tag, key, run in (("hullv", "idx", "base"), ("hullv_perm", "perm", "perm"), ("hullv_absent", "absent", "absent")):
        if "hav_" + tag not in m:
            continue
        d = _compare_hull_areas_vec(np.array(case["lab"]), case[key], out[tag], m["hav_" + tag], m.get("harea") if run == "base" else None, out[run], run)
        if d:
            return d
    if "med18" in m and isinstance(m["base"], list) and m["med18"] != m["base"][4]:
        return "median: Model.MedianC18.median_of_labels %s differs from the C13 model %s" % (str(m["med18"])[:200], str(m["base"][4])[:200])
    if "base" in m and isinstance(m["base"], list) and isinstance(m["base"][5], list) and m["base"][5] != m["ellc"]:
        return "ellipse: as-written model %s differs from the coordinate-level model %s" % (str(m["base"][5])[:200], str(m["ellc"])[:200])
    return None


# ----------------------------------------------------------------------------- the property: two-run relations

def _ulps_apart(ma, mb):
    """largest distance, in units in the last place, between the two circles' centre coordinates and radii"""
    fa = [ma[0][0], ma[0][1], ma[1]]
    fb = [mb[0][0], mb[0][1], mb[1]]
    worst = 0.0
    for x, y in zip(fa, fb):
        if x != x or y != y:
            return float("inf")
        if x != y:
            worst = max(worst, abs(x - y) / math.ulp(max(abs(x), abs(y))))
    return worst


ZMARK = "[diagnostic: the two runs' enclosing circles differ in the last place (the former C13-Z pattern)]"


# C13-Z (Zernike vs request order through a 1-ulp enclosing-circle difference) is FIXED in /repo: there is no
# attribute() / reproduce_finding() any more, so nothing can mute a Zernike difference; the diagnostic marker below only
# annotates the clause of the VIOLATION.  The old witness is corpus/C13/zernike_angle_tie.json (always run first).


def _entry(o, name, k):
    v = o.get(name)
    if v is None:
        return None                                   # not called (outside the domain)
    if isinstance(v, dict):
        return v                                      # exception
    return v[k]


def _ill(name, a, b, ctxo, k):
    """ill-conditioned comparisons (excluded, counted by the caller)"""
    return False


def _same(name, a, b, shift=None):
    """compare one measurement entry of two runs"""
    if isinstance(a, dict) or isinstance(b, dict):
        return False
    if name in ANGLE:
        return _angle_close(a, b, 1e-7)
    if shift is not None and name in POS:
        b = [b[0] + shift[0], b[1] + shift[1]]
    tol = RTOL
    if name in ("ell_ecc", "ell_w_ecc", "ell_minor", "ell_w_minor", "zernike"):
        return _close(a, b, 1e-7, 1e-9)
    if name in POS or shift is not None:
        return _close(a, b, tol, 1e-9)
    return _close(a, b, tol, 1e-12)


def _skip_angle(o, name, k):
    """orientation / eccentricity are compared only for clearly elongated ellipses"""
    pre = "ell_w_" if name.startswith("ell_w_") else "ell_"
    e = _entry(o, pre + "ecc", k)
    return not (isinstance(e, float) and e > 0.1)


def _relate(res, tag, oa, ia, ob, ib, names=None, shift=None, counter=None):
    """for every label in both request lists: same entry in both runs"""
    posb = dict((l, k) for k, l in enumerate(ib))
    for name in sorted(set(oa) & set(ob)):
        if names is not None and name not in names:
            continue
        if shift is not None and name in NO_TRANSLATE:
            continue
        if isinstance(oa[name], dict) or isinstance(ob[name], dict):
            e = oa[name] if isinstance(oa[name], dict) else ob[name]
            return "%s: %s raised %s: %s" % (tag, name, e.get("exc"), e.get("msg"))
        for ka, l in enumerate(ia):
            if l not in posb:
                continue
            if name in ANGLE or name in ("ell_ecc", "ell_w_ecc"):
                if _skip_angle(oa, name, ka) or _skip_angle(ob, name, posb[l]):
                    if counter is not None:
                        counter["illcond_" + name] = counter.get("illcond_" + name, 0) + 1
                    continue
            a, b = oa[name][ka], ob[name][posb[l]]
            if name in ("ell_minor", "ell_w_minor") and (a != a or b != b or (a < 0.0951 and b < 0.0951)):
                # degenerate (collinear) object: minor = sqrt(8 (a + c - temp)) with a + c - temp = 0 up to rounding
                if counter is not None and not (a != a and b != b):
                    counter["illcond_" + name] = counter.get("illcond_" + name, 0) + 1
                if (a != a or a < 0.0951) and (b != b or b < 0.0951):
                    continue
            if not _same(name, a, b, shift):
                d = "%s: %s of label %s differs: %r vs %r" % (tag, name, l, a, b)
                if name == "zernike" and isinstance(oa.get("mec_r"), list) and isinstance(ob.get("mec_r"), list):
                    ma = (oa["mec_c"][ka], oa["mec_r"][ka])
                    mb = (ob["mec_c"][posb[l]], ob["mec_r"][posb[l]])
                    if ma != mb and _ulps_apart(ma, mb) <= 8:
                        d += " " + ZMARK + " %r vs %r" % (ma, mb)
                return d
    return None


def _has_angle_tie(h, limit=400):
    """exact integer replay of Chrystal's iteration on the hull (Model/Circle.v's predicates), following every
    choice among tied candidates: is there a step at which two candidate vertices have exactly the same smallest
    angle S0-V-S1 (and the iteration goes on from it)?  That is the root cause of C13-Z."""
    h = [tuple(p) for p in h]
    if len(h) < 3:
        return False

    def dot3(a, b, c):
        return (a[0] - c[0]) * (b[0] - c[0]) + (a[1] - c[1]) * (b[1] - c[1])

    def dist2(a, b):
        return (a[0] - b[0]) ** 2 + (a[1] - b[1]) ** 2

    def sgnsq(d, A):
        return (d > 0) * d * d * A - (d < 0) * d * d * A
    seen, stack = set(), [(0, 1)]
    while stack and len(seen) < limit:
        s0, s1 = stack.pop()
        if (s0, s1) in seen:
            continue
        seen.add((s0, s1))
        S0, S1 = h[s0], h[s1]
        best = []
        for k, v in enumerate(h):
            if k in (s0, s1):
                continue
            d, A = dot3(S0, S1, v), dist2(S0, v) * dist2(S1, v)
            if not best:
                best = [(k, d, A)]
                continue
            lhs, rhs = sgnsq(best[0][1], A), sgnsq(d, best[0][2])
            if lhs < rhs:
                best = [(k, d, A)]
            elif lhs == rhs:
                best.append((k, d, A))
        if not best or best[0][1] <= 0:
            continue
        if len(best) >= 2:
            return True
        k = best[0][0]
        a0, a1 = dot3(S1, h[k], S0), dot3(S0, h[k], S1)
        if a0 >= 0 and a1 >= 0:
            continue
        stack.append((k, s1) if a0 < 0 else (s0, k))
    return False


def _check_scene(case, o, counter):
    """the relations; a C13-Z marker is kept only if the object's hull really has an exact angle tie"""
    d = _check_scene0(case, o, counter)
    if d and ZMARK in d:
        import re
        mm = re.search(r"zernike of label (-?[0-9]+) differs", d)
        hv = o.get("hullv")
        ok = False
        if mm and isinstance(hv, list) and int(mm.group(1)) in case["idx"]:
            ok = _has_angle_tie(hv[case["idx"].index(int(mm.group(1)))])
        if not ok:
            d = d.replace(ZMARK, "[the enclosing circles differ in the last place, but the hull has no exact angle tie]")
    return d


def _check_scene0(case, o, counter):
    idx = case["idx"]
    base = o["base"]
    for name, v in base.items():
        if isinstance(v, dict):
            return "base scene: %s raised %s: %s" % (name, v.get("exc"), v.get("msg"))
    # integer-valued outputs are integers
    for name, q in (("area", 1), ("euler", 4), ("perim", 1000)):
        for v in base[name]:
            if abs(v * q - round(v * q)) > 1e-6:
                return "base scene: %s = %r is not a multiple of 1/%d" % (name, v, q)
    # (b) request order / subsets / absent labels
    for tag in ("perm", "sub", "absent"):
        d = _relate(None, "request list %s %s vs %s" % (tag, case[tag], idx), o[tag], case[tag], base, idx, counter=counter)
        if d:
            return d
    # absent labels give the 'no object' value
    ab = [l for l in case["absent"] if l not in idx]
    for l in ab:
        k = case["absent"].index(l)
        for name, want in (("area", 0.0), ("perim", 0.0), ("euler", 0.0), ("extent", 0.0), ("skel_len", 0.0), ("mec_r", 0.0),
                           ("charea", 0.0)):
            v = _entry(o["absent"], name, k)
            if isinstance(v, dict) or v != want:
                return "absent label %d: %s = %r (expected %r)" % (l, name, v, want)
        v = _entry(o["absent"], "median", k)
        if isinstance(v, dict) or not math.isnan(v):
            return "absent label %d: median = %r (expected nan)" % (l, v)
    # (a) alone / altered
    for l in case["targets"]:
        d = _relate(None, "object %d alone vs in scene" % l, o["alone"][str(l)], [l], base, idx, counter=counter)
        if d:
            return d
    d = _relate(None, "altered scene (kept %s)" % case["keep"], o["alt"], case["keep"], base, idx, counter=counter)
    if d:
        return d
    d = _relate(None, "altered scene, full request list (kept %s)" % case["keep"], o["alt_full"],
                [l if l in case["keep"] else -1 for l in idx], base, idx, counter=counter)
    if d:
        return d
    # (b) renumbering
    mp = dict((a, b) for a, b in case["renum"])
    d = _relate(None, "renumbered %s" % case["renum"], o["renum"], idx, base, idx, counter=counter)
    if d:
        return d
    # (c) translation
    pt, pb, pl, pr = case["pad"]
    d = _relate(None, "zero padding %s" % case["pad"], o["pad"], idx, base, idx, shift=(pt, pl), counter=counter)
    if d:
        return d
    # (d) dtype / layout / request-list type, repeated call, inputs untouched
    if o.get("mutated"):
        return "a measurement modified its input arrays"
    if "again" in o:
        for name in sorted(o["base"]):
            if not _close(o["again"].get(name), o["base"][name], 0.0, 0.0):
                return "second call in the same process: %s differs: %r vs %r" % (name, o["again"].get(name), o["base"][name])
        if not _close(o["har_again"].get("f"), o["har"].get("f"), 0.0, 0.0):
            return "second Haralick call in the same process differs"
    vr = o.get("var")
    if vr:
        vo = dict(vr["o"])
        for name, val in list(vo.items()):
            if isinstance(val, dict):
                return "variant %s: %s raised %s: %s" % (case["var"], name, val.get("exc"), val.get("msg"))
        if "median" in vo:
            vo["median"] = [x / vr["mscale"] for x in vo["median"]]
        if "ell_w_comp" in vo:          # compactness divides by the total intensity: not scale free
            vo["ell_w_comp"] = [x * vr["wscale"] for x in vo["ell_w_comp"]]
        inv = dict((b, a) for a, b in vr["map"])
        d = _relate(None, "variant %s (labels %s)" % (case["var"], vr["map"]), vo, [inv[b] for b in vr["idx"]], base, idx, counter=counter)
        if d:
            return d
    # Haralick
    h = o["har"]
    if "har_var" in o:
        if "exc" in o["har_var"]:
            return "Haralick (variant %s) raised %s: %s" % (case["var"], o["har_var"]["exc"], o["har_var"].get("msg"))
    for tag in ("har", "har_pad", "har_rev"):
        if "exc" in o[tag]:
            return "Haralick (%s) raised %s: %s" % (tag, o[tag]["exc"], o[tag].get("msg"))
    n = len(h["f"])

    def hsame(a, b):
        # H13 = sqrt(1 - exp(-2 (hxy2 - H9))) is ill conditioned when hxy2 ~ H9, H3/H12 are 0/0 for flat objects
        for j, (x, y) in enumerate(zip(a, b)):
            if j in (2, 11, 12):
                if (math.isnan(x) and math.isnan(y)) or _close(x, y, 1e-6, 1e-6):
                    continue
                if j == 12 and (abs(x) < 1e-3 or abs(y) < 1e-3 or math.isnan(x) or math.isnan(y)):
                    counter["illcond_H13"] = counter.get("illcond_H13", 0) + 1
                    continue
                return j
            elif not _close(x, y, RTOL, 1e-10):
                return j
        return None
    for k in range(n):
        if not h["pair"][k]:
            counter["haralick_no_pair"] = counter.get("haralick_no_pair", 0) + 1
            continue
        j = hsame(o["har_pad"]["f"][k], h["f"][k])
        if j is not None:
            return "Haralick H%d of object %d changes under zero padding %s: %r vs %r" % (j + 1, k + 1, case["pad"], o["har_pad"]["f"][k][j], h["f"][k][j])
        if "har_var" in o:
            j = hsame(o["har_var"]["f"][k], h["f"][k])
            if j is not None:
                return "Haralick H%d of object %d differs in variant %s: %r vs %r" % (j + 1, k + 1, case["var"], o["har_var"]["f"][k][j], h["f"][k][j])
        j = hsame(o["har_rev"]["f"][n - 1 - k], h["f"][k])
        if j is not None:
            return "Haralick H%d of object %d changes under renumbering: %r vs %r" % (j + 1, k + 1, o["har_rev"]["f"][n - 1 - k][j], h["f"][k][j])
        al = o["har_alone"].get(str(k + 1))
        if al is not None:
            if "exc" in al:
                return "Haralick (object %d alone) raised %s" % (k + 1, al["exc"])
            j = hsame(al["f"][k], h["f"][k])
            if j is not None:
                return "Haralick H%d of object %d alone differs from in-scene: %r vs %r" % (j + 1, k + 1, al["f"][k][j], h["f"][k][j])
    return None


def check(ctx, cases, outs):
    res = [None] * len(cases)
    counter = {}
    for k, (c, o) in enumerate(zip(cases, outs)):
        if _bad(o):
            res[k] = "implementation raised/crashed: %s" % (str(o)[:300],)
            continue
        if c["fn"] == "idiom":
            continue
        try:
            res[k] = _check_scene(c, o, counter)
        except Exception as e:          # a malformed output is a failure, not a harness error
            res[k] = "checker could not read the implementation's output: %s %s" % (type(e).__name__, e)
    for key, v in counter.items():
        ctx.count(key, v)
    return res


def nontrivial(case, out):
    if case["fn"] != "scene":
        return False
    lab = np.array(case["lab"])
    if len(case["idx"]) < 2:
        return False
    a = (lab[:, 1:] != lab[:, :-1]) & (lab[:, 1:] != 0) & (lab[:, :-1] != 0)
    b = (lab[1:, :] != lab[:-1, :]) & (lab[1:, :] != 0) & (lab[:-1, :] != 0)
    return bool(a.any() or b.any())


def kernel_crosscheck(ctx, cases, outs):
    pick = []
    for k, c in enumerate(cases):
        if c["fn"] == "scene" and not _bad(outs[k]) and len(c["lab"]) * len(c["lab"][0]) <= 36 and max(c["idx"]) < 60:
            pick.append(k)
        if len(pick) >= 24:
            break
    args = [_model_args(cases[k])[0][1] for k in pick]
    exp = ctx.run_model("entry_measure", args)
    r = ctx.coq_eval_eq("Model.MeasureC13", "entry_measure", args, exp, tag="measure")
    bad = [k for k, b in zip(pick, r) if b is not True]
    if bad:
        return "vm_compute evaluation of Model.MeasureC13.entry_measure differs from the extracted program on case %d" % bad[0], len(pick)
    ii = [k for k, c in enumerate(cases) if c["fn"] == "idiom" and not _bad(outs[k])][:30]
    ia = [[cases[k]["labs"], cases[k]["ws"], cases[k]["m"], cases[k]["idxs"], cases[k]["counts"], cases[k]["im"]] for k in ii]
    ie = [[outs[k]["bincount"], outs[k]["anti"], outs[k]["offsets"], outs[k]["rev"], outs[k]["idx"], outs[k]["tidx"]] for k in ii]
    r = ctx.coq_eval_eq("Model.MeasureC13", "entry_idioms", ia, ie, tag="idioms")
    bad = [k for k, b in zip(ii, r) if b is not True]
    if bad:
        return "vm_compute evaluation of entry_idioms differs from NumPy on case %d" % bad[0], len(pick) + len(ii)
    return None, len(pick) + len(ii)


def search_cases(ctx, rnd):
    rng = ctx.rng
    return [_make_scene_case(rng, small=rng.rand() < 0.5, big=False) for _ in range(150)]


_SHRINK_ROUNDS = [0]


def _fix_alt(c):
    """keep a shrunk case consistent: in the altered scene the kept objects have exactly their pixels of the
    scene and no other pixel carries a kept label"""
    lab = np.array(c["lab"], int)
    alt = np.array(c["alt"], int)
    alt[np.isin(alt, c["keep"])] = 0
    c["alt"] = np.where(np.isin(lab, c["keep"]), lab, alt).tolist()
    return c


def shrink_candidates(case):
    # a scene costs ~0.2 s (twelve measurements x ten runs): at most 14 rounds of <= 24 candidates
    _SHRINK_ROUNDS[0] += 1
    if _SHRINK_ROUNDS[0] > 14:
        return
    for k, c in enumerate(_shrink_candidates(case)):
        if k >= 24:
            break
        yield c


def _shrink_candidates(case):
    if case["fn"] != "scene":
        return
    lab = np.array(case["lab"], int)
    H, W = lab.shape

    def sub(rows, cols):
        c = dict(case)
        for key in ("lab", "img", "img2", "sk", "alt"):
            a = np.array(case[key], int)[np.ix_(rows, cols)]
            c[key] = a.tolist()
        l2 = np.array(c["lab"])
        if min(l2.shape) < 2:                         # table_idx_from_labels needs both dimensions >= 2
            return None
        present = [v for v in case["idx"] if (l2 == v).any()]
        if not present:
            return None
        c["idx"] = present
        c["perm"] = [v for v in case["perm"] if v in present]
        c["sub"] = [v for v in case["sub"] if v in present] or present[:1]
        c["absent"] = present + [v for v in case["absent"] if v not in case["idx"]]
        c["targets"] = [v for v in case["targets"] if v in present]
        c["keep"] = [v for v in case["keep"] if v in present] or present[:1]
        c["renum"] = [p for p in case["renum"] if p[0] in present]
        rs = sorted(p for p in case["renum_small"] if p[0] in present)
        c["renum_small"] = [[p[0], k + 1] for k, p in enumerate(sorted(rs, key=lambda p: p[1]))]
        return _fix_alt(c)
    if H > 1:
        for r in (range(0, H // 2), range(H // 2, H)):
            c = sub(list(r), list(range(W)))
            if c:
                yield c
        for y in range(H):
            c = sub([r for r in range(H) if r != y], list(range(W)))
            if c:
                yield c
    if W > 1:
        for r in (range(0, W // 2), range(W // 2, W)):
            c = sub(list(range(H)), list(r))
            if c:
                yield c
        for x in range(W):
            c = sub(list(range(H)), [r for r in range(W) if r != x])
            if c:
                yield c
    if any(case["pad"]):
        c = dict(case)
        c["pad"] = [0, 0, 0, 0]
        yield c
        for k in range(4):
            if case["pad"][k]:
                c = dict(case)
                c["pad"] = [v if j != k else 0 for j, v in enumerate(case["pad"])]
                yield c
    # drop one object
    for l in case["idx"]:
        if len(case["idx"]) < 2:
            break
        c = dict(case)
        for key in ("lab", "sk", "alt"):
            a = np.array(case[key], int)
            a[a == l] = 0
            c[key] = a.tolist()
        c["idx"] = [v for v in case["idx"] if v != l]
        c["perm"] = [v for v in case["perm"] if v != l]
        c["sub"] = [v for v in case["sub"] if v != l] or c["idx"][:1]
        c["absent"] = [v for v in case["absent"] if v != l]
        c["targets"] = [v for v in case["targets"] if v != l]
        c["keep"] = [v for v in case["keep"] if v != l] or c["idx"][:1]
        c["renum"] = [p for p in case["renum"] if p[0] != l]
        rs = [p for p in case["renum_small"] if p[0] != l]
        c["renum_small"] = [[p[0], k + 1] for k, p in enumerate(sorted(rs, key=lambda p: p[1]))]
        yield _fix_alt(c)


MANIFEST = {
    "level_text": (
        "Machine-checked proofs (Coq 8.16) about executable Gallina models of the NumPy label-handling idioms "
        "(bincount, grouped reductions, anti-index tables, cumulative ragged offsets, same-label-as-neighbour bits) "
        "and of the integer/rational-exact measurements built from them (areas, extents, perimeters, Euler number, "
        "median, ellipse central moments, skeleton length): each is per-object independent, follows a renumbering and "
        "the request order. Composed with C02's convex_hull_ijv and C14's Chrystal / calipers models, whole-call "
        "theorems without per-run certificates: the rows emitted for a requested label are the hull of that label's "
        "own pixels; calculate_convex_hull_areas as written (ragged offsets, compaction, modulo wrap) returns, label "
        "by label, the value of the label's own hull and is independent of every other label; the vectorised "
        "Chrystal loop equals the per-object one; the circle is the minimum enclosing circle of the label's pixels; "
        "the maximum Feret diameter is their diameter and the minimum Feret diameter is their minimum width over "
        "ALL directions (min over edges of max cross^2/|edge|^2 = min over u of (projection extent)^2/|u|^2, exact "
        "integers). The models are tied to the code by exact comparison of complete outputs on generated "
        "scenes; for all twelve measurements the three relations of the property are evaluated on the "
        "implementation itself (two-run), on sub-list requests and requests naming absent labels included."),
    "level_note": (
        "Trusted: Coq kernel + vm_compute; extraction and the S-expression driver; the Python harness (the two-run "
        "relations are evaluated in Python: floats never cross into Coq); scipy.ndimage label reductions as "
        "specified; float numerics of the measurements are modelled, not verified."),
    "technique": "Coq proof over executable model + exact differential correspondence + two-run relational check",
    "design_ref": "DESIGN.md section 7, C13",
}


if __name__ == "__main__":          # development bootstrap: write the Gen file from /repo
    import json, subprocess, sys
    here = os.path.dirname(os.path.dirname(os.path.dirname(os.path.abspath(__file__))))
    r = subprocess.run(["/venv/bin/python", "-c", _TABLE_CODE], env=dict(os.environ, PYTHONPATH="/repo"),
                       capture_output=True, text=True, check=True)
    p = os.path.join(here, "coq", "theories", "Gen", "TablesC13.v")
    os.makedirs(os.path.dirname(p), exist_ok=True)
    with open(p, "w") as f:
        f.write(render_tables(json.loads(r.stdout)))
    print("wrote", p)
