"""C10 - the integer earth mover's distance equals the transportation-problem optimum (+ penalty)."""
import json
import os
import numpy as np

ID = "C10"
PROPS_FILE = "theories/Props/C10.v"
EXTRACT = ("theories/Extract/XC10.v", "c10", ["entry_emd", "entry_emdc", "entry_emdl", "entry_emdlf", "entry_asis", "entry_w32", "entry_p32", "entry_cert", "entry_partial", "entry_brute"])
PYX = {"_fastemd.pyx": ["emd_hat_int32"]}
RULE = ("one case = one instance (p, q, c, penalty|None) plus an encoding; the implementation is called through "
        "centrosome.fastemd for all variants: flow type NO_FLOW / WITHOUT_TRANSHIPMENT_FLOW / WITHOUT_EXTRA_MASS_FLOW x gd_metric "
        "off (and on when the generator built c from a metric). Encoding (70% of the generated cases): histograms as "
        "int8/16/32/64, uint8/16/32/64, float32/64 arrays or Python lists (values always representable), contiguous or "
        "strided views; cost matrix in nine dtypes, C / Fortran / strided / transposed / negative-stride layouts; penalty as "
        "int, NumPy int32/int64 or float; keyword or positional call; the arguments must come back unmodified. Shapes 1..7 "
        "(thorough ..12, some ..25), 40% unequal lengths, plus a shape-extreme class (length-1 histograms, 1-2 bins against "
        "up to 20, one side all zero, ties / zeros / upper-triangular asymmetric distances, penalty 0 and penalty < max C); "
        "a large-magnitude class (costs and masses in 2^29..2^31-1 mixed with small ones, 1..3 bins) and the zero-length instance, both fork-isolated; an INT_MAX class (max(C) = 2^31-1 and its neighbour 2^31-2 between empty or occupied bins, with and without regular arcs; each case in a forked process with a 5 s limit); an isolated-bin class (a non-empty bin at distance max C from every non-empty bin of the other histogram, with explicit penalties 0 .. max C - 1); masses 0..50 with many zeros, equal-mass (permuted / rebalanced) and unequal-mass; a near-bound class scaled so that "
        "max(sum P,sum Q)*max C + |sum P - sum Q|*penalty lies in [0.5,1)*2^31 (huge masses or huge distances); ground "
        "distances: |i-j|, thresholded |i-j|, 2-D grid L1, shortest-path closure of a random graph (metrics), symmetric "
        "non-metric, arbitrary, constant, all-zero, 'many entries equal to max' (node removal and pre_flow_cost); penalty "
        "None / 0 / small / about max/2 / large. Tiny class (<=3x3, masses <=4) also against the brute-force enumeration. "
        "Non-trivial = at least 2 non-empty bins on each side, non-constant c, and an optimal flow with >= 2 non-zero "
        "entries; distinct by hash of the case.")
TRUSTED = ["min_cost_flow.hpp is modelled twice: at algorithm level (successive shortest paths with Bellman-Ford; this is the "
           "certified model whose answers are proved correct) and at line level (heap, position table, reduced costs; it "
           "reproduces the implementation's flows exactly and its heap index safety is proved); int is modelled by Z",
           "the Python Bellman-Ford that proposes the dual point (alpha, beta, gamma) is untrusted: the extracted, proved "
           "checker emd_cert_ok verifies it",
           "NumPy int32 conversion of the arguments in the wrapper (np.ascontiguousarray)"]
ASSUMPTIONS = ["no int32 overflow: sum(P)*max(C) + |sum P - sum Q|*penalty < 2^31 (generator bound, stated)",
               "zero-length histograms are accepted by the wrapper (NO_FLOW returns 0): the crash with a flow type is known finding F26",
               "explicit penalties are >= 0 (the value -1 is the C++ sentinel for 'default')",
               "gd_metric=True is only claimed for ground distances that are restrictions of a metric with zero diagonal"]
CASE_TIMEOUT = 60
VARIANTS = [(g, f) for g in (0, 1) for f in (0, 1, 2)]


# ------------------------------------------------------------------------------------------ generator
def _metric_ok(D):
    D = np.asarray(D)
    k = D.shape[0]
    if (np.diag(D) != 0).any() or (D != D.T).any():
        return False
    for a in range(k):
        if (D > D[:, [a]] + D[[a], :]).any():
            return False
    return True


def _gd(rng, n, m, kind):
    k = max(n, m)
    if kind == "line":
        D = np.abs(np.subtract.outer(np.arange(k), np.arange(k)))
    elif kind == "thr":
        D = np.minimum(np.abs(np.subtract.outer(np.arange(k), np.arange(k))), int(rng.randint(1, 4)))
    elif kind == "grid":
        w = int(rng.randint(1, 4))
        ys, xs = np.divmod(np.arange(k), w)
        D = np.abs(np.subtract.outer(ys, ys)) + np.abs(np.subtract.outer(xs, xs))
        if rng.rand() < 0.5:
            D = np.minimum(D, int(rng.randint(1, 4)))
    elif kind == "closure":
        W = rng.randint(1, 12, (k, k)); W = np.minimum(W, W.T); np.fill_diagonal(W, 0)
        for a in range(k):
            W = np.minimum(W, W[:, [a]] + W[[a], :])
        D = W
    elif kind == "sym":
        A = rng.randint(0, 10, (k, k)); D = A + A.T; np.fill_diagonal(D, 0)
    elif kind == "arb":
        D = rng.randint(0, int(rng.choice([3, 10, 40])), (k, k))
    elif kind == "const":
        D = np.full((k, k), int(rng.randint(0, 6)))
    elif kind == "zero":
        D = np.zeros((k, k), int)
    elif kind == "maxy":
        # many entries equal to the maximum: whole rows / columns only reachable through the threshold node
        mx = int(rng.randint(1, 9))
        D = rng.randint(0, mx + 1, (k, k))
        D[rng.rand(k, k) < 0.5] = mx
        for a in range(k):
            if rng.rand() < 0.35:
                D[a, :] = mx
            if rng.rand() < 0.35:
                D[:, a] = mx
    else:
        raise ValueError(kind)
    metric = kind in ("line", "thr", "grid", "closure") and _metric_ok(D)
    return D[:n, :m].astype(int), bool(metric)


METRIC_KINDS = ["line", "thr", "grid", "closure"]
OTHER_KINDS = ["sym", "arb", "arb", "const", "zero", "maxy", "maxy"]


def _hist(rng, n, hi):
    u = rng.rand()
    if u < 0.05:
        return np.zeros(n, int)
    h = rng.randint(0, hi + 1, n)
    if rng.rand() < 0.5:
        h[rng.rand(n) < 0.4] = 0
    return h


def _instance(rng, nmax, hi=50, tiny=False):
    if tiny:
        n, m = int(rng.randint(1, 4)), int(rng.randint(1, 4))
        hi = 4
    else:
        n = int(rng.randint(1, nmax + 1))
        m = n if rng.rand() < 0.6 else int(rng.randint(1, nmax + 1))
    kind = str(rng.choice(METRIC_KINDS if rng.rand() < 0.5 else OTHER_KINDS))
    C, metric = _gd(rng, n, m, kind)
    if tiny:
        C = np.minimum(C, 6)          # min(metric, t) is a metric, restrictions commute with it
    P = _hist(rng, n, hi)
    Q = _hist(rng, m, hi)
    u = rng.rand()
    if u < 0.25 and n == m:
        Q = rng.permutation(P)
    elif u < 0.45 and Q.sum() > 0 and P.sum() > 0:
        # rebalance to equal mass
        d = int(P.sum() - Q.sum())
        if d > 0:
            Q[int(rng.randint(m))] += d
        else:
            P[int(rng.randint(n))] -= d
    mx = int(C.max())
    v = rng.rand()
    if v < 0.4:
        pen = None
    elif v < 0.5:
        pen = 0
    elif v < 0.7:
        pen = int(rng.randint(0, mx + 2))
    elif v < 0.85:
        pen = (mx + 1) // 2
    else:
        pen = int(rng.randint(mx, 3 * mx + 5))
    return {"p": P.tolist(), "q": Q.tolist(), "c": C.tolist(), "pen": pen, "metric": metric, "kind": kind,
            "tiny": bool(tiny)}


def _corpus():
    res = []
    d = os.path.join(os.path.dirname(os.path.dirname(os.path.dirname(os.path.abspath(__file__)))), "corpus", "C10")
    if os.path.isdir(d):
        for f in sorted(os.listdir(d)):
            if f.endswith(".json"):
                with open(os.path.join(d, f)) as fh:
                    x = json.load(fh)
                res.extend(x if isinstance(x, list) else [x])
    return res


def _fixed():
    L = lambda k: np.abs(np.subtract.outer(np.arange(k), np.arange(k))).tolist()
    out = []
    # hand-made edge cases: single bins, all mass on one side, unequal lengths both ways, every row at max
    out.append({"p": [3], "q": [5], "c": [[7]], "pen": None, "metric": False, "kind": "fixed", "tiny": True})
    out.append({"p": [0], "q": [0], "c": [[0]], "pen": None, "metric": True, "kind": "fixed", "tiny": True})
    out.append({"p": [1, 2, 3], "q": [3, 2, 1], "c": L(3), "pen": None, "metric": True, "kind": "fixed", "tiny": True})
    out.append({"p": [4, 0, 0, 2], "q": [1, 1], "c": [r[:2] for r in L(4)], "pen": 3, "metric": True, "kind": "fixed", "tiny": False})
    out.append({"p": [1, 1], "q": [0, 0, 0, 5], "c": L(4)[:2], "pen": None, "metric": True, "kind": "fixed", "tiny": False})
    out.append({"p": [2, 2, 2], "q": [2, 2, 2], "c": [[5, 5, 5], [5, 5, 5], [5, 5, 5]], "pen": 1, "metric": False, "kind": "fixed", "tiny": True})
    out.append({"p": [3, 1, 2], "q": [2, 2, 2], "c": [[0, 9, 9], [9, 0, 9], [1, 9, 0]], "pen": None, "metric": False, "kind": "fixed", "tiny": True})
    out.append({"p": [5, 0, 7], "q": [0, 9, 0], "c": [[2, 6, 1], [6, 6, 6], [3, 6, 4]], "pen": 0, "metric": False, "kind": "fixed", "tiny": False})
    return out


VEC_KINDS = ["int32", "int64", "int16", "int8", "uint8", "uint16", "uint32", "uint64", "float64", "float32", "list"]
MAT_KINDS = ["int32", "int64", "int16", "uint8", "uint16", "uint32", "uint64", "float64", "float32"]
LAYOUTS = ["C", "F", "strided", "T", "neg"]
LIMITS = {"int8": 127, "uint8": 255, "int16": 32767, "uint16": 65535, "float32": 2 ** 24}


def _fits(kind, vals):
    return max([0] + [int(v) for v in vals]) <= LIMITS.get(kind, 2 ** 31 - 1)


def _encode(rng, case):
    """How the arguments are handed to emd_hat_int32: dtype of each argument (values always fit), memory layout of the
    cost matrix and of the histograms, penalty as int / NumPy scalar / float, keywords or positional."""
    flat = [x for r in case["c"] for x in r]
    pk = [k for k in VEC_KINDS if _fits(k, case["p"])]
    qk = [k for k in VEC_KINDS if _fits(k, case["q"])]
    ck = [k for k in MAT_KINDS if _fits(k, flat)]
    case["enc"] = {"p": str(rng.choice(pk)), "q": str(rng.choice(qk)), "c": str(rng.choice(ck)),
                   "lay": str(rng.choice(LAYOUTS)), "pstr": bool(rng.rand() < 0.3), "qstr": bool(rng.rand() < 0.3),
                   "penk": str(rng.choice(["int", "np32", "np64", "float"])), "pos": bool(rng.rand() < 0.3)}
    return case


B31 = 2 ** 31 - 1


def _near_bound(rng):
    """Values scaled so that max(sum P, sum Q) * max C + |sum P - sum Q| * penalty lies in [0.5, 1) * 2^31: either huge
    masses with small distances or huge distances with small masses."""
    c = _instance(rng, 4, hi=9)
    C = np.asarray(c["c"], dtype=object)
    P = [int(x) for x in c["p"]]; Q = [int(x) for x in c["q"]]
    if sum(P) + sum(Q) == 0:
        P[0] = 1
    mode = rng.rand()

    def bound(P, Q, C, pen):
        mx = max([0] + [int(x) for r in C for x in r])
        pv = mx if pen is None else pen
        return max(sum(P), sum(Q)) * max(mx, 1) + abs(sum(P) - sum(Q)) * pv
    pen = c["pen"]
    u = 0.5 + 0.5 * rng.rand()
    if mode < 0.5:      # scale the masses
        w0 = bound(P, Q, C.tolist(), pen)
        g = max(1, int(B31 * u) // max(w0, 1))
        P = [x * g for x in P]; Q = [x * g for x in Q]
        if rng.rand() < 0.5 and g > 10:      # break the common factor a little
            k = int(rng.randint(len(P)))
            if P[k] > 0:
                P[k] -= int(rng.randint(0, 7))
    else:               # scale the distances (and the penalty with them)
        h = 1
        w0 = bound(P, Q, C.tolist(), pen)
        h = max(1, int(B31 * u) // max(w0, 1))
        C = C * h
        if pen is not None:
            pen = min(pen * h, B31)      # the penalty itself is an int32 argument
    Cl = [[int(x) for x in r] for r in C.tolist()]
    while bound(P, Q, Cl, pen) > B31:     # perturbations can only lower it, but stay safe
        P = [x // 2 for x in P]; Q = [x // 2 for x in Q]
    c.update({"p": P, "q": Q, "c": Cl, "pen": pen, "tiny": False, "kind": c["kind"] + "+big"})
    return c


def _shape_extremes(rng, nmax):
    """length-1 histograms, highly unequal lengths, one side all zero, ties / zeros / asymmetry in the distances,
    penalty 0 and penalty below max C."""
    u = rng.rand()
    if u < 0.25:
        n, m = 1, int(rng.randint(1, nmax + 1))
    elif u < 0.5:
        n, m = int(rng.randint(1, nmax + 1)), 1
    elif u < 0.75:
        n, m = int(rng.randint(1, 3)), int(rng.randint(nmax // 2 + 1, nmax + 1))
    else:
        n, m = int(rng.randint(nmax // 2 + 1, nmax + 1)), int(rng.randint(1, 3))
    kind = str(rng.choice(["line", "thr", "arb", "ties", "asym", "zero", "maxy"]))
    if kind == "ties":
        C = rng.randint(0, 3, (n, m)); metric = False
    elif kind == "asym":
        C = np.triu(rng.randint(0, 9, (max(n, m), max(n, m))))[:n, :m]; metric = False
    else:
        C, metric = _gd(rng, n, m, kind)
    P = _hist(rng, n, 30); Q = _hist(rng, m, 30)
    v = rng.rand()
    if v < 0.15:
        P[:] = 0
    elif v < 0.3:
        Q[:] = 0
    mx = int(np.max(C))
    w = rng.rand()
    pen = None if w < 0.3 else 0 if w < 0.55 else int(rng.randint(0, max(mx, 1))) if w < 0.9 else mx + 3
    return {"p": [int(x) for x in P], "q": [int(x) for x in Q], "c": np.asarray(C).astype(int).tolist(), "pen": pen,
            "metric": bool(metric), "kind": "x-" + kind, "tiny": bool(n <= 3 and m <= 3 and max(list(P) + list(Q) + [0]) <= 4)}


def generate(ctx):
    rng = ctx.rng
    cases = _corpus() + _fixed()
    for _ in range(ctx.n(600, 6000)):
        cases.append(_instance(rng, 3, tiny=True))
    for _ in range(ctx.n(1800, 20000)):
        cases.append(_instance(rng, ctx.n(7, 12)))
    for _ in range(ctx.n(40, 1200)):
        cases.append(_instance(rng, ctx.n(12, 25)))
    for _ in range(ctx.n(60, 800)):
        # larger values, small shapes (int32 range respected: 4*2000*2000 + 8000*6000 < 2^31)
        c = _instance(rng, 4, hi=2000)
        c["c"] = (np.asarray(c["c"]) * int(rng.randint(1, 200))).tolist()
        if c["pen"] is not None:
            c["pen"] = int(c["pen"]) * 100
        cases.append(c)
    for _ in range(ctx.n(300, 3000)):
        cases.append(_shape_extremes(rng, ctx.n(9, 20)))
    for _ in range(ctx.n(200, 2000)):
        cases.append(_near_bound(rng))
    # isolated bins (distance max(C) to every non-empty bin of the other histogram: served through the threshold node
    # only, pre_flow_cost) together with an explicit penalty below max(C), including 0 - all flow types, gd_metric on/off
    iso = [{"p": [2, 0], "q": [0, 2], "c": [[0, 4], [4, 0]], "pen": 1, "metric": True, "kind": "isolated", "tiny": True},
           {"p": [2, 0], "q": [0, 2], "c": [[0, 4], [4, 0]], "pen": 0, "metric": True, "kind": "isolated", "tiny": True}]
    for _ in range(ctx.n(150, 1500)):
        n = int(rng.randint(2, ctx.n(6, 9))); m = n if rng.rand() < 0.6 else int(rng.randint(2, ctx.n(6, 9)))
        k = max(n, m)
        mx = int(rng.randint(2, 9))
        met = rng.rand() < 0.5
        if met:   # thresholded line metric: far bins sit at the threshold = max
            D = np.minimum(np.abs(np.subtract.outer(np.arange(k), np.arange(k))), mx)
        else:
            D = rng.randint(0, mx + 1, (k, k)); D.flat[int(rng.randint(k * k))] = mx
        C = D[:n, :m].copy()
        P = rng.randint(0, 6, n); Q = rng.randint(0, 6, m)
        if met:   # mass only at the two ends: every non-empty pair is at distance >= threshold when k > mx
            P[:] = 0; Q[:] = 0; P[0] = int(rng.randint(1, 6)); Q[m - 1] = int(rng.randint(1, 6))
            if rng.rand() < 0.5 and m > 2:
                Q[0] = int(rng.randint(0, 3))
        else:     # make one source row (and sometimes a sink column) all-max against the non-empty bins
            i = int(rng.randint(n)); C[i, :] = int(C.max()); P[i] = int(rng.randint(1, 6))
            if rng.rand() < 0.5:
                j = int(rng.randint(m)); C[:, j] = int(C.max()); Q[j] = int(rng.randint(1, 6))
        mc = int(C.max())
        pen = int(rng.choice([0, 0, 1, max(0, mc - 1), max(0, mc // 2)]))
        metric = bool(met and _metric_ok(D))
        iso.append({"p": [int(x) for x in P], "q": [int(x) for x in Q], "c": C.astype(int).tolist(), "pen": pen,
                    "metric": metric, "kind": "isolated", "tiny": bool(n <= 3 and m <= 3 and max(list(P) + list(Q) + [0]) <= 4)})
    # length-1 histograms and 1x1 / 1xN / Nx1 cost matrices handed over as strided views in every dtype (the class in
    # which np1D_to_vector used to read out of bounds: finding F16, repaired in /repo)
    one = []
    for kp in VEC_KINDS:
        for kc in MAT_KINDS:
            n, m = [(1, 1), (1, int(rng.randint(2, 6))), (int(rng.randint(2, 6)), 1)][int(rng.randint(3))]
            P = [int(x) for x in rng.randint(0, 100, n)]; Q = [int(x) for x in rng.randint(0, 100, m)]
            C = [[int(x) for x in r] for r in rng.randint(0, 100, (n, m))]
            c = {"p": P, "q": Q, "c": C, "pen": None if rng.rand() < 0.5 else int(rng.randint(0, 120)), "metric": False,
                 "kind": "one-strided", "tiny": False,
                 "enc": {"p": kp, "q": str(rng.choice(VEC_KINDS)), "c": kc, "lay": str(rng.choice(["strided", "neg", "T", "F"])),
                         "pstr": True, "qstr": True, "penk": "int", "pos": False}}
            one.append(c)
    one.append({"p": [7], "q": [7], "c": [[3]], "pen": None, "metric": False, "kind": "one-strided", "tiny": True,
                "enc": {"p": "int32", "q": "int32", "c": "int32", "lay": "C", "pstr": True, "qstr": False, "penk": "int", "pos": False}})
    one.append({"p": [7], "q": [7], "c": [[3]], "pen": None, "metric": False, "kind": "one-strided", "tiny": True,
                "enc": {"p": "int32", "q": "int32", "c": "int32", "lay": "strided", "pstr": False, "qstr": True, "penk": "int", "pos": False}})
    # every generated case (not the corpus / fixed ones, which keep the plain int32 C-contiguous call) is handed over in
    # a randomly drawn dtype / layout / calling convention
    k0 = len(_corpus()) + len(_fixed())
    for c in cases[k0:]:
        if rng.rand() < 0.7:
            _encode(rng, c)
    cases.extend(one)
    cases.extend(iso)
    # max(C) = 2^31-1 (finding F21: maxC + 1 wraps for the artificial arcs) and its passing neighbour 2^31-2: the extreme
    # entry between empty bins, between occupied bins, with and without regular arcs.  These cases are run fork-isolated
    # with a short timeout (a hang is an outcome, not a harness failure).
    M = 2 ** 31 - 1
    im = []
    for top in (M, M - 1):
        im += [{"p": [1, 0], "q": [0, 1], "c": [[0, 5], [top, 0]]}, {"p": [1], "q": [1], "c": [[top]]},
               {"p": [1, 0], "q": [0, 1], "c": [[0, top], [top, 0]]}, {"p": [1, 1], "q": [1, 1], "c": [[0, top], [5, 0]]},
               {"p": [1, 0, 0], "q": [0, 0, 1], "c": [[0, 7, top - 1], [7, 0, 9], [top, 9, 0]]},
               {"p": [0, 1], "q": [1, 0], "c": [[top, top], [top - 2, top]]}]
    for _ in range(ctx.n(4, 30)):
        n = int(rng.randint(2, 4)); m = int(rng.randint(2, 4))
        C = rng.randint(0, 9, (n, m)).astype(object)
        P = rng.randint(0, 2, n); Q = rng.randint(0, 2, m)
        if P.sum() == 0: P[0] = 1
        if Q.sum() == 0: Q[0] = 1
        if max(int(P.sum()), int(Q.sum())) > 1:      # keep the answer inside int32: at most one unit may travel far
            P[:] = 0; Q[:] = 0; P[int(rng.randint(n))] = 1; Q[int(rng.randint(m))] = 1
        top = M if rng.rand() < 0.7 else M - 1
        i, j = int(rng.randint(n)), int(rng.randint(m))
        C[i, j] = top
        im.append({"p": [int(x) for x in P], "q": [int(x) for x in Q], "c": [[int(x) for x in r] for r in C.tolist()]})
    for c in im:
        mxc = max(x for r in c["c"] for x in r)
        c.update({"pen": 0 if rng.rand() < 0.5 else None, "metric": False, "kind": "intmax" if mxc == M else "intmax-1",
                  "tiny": False, "intmax": True})
    cases.extend(im)
    # large magnitudes (finding family F25: int32 intermediates overflow although inputs and result fit): costs and
    # masses in 2^29 .. 2^31-1 mixed with small ones, 1..3 bins, fork-isolated with a timeout
    A = 2 ** 30
    big = [{"p": [1, 2], "q": [1, 1], "c": [[1, 1], [A, A + 1]], "pen": 0}, {"p": [1, 2], "q": [1, 1], "c": [[1, 1], [A - 1, A]], "pen": 0},
           {"p": [1, 1], "q": [1, 1], "c": [[10 ** 9, 2 * 10 ** 9], [10 ** 9, 10 ** 9]], "pen": None},
           {"p": [1], "q": [A, A], "c": [[0, 1]], "pen": 0}, {"p": [A, A], "q": [A, A - 1], "c": [[0, 1], [1, 0]], "pen": None},
           {"p": [A - 1, 5], "q": [7, A - 3], "c": [[0, 1], [1, 0]], "pen": 0}]
    def _mag():
        return int(rng.choice([int(rng.randint(0, 4)), int(rng.randint(2 ** 29, 2 ** 31 - 1)), 2 ** 30, 2 ** 31 - 1, 2 ** 29]))
    for _ in range(ctx.n(10, 60)):
        n = int(rng.randint(1, 4)); m = int(rng.randint(1, 4))
        if rng.rand() < 0.5:      # big costs, unit masses
            C = [[_mag() for _ in range(m)] for _ in range(n)]
            P = [int(x) for x in rng.randint(0, 3, n)]; Q = [int(x) for x in rng.randint(0, 3, m)]
        else:                     # big masses, small costs
            C = [[int(x) for x in r] for r in rng.randint(0, 3, (n, m))]
            P = [_mag() for _ in range(n)]; Q = [_mag() for _ in range(m)]
        if sum(P) == 0: P[0] = 1
        if sum(Q) == 0: Q[0] = 1
        big.append({"p": P, "q": Q, "c": C, "pen": 0 if rng.rand() < 0.6 else None})
    for c in big:
        c.update({"metric": False, "kind": "large-magnitude", "tiny": False, "fork": True})
    cases.extend(big)
    # zero-length histograms (accepted by the wrapper: NO_FLOW returns 0; with a flow type it reads vf[0]: finding F26)
    cases.append({"p": [], "q": [], "c": [], "pen": None, "metric": False, "kind": "empty", "tiny": False, "fork": True})
    for c in cases:
        ctx.count("kind:" + c.get("kind", "?"))
        ctx.count("shape:%s" % ("equal" if len(c["p"]) == len(c["q"]) else "unequal"))
        ctx.count("pen:%s" % ("default" if c["pen"] is None else "zero" if c["pen"] == 0 else "explicit"))
        sp, sq = sum(c["p"]), sum(c["q"])
        ctx.count("mass:%s" % ("equal" if sp == sq else "P>Q" if sp > sq else "P<Q"))
        if sp == 0 or sq == 0:
            ctx.count("mass:one side all zero")
        if c.get("metric"):
            ctx.count("gd_metric variants")
        e = c.get("enc")
        if e:
            ctx.count("dtype p:" + e["p"]); ctx.count("dtype q:" + e["q"]); ctx.count("dtype c:" + e["c"])
            ctx.count("layout c:" + e["lay"])
    return cases


# ------------------------------------------------------------------------------------------ implementation
def _enc_vec(vals, kind, strided):
    if kind == "list":
        return [int(v) for v in vals]
    a = np.array(vals, dtype=kind)
    if strided:
        b = np.zeros(2 * len(vals) + 1, dtype=kind)
        b[1::2] = a
        return b[1::2]
    return a


def _enc_mat(vals, n, m, kind, lay):
    a = np.array(vals, dtype=kind).reshape(n, m)
    if lay == "F":
        return np.asfortranarray(a)
    if lay == "strided":
        b = np.full((2 * n + 1, 3 * m + 2), 77, dtype=kind)
        b[1::2, 2::3] = a
        return b[1::2, 2::3]
    if lay == "T":
        return np.ascontiguousarray(a.T).T
    if lay == "neg":
        return np.ascontiguousarray(a[::-1, ::-1])[::-1, ::-1]
    return a


FORK_TIMEOUT = 5


def impl(case):
    if (case.get("intmax") or case.get("fork")) and not os.environ.get("C10_NO_FORK"):
        # fork-isolated with a short timeout: the call may never return (finding F21)
        import subprocess, sys
        env = dict(os.environ); env["C10_NO_FORK"] = "1"
        code = ("import json,sys\nfrom harness.props import c10\n"
                "print(json.dumps(c10.impl(json.loads(sys.argv[1]))))")
        try:
            r = subprocess.run([sys.executable, "-c", code, json.dumps(case)], env=env, capture_output=True, text=True,
                               timeout=FORK_TIMEOUT)
        except subprocess.TimeoutExpired:
            return {"hang": FORK_TIMEOUT}
        if r.returncode != 0:
            return {"crash": "exit %s" % r.returncode, "detail": r.stderr[-300:]}
        return json.loads(r.stdout.strip().splitlines()[-1])
    from centrosome import fastemd as M
    n, m = len(case["p"]), len(case["q"])
    e = case.get("enc") or {"p": "int32", "q": "int32", "c": "int32", "lay": "C", "pstr": False, "qstr": False,
                            "penk": "int", "pos": False}
    p = _enc_vec(case["p"], e["p"], e["pstr"])
    q = _enc_vec(case["q"], e["q"], e["qstr"])
    c = _enc_mat(case["c"], n, m, e["c"], e["lay"])
    pen = case["pen"]
    if pen is not None:
        pen = {"int": int, "np32": np.int32, "np64": np.int64, "float": float}[e["penk"]](pen)
    fts = [M.EMD_NO_FLOW, M.EMD_WITHOUT_TRANSHIPMENT_FLOW, M.EMD_WITHOUT_EXTRA_MASS_FLOW]
    res = []
    for g, f in VARIANTS:
        if g and not case.get("metric"):
            continue
        if e["pos"]:
            r = M.emd_hat_int32(p, q, c, pen, fts[f], bool(g))
        else:
            kw = {}
            if pen is not None:
                kw["extra_mass_penalty"] = pen
            if f:
                kw["flow_type"] = fts[f]
            if g:
                kw["gd_metric"] = True
            r = M.emd_hat_int32(p, q, c, **kw)
        if f == 0:
            res.append([g, f, int(r), None])
        else:
            d, F = r
            F = np.asarray(F)
            res.append([g, f, int(d), F.tolist() if F.shape == (n, m) else {"shape": list(F.shape)}])
    # the arguments must not have been modified
    if not (np.array_equal(np.asarray(p, dtype=object), np.asarray(case["p"], dtype=object))
            and np.array_equal(np.asarray(q, dtype=object), np.asarray(case["q"], dtype=object))
            and np.array_equal(np.asarray(c).astype(object), np.asarray(case["c"], dtype=object).reshape(n, m))):
        return {"v": res, "mutated": True}
    return {"v": res}


def _bad(o):
    return (not isinstance(o, dict)) or "exc" in o or "crash" in o or "v" not in o


def _variants(case):
    return [(g, f) for g, f in VARIANTS if not g or case.get("metric")]


def _margs(case, g, f):
    return [case["p"], case["q"], case["c"], [] if case["pen"] is None else [case["pen"]], f, g]


def _run_models(ctx, cases):
    args, where = [], []
    for k, c in enumerate(cases):
        for g, f in _variants(c):
            args.append(_margs(c, g, f)); where.append(k)
    res = [[] for _ in cases]
    for k, r in zip(where, ctx.run_model("entry_emdc", args)):
        res[k].append(r)
    ll = [[] for _ in cases]
    nflag = 0
    for k, r in zip(where, ctx.run_model("entry_emdlf", args)):
        # (dist F flag): the flag records a hop of an augmenting path between two nodes joined by != 1 arc (in these
        # graphs: through the artificial node) or ending at an unreachable node; the proofs assume it clear
        if isinstance(r, list) and len(r) == 3:
            nflag += 1 if r[2] else 0
            r = r[:2]
        ll[k].append(r)
    pw = [[] for _ in cases]
    nwrap = 0
    # the program model is run on every fork-isolated case and on every case up to 8x8 bins (its cost grows faster
    # than that of the list-based models); the others are counted
    # quick tier: of the in-process cases up to 8x8 bins only every third one (deterministic sample; all of them in
    # the thorough tier); every fork-isolated case always
    quick = getattr(ctx, "tier", "quick") == "quick"
    small = lambda k: len(cases[k]["p"]) * len(cases[k]["q"]) <= 64
    forked = lambda k: bool(cases[k].get("fork") or cases[k].get("intmax"))
    psel = [j for j, k in enumerate(where) if forked(k) or (small(k) and (not quick or k % 3 == 0))]
    ctx.count("as-written program not run (more than 8x8 bins; variants)",
              sum(1 for k in where if not forked(k) and not small(k)))
    ctx.count("as-written program not run (quick-tier sample: 1 case in 3; variants)",
              sum(1 for k in where if not forked(k) and small(k) and quick and k % 3 != 0))
    pres = dict(zip(psel, ctx.run_model("entry_p32", [args[j] for j in psel])))
    for j, k in enumerate(where):
        if j not in pres:
            pw[k].append(None)
            continue
        r = pres[j]
        # (no_wrap status dist F): the FastEMD program (Model/EmdP.v) executed as written for int (wrap32 after every int
        # operation) and the decidable hypothesis no_wrap_b of C10_no_wrap_below_bound evaluated on the exact path
        if isinstance(r, list) and len(r) == 4 and not r[0]:
            nwrap += 1
        pw[k].append(r)
    _run_models.pw = pw
    ctx.count("as-written program runs (variants)", len(psel))
    ctx.count("as-written program runs with no_wrap_b FALSE (some int operation leaves int32)", nwrap)
    ctx.count("line-level model runs (variants)", len(args))
    ctx.count("line-level model runs with the companion flag SET", nflag)
    _run_models.ll = ll
    return res


def model(ctx, cases, outs):
    """Per case: the certified model's (dist, F) for every variant.  entry_emdc only answers when its own full flow
    passed emd_cert_ok inside the model (theorem C10_model_emd_correct), so no separate check of the model's flow."""
    ms = _run_models(ctx, cases)
    kv = _known_verdicts(ctx, cases, outs, dict(enumerate(ms)))
    return [{"r": m, "cert": True, "ll": l, "known": v, "pw": w} for m, l, v, w in zip(ms, _run_models.ll, kv, _run_models.pw)]


INT_MAX = 2 ** 31 - 1


def _max_c(case):
    return max([0] + [int(x) for r in case["c"] for x in r])


def _known_verdicts(ctx, cases, outs, ms=None):
    """Attribution of a failure to a KNOWN finding, by call site (F26) or by the models (F21, F25); None = not attributed.
    F26: len(p) == len(q) == 0 and the process died.  F21: hang, max(C) == 2^31-1, the as-written probe does not finish,
    raises the companion flag and moves no supply.  F25 (int32 intermediate overflow although inputs and result fit int32):
    some int operation of the EXACT run leaves int32 on this input (no_wrap_b false: the decidable hypothesis of
    C10_no_wrap_below_bound fails) and the AS-WRITTEN program (Model.EmdP with wrap32 after every int operation) reproduces
    the implementation's distance and flow on every variant (when it hung: the as-written run does not finish).
    'OOD': the exact distance itself is not representable in int32 (outside the property).  The exact certified model
    must answer every variant in all cases."""
    res = [None] * len(cases)
    idx = []
    for k, (c, o) in enumerate(zip(cases, outs)):
        if not isinstance(o, dict):
            continue
        if len(c["p"]) == 0 and len(c["q"]) == 0:
            if "crash" in o:
                res[k] = "F26"
            continue
        if "hang" in o or (c.get("fork") or c.get("intmax")):
            idx.append(k)
    if not idx:
        return res
    if ms is None:
        ms = dict(zip(idx, _run_models(ctx, [cases[k] for k in idx])))
    wargs, where = [], []
    for k in idx:
        for g, f in _variants(cases[k]):
            wargs.append(_margs(cases[k], g, f)); where.append(k)
    w32 = {k: [] for k in idx}
    nowrap = {k: True for k in idx}
    for k, r in zip(where, ctx.run_model("entry_p32", wargs)):
        # r = (no_wrap status dist F)
        if isinstance(r, list) and len(r) == 4:
            nowrap[k] = nowrap[k] and bool(r[0])
            w32[k].append(r[1:])
        else:
            w32[k].append(r)
    hangs = [k for k in idx if "hang" in outs[k] and _max_c(cases[k]) == INT_MAX]
    probe = dict(zip(hangs, ctx.run_model("entry_asis", [[cases[k]["p"], cases[k]["q"], cases[k]["c"],
                     [] if cases[k]["pen"] is None else [cases[k]["pen"]]] for k in hangs]))) if hangs else {}
    for k in idx:
        c, o, exact = cases[k], outs[k], ms[k]
        vs = _variants(c)
        ok_exact = len(exact) == len(vs) and all(isinstance(r, list) and len(r) == 2 for r in exact)
        if not ok_exact:
            continue
        if any(abs(r[0]) > INT_MAX for r in exact):
            res[k] = "OOD"
            continue
        ws = w32[k]
        if "hang" in o:
            if probe.get(k) == [0, 1, 1]:
                res[k] = "F21"
            elif (not nowrap[k]) and any(isinstance(r, list) and r and r[0] != 0 for r in ws):
                res[k] = "F25"
            continue
        if "v" not in o or len(o["v"]) != len(vs):
            continue
        impl = [[v[2], v[3] if v[1] else []] for v in o["v"]]
        if impl == [[r[0], r[1] if f else []] for (g, f), r in zip(vs, exact)]:
            continue                       # nothing to attribute: the implementation agrees with the exact model
        asw = [[r[1], r[2]] if (isinstance(r, list) and len(r) == 3 and r[0] == 0) else None for r in ws]
        if asw == impl and not nowrap[k]:
            res[k] = "F25"
    return res


def _shape_ok(c, F):
    return isinstance(F, list) and len(F) == len(c["p"]) and all(isinstance(r, list) and len(r) == len(c["q"]) for r in F)


def compare(case, out, mo):
    if mo.get("known"):
        return None          # explained by a known finding (or outside int32): the failure itself is reported by check()
    if isinstance(out, dict) and "hang" in out:
        return "implementation did not return in %s s and the as-written model does not explain it" % out["hang"]
    if _bad(out):
        return "implementation raised/crashed: %s" % (str(out)[:300],)
    m = mo["r"]
    vs = _variants(case)
    if len(m) != len(vs) or len(out["v"]) != len(vs):
        return "variant count differs"
    for (g, f), o, r in zip(vs, out["v"], m):
        if not isinstance(r, list) or len(r) != 2:
            return "certified model gave no answer (out of fuel or its own certificate failed) on variant gd=%d flow=%d: %s" % (g, f, str(r)[:100])
        if r[0] != o[2]:
            return "distance differs on variant gd_metric=%d flow_type=%d: impl %d model %d" % (g, f, o[2], r[0])
    # the as-written program (= the exact one when no_wrap_b holds, C10_no_wrap_below_bound) must return the
    # implementation's distance and flow
    for (g, f), o, r in zip(vs, out["v"], mo.get("pw", [])):
        if isinstance(r, list) and len(r) == 4 and r[0]:
            exp = [0, o[2], o[3] if f else []]
            if r[1:] != exp:
                return "program model (no int operation wraps) differs on variant gd_metric=%d flow_type=%d: impl %s model %s" % (
                    g, f, str(exp)[:160], str(r[1:])[:160])
    # line-level model of min_cost_flow.hpp: same tie-breaking as the code, so the FLOWS must be identical
    for (g, f), o, r in zip(vs, out["v"], mo["ll"]):
        exp = [o[2], o[3] if f else []]
        if r != exp:
            return "line-level model differs on variant gd_metric=%d flow_type=%d: impl %s model %s" % (g, f, str(exp)[:160], str(r)[:160])
    return None


# ------------------------------------------------------------------------------------------ checker
def penalty_value(case):
    """The property text: 'by default the largest ground distance'."""
    if case["pen"] is not None:
        return int(case["pen"])
    return max([0] + [int(x) for r in case["c"] for x in r])


def find_dual(P, Q, C, F):
    """UNTRUSTED: potentials of the residual graph of flow F (Bellman-Ford from a virtual root) turned into a
    dual point (alpha, beta, gamma).  Returns None when a negative cycle remains (F not optimal)."""
    P = np.asarray(P, np.int64); Q = np.asarray(Q, np.int64)
    n, m = len(P), len(Q)
    C = np.asarray(C, np.int64).reshape(n, m); F = np.asarray(F, np.int64).reshape(n, m)
    rs, cs = F.sum(1), F.sum(0)
    BIG = np.int64(1) << 50
    ds, dt = 0, 0
    dr = np.zeros(n, np.int64); dc = np.zeros(m, np.int64)
    back = np.where(F > 0, -C, BIG)
    for _ in range(n + m + 4):
        ods, odt, odr, odc = ds, dt, dr.copy(), dc.copy()
        # s -> i (rowsum < P), i -> s (rowsum > 0)
        dr = np.where(rs < P, np.minimum(dr, ds), dr)
        if (rs > 0).any():
            ds = min(ds, int(dr[rs > 0].min()))
        # i -> j (always), j -> i (F > 0)
        dc = np.minimum(dc, (dr[:, None] + C).min(0))
        dr = np.minimum(dr, (dc[None, :] + back).min(1))
        # j -> t (colsum < Q), t -> j (colsum > 0)
        if (cs < Q).any():
            dt = min(dt, int(dc[cs < Q].min()))
        dc = np.where(cs > 0, np.minimum(dc, dt), dc)
        if ds == ods and dt == odt and (dr == odr).all() and (dc == odc).all():
            al = np.maximum(0, dr - ds); be = np.maximum(0, dt - dc)
            return al.tolist(), be.tolist(), int(dt - ds)
    return None


def _flow_diag(P, Q, C, penv, d, F):
    """Human-readable reason (diagnostic only; the verdict comes from the extracted checker)."""
    P = np.asarray(P, np.int64); Q = np.asarray(Q, np.int64)
    F = np.asarray(F, np.int64); C = np.asarray(C, np.int64)
    if F.shape != C.shape:
        return "flow has shape %s" % (F.shape,)
    if (F < 0).any():
        return "negative flow entry"
    if (F.sum(1) > P).any():
        return "row %d ships more than its supply" % int(np.argmax(F.sum(1) > P))
    if (F.sum(0) > Q).any():
        return "column %d receives more than its demand" % int(np.argmax(F.sum(0) > Q))
    if F.sum() != min(P.sum(), Q.sum()):
        return "flow moves %d units, not min(sum P, sum Q) = %d" % (F.sum(), min(P.sum(), Q.sum()))
    cost = int((F * C).sum() + penv * abs(int(P.sum()) - int(Q.sum())))
    if cost != d:
        return "cost of the returned flow + penalty = %d does not reproduce the returned distance %d" % (cost, d)
    return "flow is feasible and reproduces the distance but is NOT optimal (no dual point of equal value)"


def check(ctx, cases, outs):
    res = [None] * len(cases)
    cert_args, cert_where = [], []
    part_args, part_where = [], []
    brute_args, brute_where = [], []
    kv = _known_verdicts(ctx, cases, outs)
    for k, (c, o) in enumerate(zip(cases, outs)):
        if kv[k] == "OOD":
            continue
        if kv[k]:
            if "hang" in o:
                res[k] = "implementation did not return in %s s on a valid input (max(C) = %d)" % (o["hang"], _max_c(c))
            elif "crash" in o:
                res[k] = "implementation crashed on zero-length histograms with a flow type that returns a flow"
            else:
                res[k] = "implementation returns a wrong value / flow although inputs and result fit int32: %s" % (
                    ", ".join("gd=%d/ft=%d -> %d" % (v[0], v[1], v[2]) for v in o["v"]),)
            continue
        if isinstance(o, dict) and "hang" in o:
            res[k] = "implementation did not return in %s s on a valid input (max(C) = %d)" % (o["hang"], _max_c(c))
            continue
        if len(c["p"]) == 0 and len(c["q"]) == 0 and not _bad(o):
            if any(v[2] != 0 for v in o["v"]):
                res[k] = "distance of two empty histograms is not 0"
            continue
        if _bad(o):
            res[k] = "implementation raised/crashed on a valid input: %s" % (str(o)[:300],)
            continue
        vs = _variants(c)
        if len(o["v"]) != len(vs):
            res[k] = "variant count"; continue
        if o.get("mutated"):
            res[k] = "emd_hat_int32 modified its arguments"; continue
        penv = penalty_value(c)
        ds = set(v[2] for v in o["v"])
        if len(ds) != 1:
            res[k] = "variants disagree on the distance: " + ", ".join(
                "gd_metric=%d/flow_type=%d -> %d" % (v[0], v[1], v[2]) for v in o["v"])
            continue
        for v in o["v"]:
            g, f, d, F = v
            if f == 0:
                continue
            if not isinstance(F, list):
                res[k] = "flow matrix has shape %s, expected (len(p), len(q))" % (F,)
                break
            if f == 2:
                dual = find_dual(c["p"], c["q"], c["c"], F)
                al, be, ga = dual if dual else ([0] * len(c["p"]), [0] * len(c["q"]), 0)
                cert_args.append([c["p"], c["q"], c["c"], penv, d, F, al, be, ga]); cert_where.append((k, g))
            else:
                part_args.append([c["p"], c["q"], c["c"], penv, d, F]); part_where.append((k, g))
        if c.get("tiny") and res[k] is None:
            brute_args.append([c["p"], c["q"], c["c"], penv]); brute_where.append(k)
    for (k, g), a, r in zip(cert_where, cert_args, ctx.run_model("entry_cert", cert_args) if cert_args else []):
        if r != 1 and res[k] is None:
            res[k] = ("full flow (gd_metric=%d, WITHOUT_EXTRA_MASS_FLOW) rejected by the verified checker emd_cert_ok: %s"
                      % (g, _flow_diag(a[0], a[1], a[2], a[3], a[4], a[5])))
    for (k, g), a, r in zip(part_where, part_args, ctx.run_model("entry_partial", part_args) if part_args else []):
        if r != 1 and res[k] is None:
            res[k] = ("partial flow (gd_metric=%d, WITHOUT_TRANSHIPMENT_FLOW) is not within supplies/demands or its cost + "
                      "max(C) per unmoved unit + penalty does not reproduce the distance (Spec.Emd.partial_ok)" % g)
    for k, a, r in zip(brute_where, brute_args, ctx.run_model("entry_brute", brute_args) if brute_args else []):
        d = outs[k]["v"][0][2]
        if res[k] is None and r != [d]:
            res[k] = "distance %d differs from the brute-force minimum over all integral flows %s" % (d, r)
    return res


def attribute(ctx, case, out, clause):
    v = _known_verdicts(ctx, [case], [out])[0]
    return v if v in ("F21", "F25", "F26") else None


def reproduce_finding(ctx, finding):
    out = ctx.run_impl([finding["witness"]])[0]
    return _known_verdicts(ctx, [finding["witness"]], [out])[0] == finding.get("id")


def nontrivial(case, out):
    if _bad(out):
        return False
    if sum(1 for x in case["p"] if x) < 2 or sum(1 for x in case["q"] if x) < 2:
        return False
    if len(set(x for r in case["c"] for x in r)) < 2:
        return False
    for v in out["v"]:
        if v[1] == 2 and isinstance(v[3], list):
            return sum(1 for r in v[3] for x in r if x) >= 2
    return False


def kernel_crosscheck(ctx, cases, outs):
    idx = [k for k, c in enumerate(cases) if not _bad(outs[k]) and len(c["p"]) <= 4 and len(c["q"]) <= 4
           and sum(c["p"]) + sum(c["q"]) <= 60][:30]
    args = [_margs(cases[k], 0, 2) for k in idx] + [_margs(cases[k], 1 if cases[k].get("metric") else 0, 1) for k in idx[:10]]
    exp = ctx.run_model("entry_emdc", args)
    r = ctx.coq_eval_eq("Model.EmdCert", "entry_emdc", args, exp, tag="emd")
    bad = [k for k, b in zip(idx + idx[:10], r) if b is not True]
    if bad:
        return "vm_compute evaluation of Model.EmdCert.entry_emdc differs from the extracted program on case %d" % bad[0], len(args)
    largs = args[:20]
    lexp = ctx.run_model("entry_emdl", largs)
    r = ctx.coq_eval_eq("Model.EmdMcf", "entry_emdl", largs, lexp, tag="emdl")
    if not all(b is True for b in r):
        return "vm_compute evaluation of Model.EmdMcf.entry_emdl differs from the extracted program", len(args)
    pargs = args[:12]
    pexp = ctx.run_model("entry_p32", pargs)
    r = ctx.coq_eval_eq("Model.EmdP", "entry_p32", pargs, pexp, tag="p32")
    if not all(b is True for b in r):
        return "vm_compute evaluation of Model.EmdP.entry_p32 differs from the extracted program", len(args)
    # the checker itself: kernel evaluation must accept what the extracted checker accepted
    cargs = []
    for k in idx:
        c = cases[k]
        v = [v for v in outs[k]["v"] if v[0] == 0 and v[1] == 2][0]
        dual = find_dual(c["p"], c["q"], c["c"], v[3])
        if dual:
            cargs.append([c["p"], c["q"], c["c"], penalty_value(c), v[2], v[3], dual[0], dual[1], dual[2]])
    exp = ctx.run_model("entry_cert", cargs)
    r = ctx.coq_eval_eq("Spec.Emd", "entry_cert", cargs, exp, tag="cert")
    if not all(b is True for b in r):
        return "vm_compute evaluation of Spec.Emd.entry_cert differs from the extracted checker", len(args) + len(cargs)
    return None, len(args) + len(cargs)


def search_cases(ctx, rnd):
    rng = ctx.rng
    cases = []
    for _ in range(300):
        cases.append(_instance(rng, 3, tiny=True))
    for _ in range(500):
        cases.append(_instance(rng, 6 + 2 * rnd))
    return cases


def shrink_candidates(case):
    p, q, c = case["p"], case["q"], case["c"]
    n, m = len(p), len(q)

    def mk(p2, q2, c2, pen=case["pen"], keep_metric=False):
        d = dict(case); d.update({"p": p2, "q": q2, "c": c2, "pen": pen})
        if not case.get("metric"):
            d["metric"] = False
        elif not keep_metric:
            d["metric"] = len(p2) == len(q2) and _metric_ok(np.asarray(c2))
        d["tiny"] = len(p2) <= 3 and len(q2) <= 3 and max(p2 + q2 + [0]) <= 4
        return d
    if case.get("enc"):
        d0 = dict(case); d0.pop("enc"); yield d0
    if case.get("metric"):
        # keep "c is the top-left block of a metric": drop a point from both sides, or the last row / column
        for i in range(min(n, m)):
            if n > 1 and m > 1:
                yield mk(p[:i] + p[i + 1:], q[:i] + q[i + 1:], [r[:i] + r[i + 1:] for r in c[:i] + c[i + 1:]], keep_metric=True)
        if n > 1:
            yield mk(p[:-1], q, c[:-1], keep_metric=True)
        if m > 1:
            yield mk(p, q[:-1], [r[:-1] for r in c], keep_metric=True)
    for i in range(n):
        if n > 1:
            yield mk(p[:i] + p[i + 1:], q, c[:i] + c[i + 1:])
    for j in range(m):
        if m > 1:
            yield mk(p, q[:j] + q[j + 1:], [r[:j] + r[j + 1:] for r in c])
    if case["pen"] is not None:
        yield mk(p, q, c, None, keep_metric=True)
    if max(p + q) > 1:
        yield mk([x // 2 for x in p], [x // 2 for x in q], c, keep_metric=True)
    for i in range(n):
        if p[i] > 0:
            yield mk(p[:i] + [p[i] - 1] + p[i + 1:], q, c, keep_metric=True)
    for j in range(m):
        if q[j] > 0:
            yield mk(p, q[:j] + [q[j] - 1] + q[j + 1:], c, keep_metric=True)
    mx = max(x for r in c for x in r)
    if mx > 1:
        yield mk(p, q, [[x // 2 for x in r] for r in c])
    for i in range(n):
        for j in range(m):
            if c[i][j] > 0:
                c2 = [list(r) for r in c]; c2[i][j] -= 1
                yield mk(p, q, c2)


MANIFEST = {
    "level_text": (
        "Machine-checked proofs (Coq 8.16, 67 theorems, all closed under the global context). (a) The extracted certificate "
        "checker emd_cert_ok is sound for all sizes and inputs: acceptance of (P, Q, C, penalty, d, F, alpha, beta, gamma) "
        "implies that d is exactly the transportation optimum plus penalty*|sum P - sum Q| of the property text (also against "
        "fractional flows) and that F is a feasible integral flow whose cost reproduces d; the value is unique; zero padding "
        "and, for metric ground distances, the diagonal pre-flow of emd_hat_gd_metric do not change the optimum; an accepted "
        "partial flow is a sub-flow of an optimal transport. The checker is evaluated on the implementation's own full-flow "
        "output for every generated instance and variant (dual point found by an untrusted Bellman-Ford), and the no-flow, "
        "partial-flow and gd_metric variants must return the same value. (b) Two executable Gallina models are compared with "
        "the freshly built implementation on the same instances: an algorithm-level model that certifies its own answer "
        "(every answer it gives is proved to be the earth mover's distance; that it always answers is observed), and a "
        "LINE-LEVEL model of min_cost_flow.hpp (array heap, position table, reduced costs, pair-addressed capacity updates) on "
        "top of the transcribed wrapper / graph reduction / read-back, which reproduces the implementation's distance AND flow "
        "matrices exactly in every run. About the line-level solver it is proved: heap index safety, position-table "
        "consistency, heap order and root minimum, the Dijkstra post-condition at the early exit, tightness of the predecessor "
        "arcs, ghost node potentials (forward/backward entries of an arc carry opposite reduced costs) along the whole run, and "
        "- under a run-time flag that the model records and the correspondence evaluates for every case (never set) - that all "
        "residual arcs keep reduced cost >= 0 through every iteration, so that the final capacities satisfy complementary "
        "slackness, that the capacity flow is conserved, and hence (generic min-cost-flow certificate instantiated with the "
        "ghost potentials) that at the end the capacity flow, indexed by arcs, is a MINIMUM-COST flow of the reduced graph; "
        "fuel sufficiency; the book-keeping of transform_flow_to_regular. The pair addressing of augment is proved "
        "wrong on graphs with anti-parallel arcs (kernel-evaluated non-terminating witness) and such graphs are proved "
        "unreachable through emd_hat_impl's construction except at the artificial node."),
    "level_note": (
        "Trusted: Coq kernel + vm_compute; extraction (ExtrOcamlBasic only) and the S-expression driver; the Python harness. "
        "NOT proved (named in Props/C10.v): that the graph reduction is value-preserving (graph_reduction_correct_on); that the run never fails (mcf_no_fail_if_flag_clear: the augmentation half is proved, C10_mcf_no_fail_if_flag_clear_partial - a step with a clear flag fails only if compute_shortest_path returns None; csp_total is open); "
        "that the artificial node is never used (the flag is never set: checked per case, 0 of ~150 000 runs). The "
        "end-to-end statement therefore still rests on the certificate computed inside the algorithm-level model and on the "
        "per-case certificate check of the implementation's output. int is modelled by Z; int32 overflow of the answer is "
        "excluded by generator bounds. KNOWN FINDINGS, none excluded, all generated in every run in forked processes with a 5 s limit: F25 = int32 "
        "intermediate overflow in FastEMD although every input entry and the true result fit int32 (wrong distance, flow "
        "whose cost does not reproduce it, variants disagreeing, or a call that never returns); F21 = its member max(C) = "
        "2^31-1 (maxC + 1 wraps for the artificial arcs; emd_hat_int32([1,0],[0,1],[[0,5],[2147483647,0]]) never returns, "
        "expected 5); F26 = SIGSEGV on zero-length histograms with a flow type that returns a flow (NO_FLOW returns 0). "
        "Attribution is by model, never by a blanket mute: F25 only if the AS-WRITTEN model (Model/EmdW.v: the whole pipeline "
        "with wrap32 on every int operation) differs from the exact model on that input and reproduces the implementation's "
        "distance and flow on every variant (or does not finish, for a hang); F21 by the as-written probe; F26 by call site "
        "(len 0 and the process dies). Everything else that hangs, crashes or disagrees is a violation. The theorems about "
        "optimality speak about the exact (Z-valued) models; the link to the int32 code is C10_no_wrap_below_bound (proved, all "
        "inputs): Model/EmdP.v is the whole pipeline as a program over int operations, and whenever the decidable hypothesis "
        "no_wrap_b holds (every int operation of the exact run is representable) executing it as written for int gives exactly "
        "the exact result. no_wrap_b is evaluated for every case and variant (true for ~98.8% of them); there the as-written "
        "program must return the implementation's distance and flow, and F25 may only be claimed where it is false. "
        "C10_prog_equals_ll (proved): the exact run of that program IS the line-level model the optimality theorems are "
        "about, so the chain int32 code as written = program model (correspondence) = exact program = line-level model is "
        "closed; composed at the solver level without open premise (C10_mcf_int32_returns_min_cost: below the bound and "
        "with the flag clear, the number min_cost_flow as written returns is THE MINIMUM COST of the graph it was given - "
        "the x lists carry the capacity flow, C10_x_caps_consistent, and their cost is its cost, "
        "C10_mcf_dist_is_capflow_cost) and end to end down to the reduced graph (C10_emd_int32_dist_below_bound, full: d = "
        "pre-flow cost + minimum cost of the reduced graph + |sum P - sum Q| * penalty, the reduced graph being well formed, "
        "C10_reduce_wf; read_back cell by cell = net capacity flow, C10_read_back_net_capacity). "
        "C10_emd_int32_correct_below_bound_partial now has exactly two premises left: flag "
        "clear (per case) and graph_reduction_correct_on, a statement about the graph reduction of emd_hat_impl.hpp alone "
        "(thresholding via the transhipment node, dropped bins, swap, padding, metric pre-flow are value-preserving; no "
        "solver, no int32) - open, so the end-to-end statement still rests on the certificates. In the quick tier the program model is "
        "run on every fork-isolated case and on one in three of the other cases up to 8x8 bins; on all of them in the "
        "thorough tier."),
    "technique": "Coq proof of a certificate checker run on the implementation's output + two executable models (certifying, and line-level with exact flow correspondence) + run-time-checked hypothesis flag",
    "design_ref": "DESIGN.md section 7, C10",
}
