"""C15 - label-graph utilities agree with their graph-theoretic definitions
(euler_number, find_neighbors, color_labels, all_connected_components, relabel)."""
import numpy as np

ID = "C15"
PROPS_FILE = "theories/Props/C15.v"
ENTRIES = ["entry_relabel", "entry_neighbors", "entry_colors", "entry_euler", "entry_acc",
           "entry_check_euler", "entry_check_neighbors", "entry_check_colors", "entry_check_relabel",
           "entry_check_acc", "entry_reduce"]
EXTRACT = ("theories/Extract/XC15.v", "c15", ENTRIES)
PYX = {"_cpmorphology2.pyx": ["_all_connected_components"]}
RULE = ("label images: shapes skewed to 1x1, 1xN, Nx1, 2x2, 3x3 and up to 12x12 (thorough 16x16); contents from random "
        "labels at several densities, connected components of noise with random renumbering, rings and nested rings "
        "(holes), split labels, objects on the border, checkerboards, and fully tiled images without any background "
        "pixel (random tiles, blocks, stripes, one object); numbering plain / absent numbers (x2,x3,x7) / sparse up to "
        "300, 5000, 60000 / largest label at a dtype maximum (127, 255, 32767, 65535); every integer dtype that holds "
        "the labels (int8..int64, uint8..uint64; bool for euler_number's binary mode), C / Fortran / strided / "
        "read-only layouts; every image goes through relabel, find_neighbors, color_labels and euler_number; "
        "euler_number indexes as list, tuple, int32/int64/uint8/uint16/uint32 arrays, scalar and None, sorted, "
        "shuffled, with duplicates and absent labels. Edge lists: random multigraphs with self-loops, duplicates and "
        "isolated vertices, stars, cycles, shuffled and sorted chains up to 3000 vertices (thorough 50000: deep "
        "traversal), vertex numbers up to 100000 (thorough 400000) with few edges, in int64/int32/uint32/uint64/"
        "int16/uint8, contiguous / strided / read-only. Every case is called twice in the same worker process "
        "(results must agree, input arrays must come back unmodified) and the functions are interleaved in random "
        "order within one process. Non-trivial = an image with two touching labels or a hole, a graph with an edge "
        "joining two different vertices; distinct by hash")
TRUSTED = ["modelled, not verified: NumPy/SciPy array semantics used by the Python code (np.unique, lexsort, fancy "
           "indexing, scipy.ndimage.sum/minimum_filter/maximum_filter) as transcribed in Model/LabelGraph.v; dtype "
           "promotion / wrap-around is not modelled (labels are Z) - it is exercised by the correspondence over "
           "every integer dtype incl. labels at the dtype maximum",
           "the stack array stack_v[0..stack_ptr) of _all_connected_components is modelled as a list; uint32 "
           "UNDEFINED = -1 is modelled as an absent map entry; the C arrays are PositiveMap-backed",
           "euler = components - holes: Full (C15_euler_reducible_topological, importing C05's simple_removal_topo / "
           "topo_counts) for every image that reduces to the empty image by deletions of simple pixels and isolated "
           "points, simple fillings and closing of one-pixel holes; membership in that class is certified per case by "
           "the extracted, verified search reduce_label (evidence: euler_certified_reducible / euler_not_certified); the "
           "hole-free labels and labels with single-pixel holes are proved reducible for every size (C05's end-pixel "
           "lemma imported) and euler_spec is proved equal to the plane counts; for EVERY image the equality is proved by "
           "induction over the pixels in raster order from ONE unproved premise, the existence half of the digital Jordan "
           "lemma at the raster-last pixel (C15_euler_all_images_partial; the separation half is C05's "
           "sep_not_connected, imported) - Partial for that reason only; the inequality 4 (components - holes) <= 4 W is "
           "proved for every image without that premise (C15_euler_lower_bound); Finite sweeps cover all small images; the executable flood-fill definition euler_spec is evaluated on every generated case too",
           "the spanning-forest certificate for all_connected_components is computed by the Python harness but only "
           "verified by the extracted Spec.LabelGraph.acc_cert_ok (soundness proved), so it is not trusted"]
ASSUMPTIONS = ["labels are non-negative integers; label images are rectangular and non-empty",
               "vertex numbers are non-negative and below 2^32 - 1; fewer than 2^32 edges (vertex numbers near 2^31 are not "
               "run: the label array alone would need > 8 GB)",
               "relabel is not run on uint64 images (TypeError on the unchanged tree, findings/C15.json candidate C15-obs1)"]
EXHAUSTIVE = {"quick": False, "thorough": False}
CASE_TIMEOUT = 120

IMG_FNS = ["relabel", "neighbors", "colors", "euler"]
DTYPES = ["int64", "int64", "int64", "int32", "uint8", "uint16"]


# ------------------------------------------------------------------------------- generators

def _shape(rng, big):
    u = rng.rand()
    if u < 0.06:
        return 1, 1
    if u < 0.14:
        return 1, int(rng.randint(2, big + 1))
    if u < 0.22:
        return int(rng.randint(2, big + 1)), 1
    if u < 0.30:
        return 2, 2
    if u < 0.40:
        return 3, 3
    return int(rng.randint(2, big + 1)), int(rng.randint(2, big + 1))


def _image(rng, big):
    import scipy.ndimage as nd
    h, w = _shape(rng, big)
    kind = rng.choice(["rand", "rand", "blobs", "rings", "split", "check", "full", "zero", "border"])
    if kind == "rand":
        k = int(rng.choice([1, 2, 3, 5, 9]))
        lab = rng.randint(0, k + 1, (h, w)) * (rng.rand(h, w) < rng.choice([0.3, 0.6, 0.9, 1.0]))
    elif kind == "blobs":
        m = rng.rand(h, w) < rng.choice([0.3, 0.5, 0.7])
        lab, n = nd.label(m, np.ones((3, 3), bool) if rng.rand() < 0.5 else None)
        if n:
            perm = np.hstack([[0], rng.permutation(n) + 1])
            lab = perm[lab]
    elif kind == "rings":
        lab = np.zeros((h, w), int)
        l = 1
        for d in range(0, min(h, w) // 2 + 1, int(rng.choice([1, 2]))):
            if h - 2 * d <= 0 or w - 2 * d <= 0:
                break
            lab[d:h - d, d:w - d] = l if rng.rand() < 0.8 else 0
            l = l + 1 if rng.rand() < 0.6 else (0 if l else 1)
        if rng.rand() < 0.5:
            lab = lab * (rng.rand(h, w) < 0.92)
    elif kind == "split":
        lab = rng.randint(0, 3, (h, w)) * (rng.rand(h, w) < 0.5)
    elif kind == "check":
        yy, xx = np.mgrid[0:h, 0:w]
        lab = ((yy + xx) % 2) * (1 + (yy % 2) * int(rng.randint(0, 2)))
    elif kind == "full":
        lab = np.full((h, w), int(rng.randint(1, 4)))
        if rng.rand() < 0.5 and h > 2 and w > 2:
            lab[int(rng.randint(1, h - 1)), int(rng.randint(1, w - 1))] = int(rng.randint(0, 3))
    elif kind == "zero":
        lab = np.zeros((h, w), int)
    else:
        lab = np.zeros((h, w), int)
        lab[0, :] = 1; lab[-1, :] = int(rng.randint(1, 3)); lab[:, 0] = int(rng.randint(1, 4)); lab[:, -1] = 2
        lab[1:-1, 1:-1] = rng.randint(0, 5, (max(h - 2, 0), max(w - 2, 0))) * (rng.rand(max(h - 2, 0), max(w - 2, 0)) < 0.4)
    lab = np.asarray(lab, int)
    if rng.rand() < 0.25:
        lab = lab * int(rng.choice([2, 3, 7]))           # absent label numbers
    return lab


INT_DTYPES = ["int8", "int16", "int32", "int64", "uint8", "uint16", "uint32", "uint64"]
LAYOUTS = ["C", "C", "F", "strided", "ro"]
IDX_KINDS = ["list", "list", "int32", "int64", "uint8", "uint16", "uint32", "tuple"]


def _tiled(rng, big):
    """label images without any background pixel"""
    h, w = _shape(rng, big)
    kind = rng.choice(["rand", "blocks", "stripes", "one"])
    if kind == "rand":
        return rng.randint(1, int(rng.choice([2, 3, 5, 9])) + 1, (h, w))
    if kind == "blocks":
        by, bx = int(rng.randint(1, 4)), int(rng.randint(1, 4))
        yy, xx = np.mgrid[0:h, 0:w]
        lab = (yy // by) * ((w + bx - 1) // bx) + (xx // bx) + 1
        if rng.rand() < 0.5:
            lab = rng.permutation(int(lab.max()) + 1)[lab] + 1
        return lab
    if kind == "stripes":
        yy, xx = np.mgrid[0:h, 0:w]
        return (yy if rng.rand() < 0.5 else xx) // int(rng.randint(1, 3)) % int(rng.randint(2, 5)) + 1
    return np.full((h, w), int(rng.randint(1, 6)))


def _renumber(rng, lab, pbig=1.0):
    """numbering variants: as is / absent numbers / sparse numbering up to 60000 / largest label at a dtype maximum"""
    lab = np.asarray(lab, int)
    mx = int(lab.max())
    u = rng.rand()
    if mx == 0 or u < 0.55:
        return lab, "plain"
    if u < 0.70:
        return lab * int(rng.choice([2, 3, 7])), "absent"
    if u < 0.85:
        top = int(rng.choice([300, 300, 5000, 60000]))
        if top > 10000 and rng.rand() >= pbig:
            top = 5000
        if top > 10000:
            lab = lab[:6, :6]; mx = int(lab.max())
            if mx == 0:
                return lab, "plain"
        tab = np.hstack([[0], np.sort(rng.choice(np.arange(1, top + 1), mx, replace=False))])
        return tab[lab], "sparse%d" % top
    top = int(rng.choice([127, 127, 255, 255, 32767, 65535]))
    if top > 10000 and rng.rand() >= pbig:
        top = 255
    if top > 10000:
        lab = lab[:6, :6]; mx = int(lab.max())
    if mx >= top or mx == 0:
        return lab, "plain"
    tab = np.arange(mx + 1); tab[mx] = top
    return tab[lab], "dtype_max_%d" % top


def _img_cases(rng, lab, pbig=1.0):
    lab, num = _renumber(rng, lab, pbig)
    mx = int(lab.max())
    ok = [d for d in INT_DTYPES if np.iinfo(d).max >= mx]
    if num.startswith("dtype_max"):
        ok = [d for d in ok if np.iinfo(d).max == mx] or ok
    img = lab.tolist()
    cases = []
    for f in ("relabel", "neighbors", "colors", "euler"):
        dt = str(rng.choice(ok))
        c = {"fn": f, "img": img, "dt": dt, "lay": str(rng.choice(LAYOUTS)), "num": num}
        if f == "relabel" and dt == "uint64":
            # relabel rejects uint64 label images on the unchanged tree (TypeError: max()+1 is a float); excluded, counted
            c["dt"] = "uint32" if mx <= 4294967295 else "int64"
            c["excl"] = "relabel_uint64"
        if f == "euler":
            u = rng.rand()
            if u < 0.15:
                c["idx"], c["ik"] = None, "none"
                if rng.rand() < 0.5:
                    c["dt"] = "bool"
                    c["img"] = [[1 if v else 0 for v in r] for r in img]
            elif u < 0.25:
                c["idx"], c["ik"] = int(rng.randint(1, mx + 3)), "scalar"
            else:
                if u < 0.55:
                    idx = list(range(1, min(mx, 40) + 2))
                    if rng.rand() < 0.4:
                        rng.shuffle(idx)
                else:
                    pres = [int(x) for x in np.unique(lab[lab > 0])] or [1]
                    idx = [int(rng.choice(pres)) if rng.rand() < 0.7 else int(rng.randint(1, mx + 3))
                           for _ in range(int(rng.randint(1, 6)))]
                ik = str(rng.choice(IDX_KINDS))
                if ik.startswith("uint") and max(idx) > np.iinfo(ik).max:
                    ik = "int64"
                c["idx"], c["ik"] = idx, ik
        cases.append(c)
    return cases


ACC_DTYPES = ["int64", "int64", "int32", "uint32", "uint64", "int16", "uint8"]


def _acc_case(rng, i, j):
    mx = max(i + j) if i else 0
    ok = [d for d in ACC_DTYPES if np.iinfo(d).max >= mx]
    return {"fn": "acc", "i": i, "j": j, "dt": str(rng.choice(ok)), "lay": str(rng.choice(["C", "C", "strided", "ro"]))}


def _graph(rng, chain_max):
    kind = rng.choice(["rand", "rand", "rand", "sparse", "loops", "star", "cycle", "chain", "chain_sorted", "both",
                       "empty"])
    if kind == "empty":
        return [], []
    if kind in ("rand", "loops", "both"):
        nv = int(rng.randint(1, 14)); ne = int(rng.randint(1, 18))
        i = rng.randint(0, nv, ne); j = rng.randint(0, nv, ne)
        if kind == "loops":
            k = rng.rand(ne) < 0.4
            j[k] = i[k]
        if kind == "both":
            i, j = np.hstack([i, j]), np.hstack([j, i])
        if rng.rand() < 0.3:                      # duplicates
            i, j = np.hstack([i, i[: ne // 2]]), np.hstack([j, j[: ne // 2]])
        return i.tolist(), j.tolist()
    if kind == "sparse":                          # many isolated vertices
        nv = int(rng.randint(5, 60)); ne = int(rng.randint(1, 6))
        return rng.randint(0, nv, ne).tolist(), rng.randint(0, nv, ne).tolist()
    if kind == "star":
        nv = int(rng.randint(2, 40)); c = int(rng.randint(0, nv))
        o = [v for v in range(nv) if v != c]
        rng.shuffle(o)
        return ([c] * len(o), o) if rng.rand() < 0.5 else (o, [c] * len(o))
    if kind == "cycle":
        nv = int(rng.randint(2, 40)); p = rng.permutation(nv)
        return p.tolist(), np.roll(p, 1).tolist()
    n = int(rng.choice([2, 5, 30, 200, chain_max]))
    p = np.arange(n) if kind == "chain_sorted" else rng.permutation(n)
    i, j = p[:-1], p[1:]
    if rng.rand() < 0.5:
        o = rng.permutation(n - 1); i, j = i[o], j[o]
    if rng.rand() < 0.3 and n > 4:                # cut the chain in pieces
        keep = rng.rand(n - 1) < 0.9; keep[0] = True
        i, j = i[keep], j[keep]
    return i.tolist(), j.tolist()


CORPUS_IMAGES = [
    [[1]], [[0]], [[1, 2]], [[1, 0, 1]], [[1, 1, 1], [1, 0, 1], [1, 1, 1]],
    [[1, 0], [0, 1]], [[1, 2], [2, 1]], [[0, 1], [1, 0]], [[1, 0], [0, 2]],
    [[1, 1, 1, 1, 1], [1, 0, 0, 0, 1], [1, 0, 2, 0, 1], [1, 0, 0, 0, 1], [1, 1, 1, 1, 1]],
    [[1, 1, 1, 1, 1], [1, 2, 2, 2, 1], [1, 2, 3, 2, 1], [1, 2, 2, 2, 1], [1, 1, 1, 1, 1]],
    [[3, 0, 3], [0, 0, 0], [3, 0, 6]], [[1, 2, 3, 4], [5, 6, 7, 8], [9, 10, 11, 12]],
    [[1, 0, 1, 0, 1], [0, 2, 0, 2, 0], [1, 0, 1, 0, 1]],
    [[1, 1, 0, 2, 2], [1, 0, 0, 0, 2], [0, 0, 3, 0, 0], [4, 0, 0, 0, 5], [4, 4, 0, 5, 5]],
    [[2, 2, 2], [2, 1, 2], [2, 2, 2]], [[0, 1, 0], [1, 0, 1], [0, 1, 0]],
]
CORPUS_GRAPHS = [
    ([0], [0]), ([0], [1]), ([3], [3]), ([5], [2]), ([0, 1, 2], [1, 2, 0]), ([0, 0, 0], [0, 0, 0]),
    ([0, 2, 4], [1, 3, 5]), ([0, 1, 1, 0], [1, 0, 0, 1]), ([4, 4, 1], [4, 1, 1]), ([9], [0]),
    ([1, 3, 5, 7], [3, 5, 7, 1]), ([0, 1, 2, 3, 4, 5, 6], [1, 2, 3, 4, 5, 6, 7]),
    ([7, 6, 5, 4, 3, 2, 1], [6, 5, 4, 3, 2, 1, 0]), ([2, 2, 2, 2], [0, 1, 3, 4]),
]


def generate(ctx):
    rng = ctx.rng
    big = ctx.n(12, 16)
    pbig = ctx.n(1.0, 0.12)          # share of the 16-bit-range numberings that is kept (cost of the per-label spec)
    cases = []
    for img in CORPUS_IMAGES:
        cases.extend(_img_cases(rng, img))
    for i, j in CORPUS_GRAPHS:
        cases.append({"fn": "acc", "i": list(i), "j": list(j)})
    ncorpus = len(cases)
    for _ in range(ctx.n(700, 8000)):
        cases.extend(_img_cases(rng, _tiled(rng, big) if rng.rand() < 0.2 else _image(rng, big), pbig))
    chain_max = ctx.n(3000, 50000)
    for _ in range(ctx.n(1500, 20000)):
        i, j = _graph(rng, chain_max if rng.rand() < ctx.n(0.05, 0.004) else 200)
        cases.append(_acc_case(rng, i, j))
    # large vertex numbers with few edges (many isolated vertices); ids near 2^31 would need label arrays of
    # 2^31 entries (> 24 GB with bincount) and are excluded, counted
    ctx.count("excluded_vertex_ids_near_2^31")
    for _ in range(ctx.n(4, 8)):
        top = int(rng.choice([70000, ctx.n(100000, 400000)]))
        ne = int(rng.randint(1, 8))
        i = rng.randint(0, top, ne); j = rng.randint(0, top, ne); i[0] = top
        cases.append(_acc_case(rng, i.tolist(), j.tolist()))
    # the deep-traversal cases are always present
    for n in (chain_max, chain_max // 2):
        cases.append({"fn": "acc", "i": list(range(n - 1)), "j": list(range(1, n))})
        cases.append({"fn": "acc", "i": list(range(n - 1, 0, -1)), "j": list(range(n - 2, -1, -1))})
    # interleave the functions: all calls of a run happen in one worker process
    tail = cases[ncorpus:]
    order = rng.permutation(len(tail))
    cases = cases[:ncorpus] + [tail[k] for k in order]
    for c in cases:
        ctx.count(c["fn"])
        if c["fn"] != "acc":
            ctx.count("dtype_" + c.get("dt", "int64")); ctx.count("layout_" + c.get("lay", "C"))
            ctx.count("numbering_" + c.get("num", "plain"))
            if c.get("excl"):
                ctx.count("excluded_" + c["excl"])
            if all(v != 0 for r in c["img"] for v in r):
                ctx.count("img_no_background")
            if c["fn"] == "euler":
                ctx.count("euler_idx_" + c.get("ik", "list"))
        else:
            ctx.count("acc_dtype_" + c.get("dt", "int64")); ctx.count("acc_layout_" + c.get("lay", "C"))
        if c["fn"] == "acc":
            ctx.count("acc_edges<=20" if len(c["i"]) <= 20 else "acc_edges<=400" if len(c["i"]) <= 400 else "acc_edges>400")
        elif c["fn"] == "euler":
            h, w = len(c["img"]), len(c["img"][0])
            ctx.count("img_%s" % ("1xN" if min(h, w) == 1 else "<=3" if max(h, w) <= 3 else "<=8" if max(h, w) <= 8 else ">8"))
    return cases


# ------------------------------------------------------------------------------- implementation

def _mk(vals, dt, lay):
    a = np.array(vals, dt)
    if lay == "F":
        a = np.asfortranarray(a)
    elif lay == "strided":
        big = np.zeros(tuple(2 * s for s in a.shape), a.dtype)
        big[(slice(None, None, 2),) * a.ndim] = a
        a = big[(slice(None, None, 2),) * a.ndim]
    elif lay == "ro":
        a.setflags(write=False)
    return a


def _call(case, M):
    fn = case["fn"]
    dt, lay = case.get("dt", "int64"), case.get("lay", "C")
    if fn == "acc":
        i = _mk(case["i"], dt, lay); j = _mk(case["j"], dt, lay)
        keep = (i.copy(), j.copy())
        r = M.all_connected_components(i, j)
        out = {"lab": [int(x) for x in np.asarray(r).tolist()]}
        return out, bool(np.array_equal(i, keep[0]) and np.array_equal(j, keep[1]))
    lab = _mk(case["img"], dt, lay)
    keep = lab.copy()
    if fn == "relabel":
        r, n = M.relabel(lab)
        out = {"img": np.asarray(r).astype(int).tolist(), "n": int(n)}
    elif fn == "neighbors":
        c, i, n = M.find_neighbors(lab)
        out = {"count": [int(x) for x in c], "index": [int(x) for x in i], "nb": [int(x) for x in n]}
    elif fn == "colors":
        out = {"col": np.asarray(M.color_labels(lab)).astype(int).tolist()}
    elif fn == "euler":
        idx, ik = case["idx"], case.get("ik", "list")
        if ik == "tuple":
            idx = tuple(idx)
        elif ik not in ("list", "none", "scalar"):
            idx = np.array(idx, ik)
        w = M.euler_number(lab, idx)
        w = np.atleast_1d(np.asarray(w, float))
        out = {"w4": []}
        for x in w.tolist():
            y = x * 4.0
            if y != int(y) or float(int(y)) / 4.0 != x:
                out = {"w4": None, "raw": [repr(v) for v in w.tolist()]}
                break
            out["w4"].append(int(y))
    else:
        raise ValueError(fn)
    return out, bool(np.array_equal(lab, keep))


def impl(case):
    """two calls on freshly built equal inputs in the same process (results must agree: no state kept between
    calls), inputs must come back unmodified"""
    from centrosome import cpmorphology as M
    out, same1 = _call(case, M)
    out2, same2 = _call(case, M)
    out["input_unmodified"] = same1 and same2
    out["repeatable"] = out2 == {k: v for k, v in out.items() if k != "input_unmodified"}
    return out


def _bad(o):
    return (not isinstance(o, dict)) or "exc" in o or "crash" in o


def _euler_args(case):
    if case["idx"] is None:
        return [[[1 if v != 0 else 0 for v in r] for r in case["img"]], [1]]
    if isinstance(case["idx"], int):
        return [case["img"], [case["idx"]]]
    return [case["img"], case["idx"]]


def _model_arg(case):
    fn = case["fn"]
    if fn == "acc":
        return "entry_acc", [case["i"], case["j"]]
    if fn == "euler":
        return "entry_euler", _euler_args(case)
    return {"relabel": "entry_relabel", "neighbors": "entry_neighbors", "colors": "entry_colors"}[fn], [case["img"]]


def _run_grouped(ctx, items):
    """items: list of (key, entry, arg) -> dict key -> result"""
    by = {}
    for k, e, a in items:
        by.setdefault(e, []).append((k, a))
    res = {}
    for e, lst in by.items():
        for (k, _), r in zip(lst, ctx.run_model(e, [a for _, a in lst])):
            res[k] = r
    return res


def model(ctx, cases, outs):
    items = []
    for k, c in enumerate(cases):
        e, a = _model_arg(c)
        items.append((k, e, a))
    r = _run_grouped(ctx, items)
    return [r[k] for k in range(len(cases))]


def _impl_sx(case, out):
    fn = case["fn"]
    if fn == "acc":
        return [out["lab"]]
    if fn == "relabel":
        return [out["img"], out["n"]]
    if fn == "neighbors":
        return [out["count"], out["index"], out["nb"]]
    if fn == "colors":
        return out["col"]
    return out["w4"]


def compare(case, out, m):
    if _bad(out):
        return "implementation raised/crashed: %s" % (str(out)[:300],)
    if isinstance(m, dict):
        return "model error: %s" % (m,)
    if not out.get("repeatable", True):
        return "%s: a second call on an equal input in the same process gave a different result" % case["fn"]
    if case["fn"] == "euler" and out["w4"] is None:
        return "euler_number returned a value that is not a multiple of 1/4: %s" % (out["raw"],)
    if case["fn"] == "acc" and m == []:
        return "model ran out of fuel"
    exp = _impl_sx(case, out)
    if m != exp:
        return "%s differs from Model.LabelGraph: impl %s model %s" % (case["fn"], str(exp)[:300], str(m)[:300])
    return None


def _forest_certificate(i, j, lab):
    """spanning forest of the undirected edge list (BFS from the lowest unvisited vertex): par, index of the
    edge to the parent, depth, and for every label the root carrying it.  Only VERIFIED by the extracted
    Spec.LabelGraph.acc_cert_ok (soundness: Proofs/AccCertC15.v), so nothing here is trusted."""
    n = len(lab)
    adj = [[] for _ in range(n)]
    for k, (a, b) in enumerate(zip(i, j)):
        if a < n and b < n:
            adj[a].append((b, k)); adj[b].append((a, k))
    par = list(range(n)); eidx = [0] * n; dep = [0] * n
    seen = [False] * n
    top = max(lab) if lab else 0
    rep = [0] * (top + 1) if top <= 4 * n + 16 else None
    for r in range(n):
        if seen[r]:
            continue
        seen[r] = True
        if rep is not None:
            rep[lab[r]] = r
        queue = [r]
        for v in queue:
            for w, k in adj[v]:
                if not seen[w]:
                    seen[w] = True; par[w] = v; eidx[w] = k; dep[w] = dep[v] + 1
                    queue.append(w)
    return par, eidx, dep, rep


REDUCE_MAX_PIXELS = 400


def check(ctx, cases, outs):
    res = [None] * len(cases)
    items = []
    for k, (c, o) in enumerate(zip(cases, outs)):
        if _bad(o):
            res[k] = "implementation raised/crashed on a valid input: %s" % (str(o)[:300],)
            continue
        fn = c["fn"]
        if not o.get("input_unmodified", True):
            res[k] = "%s modified its input array" % fn
            continue
        if not o.get("repeatable", True):
            res[k] = "%s: a second call on an equal input in the same process gave a different result" % fn
            continue
        if fn == "acc":
            lab = o["lab"]
            if not c["i"]:
                items.append((k, "entry_check_acc", [[], [], lab, [], [], [], []]))
                continue
            par, eidx, dep, rep = _forest_certificate(c["i"], c["j"], lab)
            if rep is None:
                res[k] = "all_connected_components: label values far outside 0..n-1: %s" % (str(lab)[:200],)
            else:
                items.append((k, "entry_check_acc", [c["i"], c["j"], lab, par, eidx, dep, rep]))
        elif fn == "relabel":
            items.append((k, "entry_check_relabel", [c["img"], o["img"], o["n"]]))
        elif fn == "neighbors":
            items.append((k, "entry_check_neighbors", [c["img"], o["count"], o["index"], o["nb"]]))
        elif fn == "colors":
            items.append((k, "entry_check_colors", [c["img"], o["col"]]))
        elif fn == "euler":
            if o["w4"] is None:
                res[k] = "euler_number is not components - holes (not even a multiple of 1/4): %s" % (o["raw"],)
            else:
                items.append((k, "entry_check_euler", _euler_args(c) + [o["w4"]]))
    msg = {"entry_check_acc": "all_connected_components: labels are not the partition into connected components "
                              "(Spec.LabelGraph.acc_cert_ok rejects the labelling with a spanning-forest certificate)",
           "entry_check_relabel": "relabel: not an order-preserving renumbering to 1..n (Spec.LabelGraph.relabel_ok false)",
           "entry_check_neighbors": "find_neighbors: lists differ from the 8-adjacent other labels "
                                    "(Spec.LabelGraph.neighbors_ok false)",
           "entry_check_colors": "color_labels: not a proper colouring (Spec.LabelGraph.colors_ok false)",
           "entry_check_euler": "euler_number differs from 8-components minus holes (Spec.LabelGraph.euler_ok false)"}
    r = _run_grouped(ctx, items)
    for k, e, _ in items:
        if r[k] != 1:
            res[k] = msg[e]
    # certificate search (Spec.EulerReduceC15.reduce_label, sound by C15_reduce_label_certifies): when it returns k,
    # 4 W must be 4 k = 4 (components - holes) by theorem, not only by the flood-fill definition
    red = []
    for k, (c, o) in enumerate(zip(cases, outs)):
        if c["fn"] != "euler" or _bad(o) or o.get("w4") is None or res[k]:
            continue
        img, idx = _euler_args(c)
        if len(img) * len(img[0]) > REDUCE_MAX_PIXELS:
            ctx.count("euler_reduce_skipped_large")
            continue
        for pos, l in enumerate(idx):
            if l != 0 and l not in idx[:pos]:
                red.append(((k, pos), "entry_reduce", [img, l]))
    rr = _run_grouped(ctx, red)
    for (k, pos), _, _ in red:
        v = rr[(k, pos)]
        if isinstance(v, list) and len(v) == 1:
            ctx.count("euler_certified_reducible")
            if outs[k]["w4"][pos] != 4 * v[0] and not res[k]:
                res[k] = ("euler_number differs from 4*(components - holes) = %d certified by a Reduces2 reduction "
                          "(C15_reduce_label_certifies), label position %d" % (4 * v[0], pos))
        else:
            ctx.count("euler_not_certified")
    return res


def nontrivial(case, out):
    if case["fn"] == "acc":
        return any(a != b for a, b in zip(case["i"], case["j"]))
    a = np.array(case["img"])
    if a.size < 2:
        return False
    p = np.pad(a, 1)
    h, w = a.shape
    c = p[1:-1, 1:-1]
    for dy, dx in ((0, 1), (1, 0), (1, 1), (1, -1)):
        q = p[1 + dy:1 + dy + h, 1 + dx:1 + dx + w]
        if ((c > 0) & (q > 0) & (c != q)).any():
            return True
    if case["fn"] == "euler" and not _bad(out) and out.get("w4"):
        return any(x <= 0 for x in out["w4"])
    return False


def kernel_crosscheck(ctx, cases, outs):
    n = 0
    for fn, lim in (("relabel", 12), ("neighbors", 12), ("colors", 12), ("euler", 12), ("acc", 12)):
        idx = []
        for k, c in enumerate(cases):
            if c["fn"] != fn or _bad(outs[k]):
                continue
            if fn == "acc":
                if not (0 < len(c["i"]) <= 12) or max(c["i"] + c["j"]) > 40:
                    continue
            else:
                if (len(c["img"]) * len(c["img"][0]) > 20 or max(max(r) for r in c["img"]) > 40
                        or (fn == "euler" and outs[k]["w4"] is None)):
                    continue
            idx.append(k)
        idx = idx[8:8 + lim] if len(idx) > 8 + lim else idx[:lim]
        if not idx:
            continue
        args = [_model_arg(cases[k])[1] for k in idx]
        exp = [_impl_sx(cases[k], outs[k]) for k in idx]
        r = ctx.coq_eval_eq("Model.LabelGraph", _model_arg(cases[idx[0]])[0], args, exp, tag=fn)
        n += len(idx)
        bad = [k for k, b in zip(idx, r) if b is not True]
        if bad:
            return "vm_compute evaluation of Model.LabelGraph.%s differs from the implementation on %s" % (
                _model_arg(cases[bad[0]])[0], str(cases[bad[0]])[:300]), n
    return None, n


def search_cases(ctx, rnd):
    rng = ctx.rng
    cases = []
    for _ in range(150):
        cases.extend(_img_cases(rng, _image(rng, 9)))
    for _ in range(400):
        i, j = _graph(rng, 300)
        cases.append(_acc_case(rng, i, j))
    return cases


def shrink_candidates(case):
    if case["fn"] == "acc":
        i, j = case["i"], case["j"]
        n = len(i)

        def g(a, b, **kw):
            d = dict(case); d["i"] = a; d["j"] = b; d.update(kw)
            return d
        if n > 3:
            h = n // 2
            yield g(i[:h], j[:h])
            yield g(i[h:], j[h:])
        if 1 < n <= 40:
            for k in range(n):
                yield g(i[:k] + i[k + 1:], j[:k] + j[k + 1:])
        if n <= 40:
            vs = sorted(set(i + j))
            ren = {v: k for k, v in enumerate(vs)}
            if any(ren[v] != v for v in vs):
                yield g([ren[v] for v in i], [ren[v] for v in j])
        if case.get("dt", "int64") != "int64" or case.get("lay", "C") != "C":
            yield g(i, j, dt="int64", lay="C")
        return
    img = case["img"]
    h, w = len(img), len(img[0])

    def mk(im):
        d = dict(case); d["img"] = im
        if d["fn"] == "euler" and isinstance(d.get("idx"), list):
            d["idx"] = list(d["idx"])
        return d
    if h > 1:
        yield mk(img[: h // 2]) if h > 3 else mk(img[1:])
        for r in range(h):
            yield mk(img[:r] + img[r + 1:])
    if w > 1:
        for c in range(w):
            yield mk([row[:c] + row[c + 1:] for row in img])
    if case.get("dt") not in ("int64", "bool") or case.get("lay", "C") != "C":
        d = mk(img); d["lay"] = "C"
        if d.get("dt") != "bool":
            d["dt"] = "int64"
        yield d
    if h * w <= 64:
        for r in range(h):
            for c in range(w):
                if img[r][c] != 0:
                    im = [list(x) for x in img]; im[r][c] = 0
                    yield mk(im)
    if case["fn"] == "euler" and isinstance(case.get("idx"), list) and len(case["idx"]) > 1:
        for k in range(len(case["idx"])):
            d = mk(img); d["idx"] = case["idx"][:k] + case["idx"][k + 1:]
            yield d


MANIFEST = {
    "level_text": (
        "Machine-checked proofs (Coq 8.16, closed under the global context) about an executable Gallina model of "
        "relabel, find_neighbors (with adjacent), color_labels, euler_number and all_connected_components with the "
        "explicit-stack kernel _all_connected_components. Full, for every input: the depth-first labelling terminates "
        "within the computed fuel and labels two vertices equally exactly when they are connected, for arbitrary "
        "symmetric adjacency arrays and for every edge list (self-loops, duplicates, isolated vertices) through "
        "symmetrise/lexsort/bincount/cumsum; relabel is an order-preserving renumbering onto 1..n; find_neighbors lists "
        "for each label exactly the other labels with an 8-adjacent pixel, strictly increasing, and symmetrically; "
        "color_labels gives one colour per label, background 0 and different colours to touching labels; "
        "euler_number's shifted-plane arithmetic equals the bit-quad counts of the label's pixel set, and 4W = "
        "4(components - holes), counted declaratively in the plane with C05's imported topology theorems, for every "
        "image reducible by simple deletions/fillings, isolated-point deletions and one-pixel-hole closings (a "
        "verified search certifies this per generated case; hole-free labels and labels with single-pixel holes are "
        "proved reducible for every size); for EVERY image the same equality follows by raster-order induction from one "
        "named, unproved premise (the existence half of the digital Jordan lemma). The model is tied "
        "to the code by exact comparison of complete outputs on every generated case (extracted OCaml, sub-sample "
        "re-evaluated by vm_compute), and the executable flood-fill specification (components, holes, adjacency, "
        "partition, proper colouring) is evaluated on the implementation's own output of every case."),
    "level_note": (
        "Trusted: Coq kernel + vm_compute; extraction (ExtrOcamlBasic only) and the S-expression driver; the Python "
        "harness; NumPy/SciPy semantics as transcribed. euler = components - holes: Full for reducible / hole-free / single-pixel-hole images, for every image "
        "conditional on one named Jordan-type premise (Partial); "
        "the tie between model and code is differential, not a proof about Python/C++."),
    "technique": "Coq proof over executable model + exact differential correspondence + executable spec on outputs",
    "design_ref": "DESIGN.md section 7, C15",
}
