"""C16 - line rasterisers produce the same exact Bresenham sequence."""
import itertools
import numpy as np

ID = "C16"
PROPS_FILE = "theories/Props/C16.v"
EXTRACT = ("theories/Extract/XC16.v", "c16", ["entry_draw", "entry_lines", "entry_check", "entry_check_line"])
PYX = {}
RULE = ("quick: every end-point pair of a 7x7 grid (thorough: 13x13) through draw_line (write order recorded by a "
        "__setitem__ spy) and through get_line_pts in batches of 49 (169), plus random batches of 1-30 lines with "
        "coordinates in [-40,60]; non-trivial = the batch contains a line with major delta >= 2 and 0 < minor delta "
        "< major delta (remainder logic exercised); distinct by hash of the case")
TRUSTED = ["modelled, not verified: NumPy fancy-index scatter (last write wins), boolean compaction, cumsum"]
ASSUMPTIONS = ["coordinates are Python/NumPy ints without overflow (|coordinate| < 2^31)"]
EXHAUSTIVE = {"quick": False, "thorough": False}


def generate(ctx):
    g = ctx.n(7, 13)
    rng = ctx.rng
    cases = []
    pts = list(itertools.product(range(g), range(g)))
    pairs = [(a, b) for a in pts for b in pts]
    for a, b in pairs:
        cases.append({"fn": "draw", "l": [a[0], a[1], b[0], b[1]]})
    bs = g * g
    for s in range(0, len(pairs), bs):
        cases.append({"fn": "lines", "ls": [[a[0], a[1], b[0], b[1]] for a, b in pairs[s:s + bs]]})
    cases.append({"fn": "lines", "ls": []})
    for _ in range(ctx.n(300, 6000)):
        k = int(rng.choice([1, 1, 2, 3, 5, 8, 13, 30]))
        lo, hi = (-40, 60) if rng.rand() < 0.5 else (0, int(rng.choice([2, 5, 20, 60])))
        ls = rng.randint(lo, hi + 1, size=(k, 4))
        # bias: horizontal / vertical / diagonal / zero-length lines
        for r in ls:
            u = rng.rand()
            if u < 0.08:
                r[2] = r[0]
            elif u < 0.16:
                r[3] = r[1]
            elif u < 0.24:
                d = abs(int(r[2]) - int(r[0])); r[3] = r[1] + d * (1 if rng.rand() < 0.5 else -1)
            elif u < 0.28:
                r[2], r[3] = r[0], r[1]
        cases.append({"fn": "lines", "ls": ls.tolist()})
    for c in cases:
        ctx.count(c["fn"])
    return cases


class _Spy:
    def __init__(self):
        self.w = []

    def __setitem__(self, key, value):
        self.w.append([int(key[0]), int(key[1])])


def impl(case):
    from centrosome import cpmorphology as M
    if case["fn"] == "draw":
        y0, x0, y1, x1 = case["l"]
        spy = _Spy()
        M.draw_line(spy, (y0, x0), (y1, x1), 7)
        # and on a real array: the set of written pixels
        ys = [y0, y1]; xs = [x0, x1]
        oy, ox = min(ys), min(xs)
        arr = np.zeros((max(ys) - oy + 1, max(xs) - ox + 1), int)
        M.draw_line(arr, (y0 - oy, x0 - ox), (y1 - oy, x1 - ox), 7)
        on = np.argwhere(arr == 7) + [oy, ox]
        return {"pts": spy.w, "set": sorted(map(list, on.tolist()))}
    ls = np.array(case["ls"], int).reshape(-1, 4)
    r = M.get_line_pts(ls[:, 0], ls[:, 1], ls[:, 2], ls[:, 3])
    scalar = []
    for y0, x0, y1, x1 in ls.tolist():
        spy = _Spy()
        M.draw_line(spy, (y0, x0), (y1, x1), 1)
        scalar.append(spy.w)
    return {"index": np.asarray(r[0]).tolist(), "count": np.asarray(r[1]).tolist(),
            "i": np.asarray(r[2]).tolist(), "j": np.asarray(r[3]).tolist(), "scalar": scalar}


def _bad(o):
    return (not isinstance(o, dict)) or "exc" in o or "crash" in o


def model(ctx, cases, outs):
    di = [k for k, c in enumerate(cases) if c["fn"] == "draw"]
    li = [k for k, c in enumerate(cases) if c["fn"] == "lines"]
    res = [None] * len(cases)
    for k, r in zip(di, ctx.run_model("entry_draw", [cases[k]["l"] for k in di])):
        res[k] = r
    for k, r in zip(li, ctx.run_model("entry_lines", [cases[k]["ls"] for k in li])):
        res[k] = r
    return res


def compare(case, out, m):
    if _bad(out):
        return "implementation raised/crashed: %s" % (out,)
    if case["fn"] == "draw":
        if m == []:
            return "model out of fuel"
        if m[0] != out["pts"]:
            return "draw_line order differs: impl %s model %s" % (out["pts"][:8], m[0][:8])
        return None
    exp = [out["index"], out["count"], out["i"], out["j"]]
    if m != exp:
        return "get_line_pts differs from model: impl %s model %s" % (str(exp)[:200], str(m)[:200])
    return None


def check(ctx, cases, outs):
    res = [None] * len(cases)
    di = [k for k, c in enumerate(cases) if c["fn"] == "draw" and not _bad(outs[k])]
    li = [k for k, c in enumerate(cases) if c["fn"] == "lines" and not _bad(outs[k])]
    for k, o in enumerate(outs):
        if _bad(o):
            res[k] = "implementation raised/crashed: %s" % (str(o)[:300],)
    for k, r in zip(di, ctx.run_model("entry_check_line", [[cases[k]["l"], outs[k]["pts"]] for k in di])):
        if r != 1:
            res[k] = "draw_line sequence is not the exact Bresenham line (Spec.Lines.line_ok false)"
        elif sorted(outs[k]["pts"]) != outs[k]["set"]:
            res[k] = "draw_line pixels on a real array differ from the recorded writes"
    args = [[cases[k]["ls"], outs[k]["index"], outs[k]["count"], outs[k]["i"], outs[k]["j"]] for k in li]
    for k, r in zip(li, ctx.run_model("entry_check", args)):
        o = outs[k]
        if r != 1:
            res[k] = "get_line_pts output violates Spec.Lines.batch_ok"
            continue
        for n, (ix, ct) in enumerate(zip(o["index"], o["count"])):
            blk = [[a, b] for a, b in zip(o["i"][ix:ix + ct], o["j"][ix:ix + ct])]
            if blk != o["scalar"][n]:
                res[k] = "vectorised line %d differs from scalar draw_line: %s vs %s" % (n, blk[:6], o["scalar"][n][:6])
                break
    return res


def nontrivial(case, out):
    ls = [case["l"]] if case["fn"] == "draw" else case["ls"]
    for a, b, c, d in ls:
        D, m = max(abs(c - a), abs(d - b)), min(abs(c - a), abs(d - b))
        if D >= 2 and 0 < m < D:
            return True
    return False


def kernel_crosscheck(ctx, cases, outs):
    idx = [k for k, c in enumerate(cases) if c["fn"] == "lines" and not _bad(outs[k]) and len(c["ls"]) <= 8][:40]
    args = [cases[k]["ls"] for k in idx]
    exp = [[outs[k]["index"], outs[k]["count"], outs[k]["i"], outs[k]["j"]] for k in idx]
    r = ctx.coq_eval_eq("Model.Lines", "entry_lines", args, exp, tag="lines")
    bad = [k for k, b in zip(idx, r) if b is not True]
    if bad:
        return "vm_compute evaluation of Model.Lines.entry_lines differs from the implementation on case %d" % bad[0], len(idx)
    return None, len(idx)


def search_cases(ctx, rnd):
    rng = ctx.rng
    cases = []
    for _ in range(400):
        k = int(rng.choice([1, 2, 4, 16]))
        ls = rng.randint(-30, 31, size=(k, 4))
        cases.append({"fn": "lines", "ls": ls.tolist()})
        a = ls[0].tolist()
        cases.append({"fn": "draw", "l": a})
    return cases


def shrink_candidates(case):
    if case["fn"] == "draw":
        l = case["l"]
        for k in range(4):
            if l[k] != 0:
                m = list(l); m[k] -= 1 if l[k] > 0 else -1
                yield {"fn": "draw", "l": m}
        return
    ls = case["ls"]
    if len(ls) > 3:
        h = len(ls) // 2
        yield {"fn": "lines", "ls": ls[:h]}
        yield {"fn": "lines", "ls": ls[h:]}
    if len(ls) > 1:
        for k in range(len(ls)):
            yield {"fn": "lines", "ls": ls[:k] + ls[k + 1:]}
    for n, l in enumerate(ls[:3]):
        for k in range(4):
            if l[k] != 0:
                m = [list(x) for x in ls]; m[n][k] -= 1 if l[k] > 0 else -1
                yield {"fn": "lines", "ls": m}


MANIFEST = {
    "level_text": (
        "Machine-checked proof (Coq 8.16, closed under the global context) about the executable Gallina model of "
        "draw_line and get_line_pts, for ALL end points and ALL batches: (1) C16_draw_line_correct - the scalar loop "
        "terminates within its fuel and emits a sequence meeting the declarative LineSpec (first/last point = the end "
        "points, length max(|di|,|dj|)+1, major coordinate advances by exactly one per point, minor coordinate within "
        "half a pixel of the ideal segment and moving by 0 or one step towards the end; horizontal, vertical, exact "
        "diagonal and zero-length lines included); (2) C16_line_ok_sound - the boolean checker line_ok that is also "
        "run on the implementation's output implies LineSpec; (3) C16_vector_eq_scalar - for every batch, count/index "
        "are the lengths and their exclusive cumulative sums and the block of every line of the lock-step vectorised "
        "output equals the scalar sequence of that line alone (compaction invariant, last-write-wins scatter over "
        "disjoint positions; independence of the other lines, of batch order and of the pass that handles the line); "
        "(4) C16_batch_checker. The model is tied to the code by exact comparison of complete outputs (write order of "
        "draw_line, all four arrays of get_line_pts) on every end-point pair of a grid plus random batches, with the "
        "extracted model cross-checked against vm_compute; the verified checkers are evaluated on the "
        "implementation's own output."),
    "level_note": (
        "Trusted: Coq kernel + vm_compute; extraction (ExtrOcamlBasic only) and the S-expression driver; the Python "
        "harness; NumPy scatter/compaction semantics as modelled (last write wins). The tie between model and code "
        "is differential, not a proof about Python."),
    "technique": "Coq proof over executable model + exact differential correspondence (extracted OCaml and vm_compute)",
    "design_ref": "DESIGN.md section 7, C16",
}
