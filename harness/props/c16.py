"""C16 - line rasterisers produce the same exact Bresenham sequence."""
import itertools
import math
import numpy as np

ID = "C16"
PROPS_FILE = "theories/Props/C16.v"
EXTRACT = ("theories/Extract/XC16.v", "c16", ["entry_draw", "entry_lines", "entry_check", "entry_check_line",
                                             "entry_draw_fast", "entry_lines_fast"])
PYX = {}
CASE_TIMEOUT = 60
RULE = ("quick: every end-point pair of a 7x7 grid (thorough: 13x13) through draw_line (write order and value recorded "
        "by a __setitem__ spy, and on a real array) and through get_line_pts in batches of 49 (169); random batches of "
        "1-30 lines with coordinates in [-40,60]; batches whose end points are handed over as int8/uint8/int16/uint16/"
        "int32/int64/intp/float32/float64 arrays, lists, tuples or mixed, contiguous / strided / reversed / read-only, "
        "with coordinates spanning the whole range of the dtype; batches of 2000+ lines; lines of 17000-66000 points "
        "(thorough: one of > 100000); empty and all-zero-length batches; every call checks that its inputs are left "
        "unchanged; all cases run in ONE worker process (state between calls would show). draw_line on real arrays of "
        "bool/uint8/int32/int64/float32/float64 in C / Fortran / strided / transposed / reversed layout over a "
        "non-zero background with values of several types and end points as Python ints, np.int64/np.int32 scalars, "
        "tuples, lists, arrays. Both directions of a line (reverse relation). Library callers: strel_line (two "
        "half lines), convex_hull_image (closed outline through the hull points, captured before hole filling), "
        "polygon_lines_to_mask and convex_hull_transform (every inner get_line_pts call recorded). non-trivial = the "
        "case contains a line with major delta >= 2 and 0 < minor delta < major delta (remainder logic exercised); "
        "distinct by hash of the case")
TRUSTED = ["modelled, not verified: NumPy fancy-index scatter (last write wins), boolean compaction, cumsum",
           "harness-side (unverified) glue for the library callers: strel_line's angle -> offset arithmetic is repeated "
           "in Python; the hull points of convex_hull_image are taken from the implementation's own convex_hull"]
ASSUMPTIONS = ["coordinates are Python/NumPy ints without overflow (|coordinate| < 2^31)"]
EXHAUSTIVE = {"quick": False, "thorough": False}

DT = {"int8": (-128, 127), "uint8": (0, 255), "int16": (-32768, 32767), "uint16": (0, 65535),
      "int32": (-2 ** 31, 2 ** 31 - 1), "int64": (-2 ** 40, 2 ** 40), "intp": (-2 ** 40, 2 ** 40),
      "list": (-300, 300), "tuple": (-300, 300), "mixed": (0, 255),
      "float64": (-200, 200), "float32": (-200, 200)}
LAYOUTS = ["C", "strided", "rev", "readonly"]
ARR_DTYPES = ["bool", "uint8", "int32", "int64", "float32", "float64"]
ARR_LAYOUTS = ["C", "F", "strided", "T", "rev"]
PFORMS = ["tuple", "list", "np64", "np32", "arr64", "arr32", "intp",
          # unsigned / narrow numpy end points (coordinates of "draw" cases are 0..24): differences taken in the
          # end points' own dtype would wrap (fix 10bf56e)
          "arr:uint8", "arr:uint16", "arr:uint32", "arr:uint64", "arr:int8", "arr:int16",
          "np:uint8", "np:uint16", "np:uint32", "np:uint64", "np:int8"]
VALUES = [["int", 7], ["int", 1], ["bool", 1], ["float", 2.5], ["np_uint8", 3], ["np_float32", 6.0], ["default", 1]]


def _bias(rng, r):
    u = rng.rand()
    if u < 0.08:
        r[2] = r[0]
    elif u < 0.16:
        r[3] = r[1]
    elif u < 0.24:
        d = abs(int(r[2]) - int(r[0])); r[3] = r[1] + d * (1 if rng.rand() < 0.5 else -1)
    elif u < 0.28:
        r[2], r[3] = r[0], r[1]


def _blob(rng, h, w):
    img = np.zeros((h, w), int)
    for _ in range(int(rng.randint(1, 4))):
        cy, cx = rng.randint(1, h - 1), rng.randint(1, w - 1)
        ry, rx = rng.randint(1, max(2, h // 2)), rng.randint(1, max(2, w // 2))
        yy, xx = np.mgrid[0:h, 0:w]
        img[((yy - cy) / float(ry)) ** 2 + ((xx - cx) / float(rx)) ** 2 <= 1.0] = 1
    img[rng.rand(h, w) < 0.03] = 1
    return img


def generate(ctx):
    g = ctx.n(7, 13)
    rng = ctx.rng
    cases = []
    pts = list(itertools.product(range(g), range(g)))
    pairs = [(a, b) for a in pts for b in pts]
    for a, b in pairs:
        cases.append({"fn": "draw", "l": [a[0], a[1], b[0], b[1]]})
    bs = g * g
    for s in range(0, len(pairs), bs):
        cases.append({"fn": "lines", "ls": [[a[0], a[1], b[0], b[1]] for a, b in pairs[s:s + bs]]})
    cases.append({"fn": "lines", "ls": []})
    for dt in ("list", "int8", "float64", "tuple"):
        cases.append({"fn": "lines", "ls": [], "dtype": dt})
    # all-zero-length batches
    for k in (1, 2, 50):
        p = rng.randint(-5, 6, size=(k, 2))
        cases.append({"fn": "lines", "ls": np.hstack([p, p]).tolist()})
    for _ in range(ctx.n(300, 6000)):
        k = int(rng.choice([1, 1, 2, 3, 5, 8, 13, 30]))
        lo, hi = (-40, 60) if rng.rand() < 0.5 else (0, int(rng.choice([2, 5, 20, 60])))
        ls = rng.randint(lo, hi + 1, size=(k, 4))
        # bias: horizontal / vertical / diagonal / zero-length lines
        for r in ls:
            _bias(rng, r)
        cases.append({"fn": "lines", "ls": ls.tolist()})
    # end points handed over in every dtype / container / layout get_line_pts accepts (the function normalises
    # to int; a narrow dtype used as-is would wrap in the remainder arithmetic): coordinates span the dtype's
    # whole range, so 2*|major delta| exceeds the dtype's maximum
    for _ in range(ctx.n(240, 2400)):
        dt = str(rng.choice(["int8", "int8", "uint8", "uint8", "int16", "uint16", "int32", "int64", "intp", "list",
                             "tuple", "mixed", "float64", "float32"]))
        lo, hi = DT[dt]
        k = int(rng.choice([1, 2, 3, 6]))
        ls = []
        for _ in range(k):
            # start anywhere in the range (biased to the extremes), span limited to 300 points per line
            a = [int(rng.choice([lo, hi, int(rng.randint(max(lo, -10 ** 6), min(hi, 10 ** 6) + 1))])) for _ in range(2)]
            span = int(rng.choice([0, 1, 5, 60, 130, 255, 300]))
            b = [min(hi, max(lo, a[0] + int(rng.randint(-span, span + 1)))),
                 min(hi, max(lo, a[1] + int(rng.randint(-span, span + 1))))]
            if dt == "float32":      # integral values a float32 holds exactly
                a = [max(-2 ** 24, min(2 ** 24, v)) for v in a]; b = [max(-2 ** 24, min(2 ** 24, v)) for v in b]
            ls.append([a[0], a[1], b[0], b[1]])
        cases.append({"fn": "lines", "ls": ls, "dtype": dt, "layout": str(rng.choice(LAYOUTS))})
    for _ in range(ctx.n(2, 8)):
        # int16 needs |major delta| > 16383 for 2*delta to leave the dtype
        dt = str(rng.choice(["int16", "uint16"]))
        lo, hi = DT[dt]
        a = [int(rng.randint(lo, lo + 2000)), int(rng.randint(lo, hi))]
        b = [a[0] + int(rng.randint(16500, 21000)), min(hi, max(lo, a[1] + int(rng.randint(-9000, 9000))))]
        if rng.rand() < 0.5:
            a, b = b, a
        if rng.rand() < 0.5:
            a, b = a[::-1], b[::-1]
        cases.append({"fn": "lines", "ls": [[a[0], a[1], b[0], b[1]]], "dtype": dt, "layout": str(rng.choice(LAYOUTS))})
    # long lines: more points than an int16 / uint16 counter holds, next to short ones
    for n_long in ([66000] if ctx.quick() else [66000, 100003, 140000]):
        a = [int(rng.randint(-50, 50)), int(rng.randint(-50, 50))]
        b = [a[0] + int(rng.randint(n_long // 3, n_long // 2)), a[1] - n_long]
        if rng.rand() < 0.5:
            a, b = a[::-1], b[::-1]
        short = rng.randint(-9, 10, size=(3, 4)).tolist()
        cases.append({"fn": "lines", "ls": [short[0], [a[0], a[1], b[0], b[1]], short[1], short[2]], "dtype": "int64",
                      "layout": "C", "noscalar": 1})
        cases.append({"fn": "draw", "l": [b[0], b[1], a[0], a[1]], "spyonly": 1})
    # batches of 2000+ lines of mixed lengths and octants
    for nb in ([2300] if ctx.quick() else [2049, 3000, 5000, 2300]):
        ls = rng.randint(-25, 26, size=(nb, 4))
        for r in ls[: nb // 2]:
            _bias(rng, r)
        cases.append({"fn": "lines", "ls": ls.tolist(), "dtype": str(rng.choice(["int64", "int32", "list"])),
                      "layout": str(rng.choice(LAYOUTS))})
    # draw_line on real arrays
    for _ in range(ctx.n(400, 4000)):
        l = rng.randint(0, int(rng.choice([4, 9, 25])), size=4)
        _bias(rng, l)
        l = [abs(int(v)) for v in l]
        cases.append({"fn": "draw", "l": l,
                      "arr": {"dtype": str(rng.choice(ARR_DTYPES)), "layout": str(rng.choice(ARR_LAYOUTS)),
                              "value": VALUES[int(rng.randint(len(VALUES)))], "pform": str(rng.choice(PFORMS)),
                              "pad": int(rng.randint(0, 3))}})
    # both directions of a line
    for _ in range(ctx.n(150, 1500)):
        l = rng.randint(-12, 13, size=4)
        if rng.rand() < 0.5:    # force a tie: even major delta D, minor delta with 2*d*k = D (mod 2D) for some k
            D = 2 * int(rng.randint(1, 9)); d = int(rng.choice([x for x in range(1, D) if (D // math.gcd(D, x)) % 2 == 0] or [D // 2]))
            l = [int(l[0]), int(l[1]), int(l[0]) + D * int(rng.choice([-1, 1])), int(l[1]) + d * int(rng.choice([-1, 1]))]
            if rng.rand() < 0.5:
                l = [l[1], l[0], l[3], l[2]]
        cases.append({"fn": "rev", "l": [int(v) for v in l]})
    # library callers
    for _ in range(ctx.n(120, 1200)):
        length = float(rng.choice([0, 1, 2, 3, 5, 8, 13, 21, 40])) if rng.rand() < 0.6 else float(np.round(rng.uniform(0, 45), 3))
        angle = float(rng.choice(range(-360, 721, 15))) if rng.rand() < 0.6 else float(np.round(rng.uniform(-400, 400), 3))
        cases.append({"fn": "strel", "length": length, "angle": angle})
    for _ in range(ctx.n(60, 600)):
        h, w = int(rng.randint(3, 28)), int(rng.randint(3, 28))
        cases.append({"fn": "hull", "img": _blob(rng, h, w).tolist()})
    for _ in range(ctx.n(60, 600)):
        # closed polygons: a random convex-ish ring of vertices
        h, w = int(rng.randint(8, 40)), int(rng.randint(8, 40))
        k = int(rng.randint(3, 8))
        ang = np.sort(rng.uniform(0, 2 * np.pi, k))
        vi = np.clip(np.round(h / 2.0 + np.sin(ang) * rng.uniform(1, h / 2.0 - 1, k)), 0, h - 1).astype(int)
        vj = np.clip(np.round(w / 2.0 + np.cos(ang) * rng.uniform(1, w / 2.0 - 1, k)), 0, w - 1).astype(int)
        lines = [[int(vi[n]), int(vj[n]), int(vi[(n + 1) % k]), int(vj[(n + 1) % k])] for n in range(k)]
        cases.append({"fn": "inner", "which": "poly", "lines": lines, "shape": [h, w],
                      "float": int(rng.rand() < 0.3)})
    for _ in range(ctx.n(12, 120)):
        h, w = int(rng.randint(4, 16)), int(rng.randint(4, 16))
        img = (_blob(rng, h, w) * rng.randint(1, 4, size=(h, w))).tolist()
        cases.append({"fn": "inner", "which": "cht", "img": img})
    for c in cases:
        if c["fn"] == "lines":
            ctx.count("lines:" + c.get("dtype", "int") + "/" + c.get("layout", "C"))
        elif c["fn"] == "draw":
            ctx.count("draw:" + (c["arr"]["dtype"] + "/" + c["arr"]["layout"] if "arr" in c else "grid"))
            if "arr" in c:
                ctx.count("draw_endpoints:" + c["arr"]["pform"])
        else:
            ctx.count(c["fn"] + ":" + c.get("which", ""))
    return cases


# ---------------------------------------------------------------------------- implementation side

class _Spy:
    def __init__(self):
        self.w = []
        self.v = []

    def __setitem__(self, key, value):
        self.w.append([int(key[0]), int(key[1])])
        self.v.append(value)


def _pform(form, y, x):
    if form == "tuple":
        return (int(y), int(x))
    if form == "list":
        return [int(y), int(x)]
    if form == "np64":
        return (np.int64(y), np.int64(x))
    if form == "np32":
        return (np.int32(y), np.int32(x))
    if form.startswith("arr:"):
        return np.array([y, x], np.dtype(form[4:]))
    if form.startswith("np:"):
        return (np.dtype(form[3:]).type(y), np.dtype(form[3:]).type(x))
    if form == "arr64":
        return np.array([y, x], np.int64)
    if form == "arr32":
        return np.array([y, x], np.int32)
    if form == "intp":
        return np.array([0, y, x], np.intp)[1:]
    raise ValueError(form)


def _value(v):
    kind, x = v
    return {"int": int, "bool": bool, "float": float, "np_uint8": np.uint8, "np_float32": np.float32,
            "default": int}[kind](x)


def _mk_array(a, h, w):
    """(view to draw on, base array, boolean map of the base cells the view covers)"""
    dt, lay = np.dtype(a["dtype"]), a["layout"]
    yy, xx = np.mgrid[0:h, 0:w]
    bg = ((yy * 3 + xx) % 5 + 10).astype(dt)           # non-zero background, disjoint from every value used
    if dt.kind == "b":
        bg = np.zeros((h, w), bool)                    # every value used is truthy
    if lay == "C":
        base = np.array(bg, order="C"); view = base
    elif lay == "F":
        base = np.array(bg, order="F"); view = base
    elif lay == "T":
        base = np.array(bg.T, order="C"); view = base.T
    elif lay == "rev":
        base = np.array(bg[::-1, ::-1], order="C"); view = base[::-1, ::-1]
    elif lay == "strided":
        base = np.full((2 * h + 1, 3 * w + 2), 99, dt); view = base[1::2, 2::3]; view[...] = bg
    else:
        raise ValueError(lay)
    assert view.shape == (h, w) and np.array_equal(view, bg) and not np.shares_memory(view, bg)
    return view, base, bg


def _draw(M, case):
    y0, x0, y1, x1 = case["l"]
    a = case.get("arr")
    form = a["pform"] if a else "tuple"
    val = _value(a["value"]) if a else 7
    spy = _Spy()
    p0, p1 = _pform(form, y0, x0), _pform(form, y1, x1)
    keep = [np.array(p0).copy(), np.array(p1).copy()]
    if a and a["value"][0] == "default":
        M.draw_line(spy, p0, p1)
    else:
        M.draw_line(spy, p0, p1, val)
    out = {"pts": spy.w,
           "vals_spy_ok": all(type(v) is type(val) and v == val for v in spy.v) and len(spy.v) == len(spy.w),
           "args_unchanged": bool(np.array_equal(keep[0], np.array(p0)) and np.array_equal(keep[1], np.array(p1)))}
    if case.get("spyonly"):
        return out
    # and on a real array: which pixels changed, to what
    ys = [y0, y1]; xs = [x0, x1]
    pad = a.get("pad", 0) if a else 0
    oy, ox = min(ys) - pad, min(xs) - pad
    h, w = max(ys) - oy + 1 + pad, max(xs) - ox + 1 + pad
    if a is None:
        a = {"dtype": "int64", "layout": "C", "value": ["int", 7], "pform": "tuple"}
    view, base, bg = _mk_array(a, h, w)
    base_before = base.copy()
    q0, q1 = _pform(form, y0 - oy, x0 - ox), _pform(form, y1 - oy, x1 - ox)
    if a["value"][0] == "default":
        r = M.draw_line(view, q0, q1)
    else:
        r = M.draw_line(view, q0, q1, val)
    changed = np.argwhere(view != bg)
    expect = np.array(val).astype(view.dtype)
    out["set"] = sorted(map(list, (changed + [oy, ox]).tolist()))
    out["vals_ok"] = bool(np.all(view[changed[:, 0], changed[:, 1]] == expect)) if len(changed) else True
    out["base_ok"] = int((base != base_before).sum()) == len(changed)
    out["returns_none"] = r is None
    return out


def _line_args(ls, dt, layout):
    cols = [ls[:, k] for k in range(4)]
    if dt == "list":
        return [c.tolist() for c in cols]
    if dt == "tuple":
        return [tuple(c.tolist()) for c in cols]
    if dt == "mixed":
        kinds = ["uint8", "list", "int16", "float64"]
        return [c.tolist() if k == "list" else c.astype(k) for c, k in zip(cols, kinds)]
    if dt != "int":
        cols = [c.astype(dt) for c in cols]
    res = []
    for c in cols:
        if layout == "strided":
            big = np.zeros((len(c), 3), c.dtype); big[:, 1] = c; c = big[:, 1]
        elif layout == "rev":
            c = np.ascontiguousarray(c[::-1])[::-1]
        elif layout == "readonly":
            c = c.copy(); c.setflags(write=False)
        else:
            c = np.ascontiguousarray(c)
        res.append(c)
    return res


def _to_lists(r):
    return {"index": np.asarray(r[0]).tolist(), "count": np.asarray(r[1]).tolist(),
            "i": np.asarray(r[2]).tolist(), "j": np.asarray(r[3]).tolist(),
            "kinds": [np.asarray(x).dtype.kind for x in r], "ndims": [np.asarray(x).ndim for x in r]}


def _lines(M, case):
    ls = np.array(case["ls"], int).reshape(-1, 4)
    args = _line_args(ls, case.get("dtype", "int"), case.get("layout", "C"))
    keep = [np.array(a).copy() for a in args]
    r = M.get_line_pts(*args)
    out = _to_lists(r)
    out["args_unchanged"] = all(np.array_equal(k, np.array(a)) and (not hasattr(a, "dtype") or a.dtype == k.dtype)
                                for k, a in zip(keep, args))
    # a second call with the same objects in the same process must give the same answer
    if case.get("noscalar"):
        out["repeatable"] = True
    else:
        r2 = M.get_line_pts(*args)
        out["repeatable"] = all(np.array_equal(np.asarray(x), np.asarray(y)) for x, y in zip(r, r2))
    if not case.get("noscalar"):
        scalar = []
        for y0, x0, y1, x1 in ls.tolist():
            spy = _Spy()
            M.draw_line(spy, (y0, x0), (y1, x1), 1)
            scalar.append(spy.w)
        out["scalar"] = scalar
    return out


class _Recorder:
    def __init__(self, f):
        self.f = f
        self.calls = []

    def __call__(self, a, b, c, d):
        args = [np.array(x).copy() for x in (a, b, c, d)]
        r = self.f(a, b, c, d)
        integral = all(x.size == 0 or (x.dtype.kind in "iub") or bool(np.all(x == np.round(x))) for x in args)
        rec = _to_lists(r)
        rec["ls"] = np.column_stack([x.astype(int) for x in args]).tolist() if len(args[0]) else []
        rec["integral"] = integral
        self.calls.append(rec)
        return r


def impl(case):
    from centrosome import cpmorphology as M
    fn = case["fn"]
    if fn == "draw":
        return _draw(M, case)
    if fn == "lines":
        return _lines(M, case)
    if fn == "rev":
        y0, x0, y1, x1 = case["l"]
        a, b = _Spy(), _Spy()
        M.draw_line(a, (y0, x0), (y1, x1), 1)
        M.draw_line(b, (y1, x1), (y0, x0), 1)
        return {"fwd": a.w, "bwd": b.w}
    if fn == "strel":
        s = M.strel_line(case["length"], case["angle"])
        return {"shape": list(s.shape), "dtype": str(s.dtype), "set": sorted(map(list, np.argwhere(s).tolist()))}
    if fn == "hull":
        img = np.array(case["img"], int).astype(bool)
        pts, counts = M.convex_hull(img.astype(int), np.array([1]))
        cap = {}
        orig = M.fill_labeled_holes

        def grab(x, *a, **k):
            cap["outline"] = np.array(x).copy()
            return orig(x, *a, **k)
        M.fill_labeled_holes = grab
        try:
            res = M.convex_hull_image(img)
        finally:
            M.fill_labeled_holes = orig
        o = cap["outline"]
        return {"hull": np.asarray(pts)[: int(counts[0]), 1:].astype(int).tolist(),
                "outline": sorted(map(list, np.argwhere(o != 0).tolist())), "outline_vals_ok": bool(np.all((o == 0) | (o == 1))),
                "res": sorted(map(list, np.argwhere(res).tolist())), "shape": list(res.shape)}
    if fn == "inner":
        if case["which"] == "poly":
            ls = np.array(case["lines"], float if case.get("float") else int).reshape(-1, 4)
            if case.get("float"):
                ls = ls + 0.25      # polygon_lines_to_mask rounds to the nearest integer itself
            rec = _Recorder(M.get_line_pts)
            M.get_line_pts = rec
            try:
                res = M.polygon_lines_to_mask(ls[:, 0], ls[:, 1], ls[:, 2], ls[:, 3], tuple(case["shape"]))
            finally:
                M.get_line_pts = rec.f
            return {"calls": rec.calls, "res": sorted(map(list, np.argwhere(res).tolist()))}
        from centrosome import filter as F
        rec = _Recorder(F.get_line_pts)
        F.get_line_pts = rec
        exc = None
        try:
            F.convex_hull_transform(np.array(case["img"], float) / 3.0, levels=4)
        except Exception as e:      # a failure of the caller itself is not C16's business; the recorded calls are
            exc = type(e).__name__
        finally:
            F.get_line_pts = rec.f
        return {"calls": rec.calls, "caller_exc": exc}
    raise ValueError(fn)


# ---------------------------------------------------------------------------- model side

def _bad(o):
    return (not isinstance(o, dict)) or "exc" in o or "crash" in o


def _strel_geom(case):
    """strel_line's own float arithmetic, repeated (harness-side glue, see TRUSTED)"""
    angle = float(case["angle"]) * np.pi / 180.0
    length = case["length"]
    x_off = int(np.round(np.finfo(float).eps + np.cos(angle) * length / 2))
    y_off = -int(np.round(np.finfo(float).eps + np.sin(angle) * length / 2))
    xc, yc = abs(x_off), abs(y_off)
    return yc, xc, y_off, x_off


def _jobs(case, out):
    """model evaluations a case needs: list of (entry, arg)"""
    fn = case["fn"]
    if fn == "draw":
        return [("entry_draw_fast", case["l"])]
    if fn == "lines":
        return [("entry_lines_fast", case["ls"])]
    if fn == "rev":
        y0, x0, y1, x1 = case["l"]
        return [("entry_draw_fast", [y0, x0, y1, x1]), ("entry_draw_fast", [y1, x1, y0, x0])]
    if fn == "strel":
        yc, xc, yo, xo = _strel_geom(case)
        return [("entry_draw_fast", [yc - yo, xc - xo, yc, xc]), ("entry_draw_fast", [yc + yo, xc + xo, yc, xc])]
    if _bad(out):
        return []
    if fn == "hull":
        h = out["hull"]
        return [("entry_draw_fast", [h[n][0], h[n][1], h[(n + 1) % len(h)][0], h[(n + 1) % len(h)][1]]) for n in range(len(h))]
    if fn == "inner":
        return [("entry_lines_fast", c["ls"]) for c in out["calls"]]
    raise ValueError(fn)


def model(ctx, cases, outs):
    jobs = [_jobs(c, o) for c, o in zip(cases, outs)]
    res = [[None] * len(j) for j in jobs]
    for entry in ("entry_draw_fast", "entry_lines_fast"):
        where = [(k, n) for k, j in enumerate(jobs) for n, (e, _) in enumerate(j) if e == entry]
        if not where:
            continue
        for (k, n), r in zip(where, ctx.run_model(entry, [jobs[k][n][1] for k, n in where])):
            res[k][n] = r
    return res


def _four(o):
    return [o["index"], o["count"], o["i"], o["j"]]


def compare(case, out, m):
    if _bad(out):
        return "implementation raised/crashed: %s" % (str(out)[:300],)
    fn = case["fn"]
    if fn == "draw":
        if m[0][0] != out["pts"]:
            return "draw_line order differs: impl %s model %s" % (out["pts"][:8], m[0][0][:8])
        if "set" in out and sorted(m[0][0]) != out["set"]:
            return "pixels changed on the real array differ from the model's points: impl %s model %s" % (
                out["set"][:8], sorted(m[0][0])[:8])
        return None
    if fn == "lines":
        if m[0] != _four(out):
            return "get_line_pts differs from model: impl %s model %s" % (str(_four(out))[:200], str(m[0])[:200])
        return None
    if fn == "rev":
        if m[0][0] != out["fwd"] or m[1][0] != out["bwd"]:
            return "draw_line differs from model in one direction: impl %s / %s" % (out["fwd"][:6], out["bwd"][:6])
        return None
    if fn == "strel":
        yc, xc, yo, xo = _strel_geom(case)
        exp = sorted(map(list, set(map(tuple, m[0][0])) | set(map(tuple, m[1][0]))))
        if out["shape"] != [2 * yc + 1, 2 * xc + 1]:
            return "strel_line shape %s, expected %s" % (out["shape"], [2 * yc + 1, 2 * xc + 1])
        if out["set"] != exp:
            return "strel_line pixels differ from the two model half lines: impl %s model %s" % (out["set"][:10], exp[:10])
        return None
    if fn == "hull":
        exp = sorted(map(list, set(tuple(p) for mm in m for p in mm[0])))
        if out["outline"] != exp:
            return "convex_hull_image outline differs from the model lines through the hull points %s: impl %s model %s" % (
                out["hull"], out["outline"][:10], exp[:10])
        return None
    if fn == "inner":
        for n, (c, mm) in enumerate(zip(out["calls"], m)):
            exp = mm if c["ls"] else [[], [], [], []]
            if exp != _four(c):
                return "inner get_line_pts call %d (lines %s) differs from model" % (n, str(c["ls"])[:120])
        return None
    return "unknown case kind"


# ---------------------------------------------------------------------------- the property on the implementation's output

def _ties_only(l, fwd, bwd_rev):
    """C16_unique_up_to_ties, evaluated: two correct lines differ only at exact ties and by one"""
    y0, x0, y1, x1 = l
    di, dj = abs(y1 - y0), abs(x1 - x0)
    D, d, ax = (di, dj, 1) if dj <= di else (dj, di, 0)
    if len(fwd) != len(bwd_rev):
        return "lengths differ"
    for k, (p, q) in enumerate(zip(fwd, bwd_rev)):
        if p[1 - ax] != q[1 - ax]:
            return "major coordinates differ at point %d" % k
        if p[ax] != q[ax] and not (abs(p[ax] - q[ax]) == 1 and (2 * d * k) % (2 * D) == D):
            return "minor coordinates differ at point %d which is not a tie" % k
    return None


def _strel_halves(case, out):
    """split strel_line's pixel set into its two half lines, ordered from the far end to the centre"""
    yc, xc, yo, xo = _strel_geom(case)
    S = [tuple(p) for p in out["set"]]
    ax = 0 if abs(xo) < abs(yo) else 1           # major axis as draw_line chooses it (y-major iff diff_y > diff_x)
    c = (yc, xc)
    res = []
    for sgn in (-1, 1):
        far = (yc + sgn * yo, xc + sgn * xo)
        lo, hi = min(far[ax], c[ax]), max(far[ax], c[ax])
        half = [p for p in S if lo <= p[ax] <= hi and (p == c or p[ax] != c[ax] or far[ax] == c[ax])]
        half.sort(key=lambda p: p[ax], reverse=far[ax] > c[ax])
        res.append(([far[0], far[1], c[0], c[1]], [list(p) for p in half]))
    return res


def check(ctx, cases, outs):
    res = [None] * len(cases)
    line_jobs, batch_jobs = [], []          # (case index, label, arg)
    for k, (c, o) in enumerate(zip(cases, outs)):
        if _bad(o):
            res[k] = "implementation raised/crashed: %s" % (str(o)[:300],)
            continue
        fn = c["fn"]
        if fn == "draw":
            line_jobs.append((k, "draw_line sequence", [c["l"], o["pts"]]))
            if not o["vals_spy_ok"]:
                res[k] = "draw_line does not store the given value (type and value) at every point"
            elif not o["args_unchanged"]:
                res[k] = "draw_line modified its end-point arguments"
            elif "set" in o:
                if sorted(o["pts"]) != o["set"]:
                    res[k] = "pixels changed on a real array (%s, %s) differ from the recorded writes" % (
                        c.get("arr", {}).get("dtype", "int64"), c.get("arr", {}).get("layout", "C"))
                elif not (o["vals_ok"] and o["base_ok"] and o["returns_none"]):
                    res[k] = "draw_line on a real array: wrong value stored, cells outside the view touched, or a return value"
        elif fn == "lines":
            batch_jobs.append((k, "get_line_pts output", [c["ls"]] + _four(o)))
            if o["kinds"] != ["i"] * 4 or o["ndims"] != [1] * 4:
                res[k] = "get_line_pts must return four 1-d integer arrays, got kinds %s ndims %s" % (o["kinds"], o["ndims"])
            elif not o["args_unchanged"]:
                res[k] = "get_line_pts modified its input arrays"
            elif not o["repeatable"]:
                res[k] = "a second identical get_line_pts call in the same process gave a different answer"
            elif "scalar" in o:
                for n, (ix, ct) in enumerate(zip(o["index"], o["count"])):
                    blk = [[a, b] for a, b in zip(o["i"][ix:ix + ct], o["j"][ix:ix + ct])]
                    if blk != o["scalar"][n]:
                        res[k] = "vectorised line %d differs from scalar draw_line: %s vs %s" % (n, blk[:6], o["scalar"][n][:6])
                        break
        elif fn == "rev":
            line_jobs.append((k, "draw_line forward", [c["l"], o["fwd"]]))
            y0, x0, y1, x1 = c["l"]
            line_jobs.append((k, "draw_line from the other end", [[y1, x1, y0, x0], o["bwd"]]))
            line_jobs.append((k, "reversed line from the other end (C16_draw_line_reverse_spec)", [c["l"], o["bwd"][::-1]]))
            t = _ties_only(c["l"], o["fwd"], o["bwd"][::-1])
            if t:
                res[k] = "the two directions of a line must differ only at exact ties: " + t
        elif fn == "strel":
            yc, xc, yo, xo = _strel_geom(c)
            if o["dtype"] != "bool" or len(o["set"]) != 2 * max(abs(yo), abs(xo)) + 1:
                res[k] = "strel_line: %d pixels of dtype %s, expected %d bool" % (len(o["set"]), o["dtype"], 2 * max(abs(yo), abs(xo)) + 1)
            else:
                for l, half in _strel_halves(c, o):
                    line_jobs.append((k, "strel_line half line %s" % (l,), [l, half]))
        elif fn == "hull":
            if not o["outline_vals_ok"]:
                res[k] = "convex_hull_image draws its outline with a value other than 1"
            elif not set(map(tuple, o["outline"])) <= set(map(tuple, o["res"])):
                res[k] = "convex_hull_image: outline pixels missing from the result"
            elif not set(map(tuple, np.argwhere(np.array(c["img"]) != 0).tolist())) <= set(map(tuple, o["res"])):
                res[k] = "convex_hull_image: result does not cover the input object"
        elif fn == "inner":
            for n, cl in enumerate(o["calls"]):
                if not cl["integral"]:
                    res[k] = "caller handed non-integral end points to get_line_pts"
                elif cl["ls"]:
                    batch_jobs.append((k, "inner get_line_pts call %d of %s" % (n, c["which"]), [cl["ls"]] + _four(cl)))
            if c["which"] == "poly" and res[k] is None:
                if len(o["calls"]) != 2:
                    res[k] = "polygon_lines_to_mask made %d get_line_pts calls" % len(o["calls"])
                else:
                    on = set(map(tuple, o["res"]))
                    allp = set((a, b) for cl in o["calls"] for a, b in zip(cl["i"], cl["j"]))
                    if not allp <= on:
                        res[k] = "polygon_lines_to_mask: a pixel of a polygon side is not in the mask"
    # callers: the pixel set must be the union of the (proved-correct) model lines — evaluated here too, so
    # that a replay / the shrinker sees it without the correspondence stage
    ck = [k for k, c in enumerate(cases) if c["fn"] in ("strel", "hull") and res[k] is None]
    if ck:
        for k, m in zip(ck, model(ctx, [cases[k] for k in ck], [outs[k] for k in ck])):
            res[k] = compare(cases[k], outs[k], m)
    for k_lab, r in zip(line_jobs, ctx.run_model("entry_check_line", [a for _, _, a in line_jobs]) if line_jobs else []):
        k, lab, _ = k_lab
        if r != 1 and res[k] is None:
            res[k] = "%s is not the exact Bresenham line (Spec.Lines.line_ok false)" % lab
    for k_lab, r in zip(batch_jobs, ctx.run_model("entry_check", [a for _, _, a in batch_jobs]) if batch_jobs else []):
        k, lab, _ = k_lab
        if r != 1 and res[k] is None:
            res[k] = "%s violates Spec.Lines.batch_ok" % lab
    return res


def _lines_of(case, out):
    fn = case["fn"]
    if fn in ("draw", "rev"):
        return [case["l"]]
    if fn == "lines":
        return case["ls"]
    if fn == "strel":
        yc, xc, yo, xo = _strel_geom(case)
        return [[yc - yo, xc - xo, yc, xc]]
    if _bad(out):
        return []
    if fn == "hull":
        h = out["hull"]
        return [[h[n][0], h[n][1], h[(n + 1) % len(h)][0], h[(n + 1) % len(h)][1]] for n in range(len(h))]
    return [l for c in out["calls"] for l in c["ls"]]


def nontrivial(case, out):
    for a, b, c, d in _lines_of(case, out):
        D, m = max(abs(c - a), abs(d - b)), min(abs(c - a), abs(d - b))
        if D >= 2 and 0 < m < D:
            return True
    return False


def kernel_crosscheck(ctx, cases, outs):
    """the LINE-LEVEL models (while loop with fuel; lock-step passes with scatter writes), evaluated
    inside Coq by vm_compute, against the implementation's output on small cases"""
    idx = [k for k, c in enumerate(cases) if c["fn"] == "lines" and not _bad(outs[k]) and len(c["ls"]) <= 8
           and sum(outs[k]["count"]) <= 400][:40]
    args = [cases[k]["ls"] for k in idx]
    exp = [_four(outs[k]) for k in idx]
    r = ctx.coq_eval_eq("Model.Lines", "entry_lines", args, exp, tag="lines")
    bad = [k for k, b in zip(idx, r) if b is not True]
    if bad:
        return "vm_compute evaluation of Model.Lines.entry_lines differs from the implementation on case %d" % bad[0], len(idx)
    idx2 = [k for k, c in enumerate(cases) if c["fn"] == "draw" and not _bad(outs[k]) and len(outs[k]["pts"]) <= 60][-20:]
    r = ctx.coq_eval_eq("Model.Lines", "entry_draw", [cases[k]["l"] for k in idx2], [[outs[k]["pts"]] for k in idx2], tag="draw")
    bad = [k for k, b in zip(idx2, r) if b is not True]
    if bad:
        return "vm_compute evaluation of Model.Lines.entry_draw differs from the implementation on case %d" % bad[0], len(idx) + len(idx2)
    return None, len(idx) + len(idx2)


def search_cases(ctx, rnd):
    rng = ctx.rng
    cases = []
    for _ in range(400):
        k = int(rng.choice([1, 2, 4, 16]))
        ls = rng.randint(-30, 31, size=(k, 4))
        cases.append({"fn": "lines", "ls": ls.tolist()})
        a = ls[0].tolist()
        cases.append({"fn": "draw", "l": a})
    return cases


def _dec(l, lo=None):
    """smaller variants of a coordinate list: long lines shrink geometrically (every evaluation of a
    60000-point line costs seconds), short ones by unit steps"""
    big = max(abs(v) for v in l) > 64
    if big:
        yield [v // 2 if v >= 0 else -((-v) // 2) for v in l]
    for k in range(len(l)):
        if l[k] != 0 and (lo is None or l[k] > lo):
            if big and abs(l[k]) > 64:
                for step in (abs(l[k]), abs(l[k]) // 4, abs(l[k]) // 32):
                    m = list(l); m[k] -= step if l[k] > 0 else -step
                    yield m
            else:
                m = list(l); m[k] -= 1 if l[k] > 0 else -1
                yield m


def shrink_candidates(case):
    fn = case["fn"]
    if fn == "draw":
        extra = {k: case[k] for k in ("arr", "spyonly") if k in case}
        if "arr" in case:
            for key, dflt in (("layout", "C"), ("pform", "tuple"), ("pad", 0)):
                if case["arr"].get(key) != dflt:
                    yield dict(case, arr=dict(case["arr"], **{key: dflt}))
        l = case["l"]
        for m in _dec(l, 0 if "arr" in case else None):
            yield dict({"fn": "draw", "l": m}, **extra)
        return
    if fn == "rev":
        for m in _dec(case["l"]):
            yield {"fn": "rev", "l": m}
        return
    if fn == "strel":
        if case["length"] >= 1:
            yield dict(case, length=float(math.floor(case["length"] - 1)))
        if case["angle"] != round(case["angle"] / 15.0) * 15.0:
            yield dict(case, angle=float(round(case["angle"] / 15.0) * 15.0))
        return
    if fn == "hull":
        img = case["img"]
        if len(img) > 3:
            yield {"fn": "hull", "img": img[1:]}
            yield {"fn": "hull", "img": img[:-1]}
        if len(img[0]) > 3:
            yield {"fn": "hull", "img": [r[1:] for r in img]}
            yield {"fn": "hull", "img": [r[:-1] for r in img]}
        return
    if fn == "inner":
        return
    ls = case["ls"]
    extra = {k: case[k] for k in ("dtype", "layout", "noscalar") if k in case}
    if sum(max(abs(l[2] - l[0]), abs(l[3] - l[1])) + 1 for l in ls) > 20000 and len(ls) <= 8:
        # every evaluation of such a case costs seconds: only a handful of candidates
        for k in range(len(ls)):
            if len(ls) > 1:
                yield dict({"fn": "lines", "ls": ls[:k] + ls[k + 1:]}, **extra)
        n = max(range(len(ls)), key=lambda k: max(abs(ls[k][2] - ls[k][0]), abs(ls[k][3] - ls[k][1])))
        l = ls[n]
        cands = []
        if extra.get("dtype", "int") in ("int", "int64", "intp", "list") and (l[0] or l[1]):
            cands.append([0, 0, l[2] - l[0], l[3] - l[1]])
        cands += list(_dec(l))[:9]
        for mm in cands:
            m = [list(x) for x in ls]; m[n] = mm
            yield dict({"fn": "lines", "ls": m}, **extra)
        return
    if extra.get("layout", "C") != "C":
        yield dict({"fn": "lines", "ls": ls}, **dict(extra, layout="C"))
    if len(ls) > 3:
        h = len(ls) // 2
        yield dict({"fn": "lines", "ls": ls[:h]}, **extra)
        yield dict({"fn": "lines", "ls": ls[h:]}, **extra)
        q = max(1, len(ls) // 8)
        for s in range(0, len(ls), q):
            yield dict({"fn": "lines", "ls": ls[:s] + ls[s + q:]}, **extra)
    if 1 < len(ls) <= 40:
        for k in range(len(ls)):
            yield dict({"fn": "lines", "ls": ls[:k] + ls[k + 1:]}, **extra)
    if len(ls) <= 40:
        for n, l in enumerate(ls[:3]):
            for mm in _dec(l):
                m = [list(x) for x in ls]; m[n] = mm
                yield dict({"fn": "lines", "ls": m}, **extra)


MANIFEST = {
    "level_text": (
        "Machine-checked proof (Coq 8.16, closed under the global context) about the executable Gallina model of "
        "draw_line and get_line_pts, for ALL end points and ALL batches: (1) C16_draw_line_correct - the scalar loop "
        "terminates within its fuel and emits a sequence meeting the declarative LineSpec (first/last point = the end "
        "points, length max(|di|,|dj|)+1, major coordinate advances by exactly one per point, minor coordinate within "
        "half a pixel of the ideal segment and moving by 0 or one step towards the end; horizontal, vertical, exact "
        "diagonal and zero-length lines included); (2) C16_line_ok_sound - the boolean checker line_ok that is also "
        "run on the implementation's output implies LineSpec; (3) C16_vector_eq_scalar - for every batch, count/index "
        "are the lengths and their exclusive cumulative sums and the block of every line of the lock-step vectorised "
        "output equals the scalar sequence of that line alone (compaction invariant, last-write-wins scatter over "
        "disjoint positions; independence of the other lines, of batch order and of the pass that handles the line); "
        "(4) C16_batch_checker; (5) C16_draw_line_fast_eq / C16_get_line_pts_fast_eq - the linear executable forms "
        "that are extracted equal the line-level models for all inputs; (6) C16_draw_line_pixels - on any image the "
        "pixels carrying the value afterwards are exactly the points of the sequence, each written once, everything "
        "else unchanged; (7) C16_8_connected; (8) C16_LineSpec_reverse, C16_draw_line_reverse_spec, "
        "C16_unique_up_to_ties and the refutation C16_draw_line_reverse_refuted - the line drawn from the other end "
        "is NOT the reversed line in general, but it is a correct line and differs only at exact ties, by one pixel. "
        "The model is tied to the code by exact comparison of complete outputs (write order of "
        "draw_line, changed pixels of real arrays of every dtype/layout, all four arrays of get_line_pts for every "
        "input dtype/container/layout, the library callers strel_line, convex_hull_image, polygon_lines_to_mask, "
        "convex_hull_transform) on every end-point pair of a grid plus random batches, with the "
        "line-level model cross-checked against the implementation inside the kernel (vm_compute); the verified "
        "checkers are evaluated on the implementation's own output."),
    "level_note": (
        "Trusted: Coq kernel + vm_compute; extraction (ExtrOcamlBasic only) and the S-expression driver; the Python "
        "harness; NumPy scatter/compaction semantics as modelled (last write wins). The tie between model and code "
        "is differential, not a proof about Python."),
    "technique": "Coq proof over executable model + exact differential correspondence (extracted OCaml and vm_compute)",
    "design_ref": "DESIGN.md section 7, C16",
}
