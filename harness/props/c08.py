"""C08 - labelled hole filling repaints exactly the enclosed regions."""
import json
import os
import subprocess
import sys

import numpy as np

ID = "C08"
PROPS_FILE = "theories/Props/C08.v"
EXTRACT = ("theories/Extract/XC08.v", "c08",
           ["entry_fill", "entry_fill_bl", "entry_fill_eq", "entry_gen_eq", "entry_check", "entry_spec", "entry_label_ok"])
PYX = {"_cpmorphology2.pyx": ["fill_labeled_holes_loop"]}
RULE = ("corpus of hand-drawn scenes (bullseyes, shared holes, multi-parent clusters, split labels) first; every "
        "image of a small shape over a small label alphabet (quick: all 3x3 over {0,1,2} and all 2x3 over {0,1,2,3}; "
        "thorough: all 3x4 over {0,1,2} = 531441 and all 2x4 over {0,1,2,3}) in batches of 48; random label images "
        "(shapes skewed to 1xN/Nx1/small, noise labels at several densities, nested rings, blobs relabelled by "
        "connected component, split and absent label numbers, many labels, multi-parent corridors) in bool/uint8/"
        "uint16/int32/int64; every dtype (bool, int8..int64, uint8..uint64, float32/64 with integral values) x every "
        "layout (C, Fortran, strided view, negative strides, read-only, transposed view) incl. labels at the dtype maximum "
        "(<= 16 bit) and labels > 65535 (>= 32 bit), images without background / without foreground / 1x1 / 1xN / Nx1 in "
        "every dtype; mask (dense, half, all, none, foreground-only, box) and size_fn (area thresholds per foreground/"
        "background) separately and together; each call repeated in the same process; strips (257..4100 long, 3..12 "
        "wide, tall and wide) of alternating full-width bands with a one-pixel slot or inlay whose only contact with the "
        "next band is a single pixel pair, a band boundary on EVERY row/column (so any chunk seam is hit), through the "
        "model and the verified checker; checkerboards (quick 120x120 > 7000 regions; thorough 200x200 = 20000 regions through the model and 380x380 > 64K regions against binary_fill_holes only); "
        "non-trivial = at least one region is repainted; distinct by hash of the case")
TRUSTED = [
    "scipy.ndimage.label: the model takes blabels/count as an argument; C08_fill_labeled_holes_correct_img assumes "
    "Spec.valid_labelling (background pixels and only they are numbered 1..count; 4-adjacent background pixels share a "
    "number); the verified boolean test labelling_ok_b of exactly that hypothesis is evaluated on scipy's output for "
    "every case; for the model's own flood fill label4 the hypothesis is PROVED (C08_label4_valid) and label4's "
    "numbering is compared with scipy's",
    "NumPy np.unique / np.lexsort / np.bincount / fancy indexing as transcribed (merge sort + adjacent de-duplication, "
    "bincount as a fold, Indexes.fwd_idx as an exclusive prefix sum): the transcription is compared array by array; "
    "what the transcribed arrays mean (symmetric duplicate-free adjacency, ragged index = neighbour lists) is proved",
    "the spy that wraps fill_labeled_holes_loop inside the staged cpmorphology module to observe i, j, idx, "
    "i_count, is_not_hole, adjacent_non_hole",
]
ASSUMPTIONS = ["labels are non-negative integers below 2^31 (uint32 casts in the wrapper are lossless); label values are "
               "kept <= 100000 because the wrapper allocates arrays of max(label)+count+2 entries (a label at the int32/"
               "int64 maximum needs > 16 GB) - dtype maxima are exercised for bool/int8/uint8/int16/uint16 only",
               "the theorems and the spec checker are about mask=None, size_fn=None; calls with mask / size_fn are tied to the "
               "array-level model fill_gen by exact correspondence only",
               "the image has at least one pixel (np.max of an empty array raises)"]
EXHAUSTIVE = {"quick": False, "thorough": True}
CASE_TIMEOUT = 120
BATCH = 48
MODEL_MAX_SIDE = 400
CHECK_MAX_PIX = 1200        # the verified spec checker is quadratic in the number of edges

CORPUS = [
    [[0]], [[1]], [[0, 0], [0, 0]], [[1, 0, 1]], [[1], [0], [1]],
    [[1, 1, 1], [1, 0, 1], [1, 1, 1]],
    [[1, 1, 2, 2], [1, 3, 0, 2], [1, 1, 2, 2]],                       # cluster with two parents
    [[1, 1, 1, 2, 2], [1, 3, 4, 0, 2], [1, 1, 1, 2, 2]],              # ... with a middle region
    [[1, 1, 1, 2, 2], [1, 0, 4, 3, 2], [1, 1, 1, 2, 2]],
    [[1, 1, 1, 2, 2, 2], [1, 3, 0, 4, 0, 2], [1, 1, 1, 2, 2, 2]],
    [[1, 1, 1, 1], [1, 0, 0, 1], [1, 1, 1, 1]],
    [[1, 1, 2, 2], [1, 0, 0, 2], [1, 1, 2, 2]],                       # hole shared by two objects: stays
    [[1, 1, 1, 1, 1], [1, 0, 0, 0, 1], [1, 0, 2, 0, 1], [1, 0, 0, 0, 1], [1, 1, 1, 1, 1]],   # bullseye
    [[1, 1, 1, 1, 1, 1, 1], [1, 0, 0, 0, 0, 0, 1], [1, 0, 2, 2, 2, 0, 1], [1, 0, 2, 0, 2, 0, 1],
     [1, 0, 2, 2, 2, 0, 1], [1, 0, 0, 0, 0, 0, 1], [1, 1, 1, 1, 1, 1, 1]],
    [[1, 1, 1, 1, 1], [1, 0, 1, 0, 1], [1, 1, 1, 1, 1]],               # two holes in one object
    [[1, 1, 1, 0, 2, 2, 2], [1, 0, 1, 0, 2, 1, 2], [1, 1, 1, 0, 2, 2, 2]],   # split label: piece of 1 inside 2
    [[0, 0, 0, 0, 0], [0, 1, 1, 1, 0], [0, 1, 0, 1, 0], [0, 1, 1, 1, 0], [0, 0, 0, 0, 0]],
    [[5, 5, 5], [5, 9, 5], [5, 5, 5]],                                # object in object, absent numbers
    [[1, 1, 1, 1, 1], [1, 2, 2, 2, 1], [1, 2, 0, 2, 1], [1, 2, 2, 2, 1], [1, 1, 1, 1, 1]],
    [[1, 1, 1, 1, 1], [1, 2, 3, 3, 1], [1, 2, 0, 3, 1], [1, 2, 2, 3, 1], [1, 1, 1, 1, 1]],
    [[0, 1, 0], [1, 0, 1], [0, 1, 0]],
    [[1, 0, 1], [0, 0, 0], [1, 0, 1]],
    [[1, 1, 1, 1, 1, 1], [1, 2, 2, 3, 3, 1], [1, 2, 0, 0, 3, 1], [1, 2, 2, 3, 3, 1], [1, 1, 1, 1, 1, 1]],
]


# ------------------------------------------------------------------------------- generation

def _rand_image(rng, big):
    u = rng.rand()
    if u < 0.25:
        H, W = (1, int(rng.randint(1, 12))) if rng.rand() < 0.5 else (int(rng.randint(1, 12)), 1)
        if rng.rand() < 0.5:
            H, W = int(rng.randint(1, 4)), int(rng.randint(1, 4))
    elif u < 0.8:
        H, W = int(rng.randint(2, 10)), int(rng.randint(2, 10))
    else:
        H, W = int(rng.randint(8, big)), int(rng.randint(8, big))
    kind = rng.choice(["noise", "noise", "rings", "bin", "blobs", "split", "corridor", "many"])
    if kind == "noise":
        k = int(rng.choice([1, 2, 3, 4, 6]))
        lab = rng.randint(0, k + 1, (H, W)) * (rng.rand(H, W) < rng.choice([0.4, 0.6, 0.8, 1.0]))
    elif kind == "bin":
        lab = (rng.rand(H, W) < rng.choice([0.3, 0.5, 0.6, 0.75])).astype(int)
    elif kind == "rings":
        lab = np.zeros((H, W), int)
        for r in range(min(H, W) // 2 + 1):
            v = int(rng.choice([0, 0, 1, 2, 3])) if r else int(rng.choice([0, 1, 2]))
            lab[r:H - r, r:W - r] = v
        if rng.rand() < 0.4 and H > 2 and W > 2:
            lab[rng.randint(0, H), rng.randint(0, W)] = int(rng.randint(0, 4))
    elif kind in ("blobs", "split", "many"):
        import scipy.ndimage as nd
        fg = rng.rand(H, W) < rng.choice([0.45, 0.6, 0.7])
        cc, n = nd.label(fg, nd.generate_binary_structure(2, 1) if rng.rand() < 0.5 else np.ones((3, 3), bool))
        if kind == "blobs":
            perm = rng.permutation(n) + 1
            lut = np.hstack([[0], perm * int(rng.choice([1, 1, 3]))])     # absent label numbers
        elif kind == "split":
            lut = np.hstack([[0], rng.randint(1, max(2, n // 2 + 1), n)])  # several components share a label
        else:
            lut = np.hstack([[0], rng.randint(1, 40, n)])
        lab = lut[cc]
    else:  # corridor: two outer objects, a chain of small regions between them
        W = max(W, 5)
        lab = np.ones((3, W), int)
        m = int(rng.randint(1, W - 1))
        lab[:, m:] = 2
        chain = rng.randint(0, 6, W - 2)
        lab[1, 1:W - 1] = chain
        if H > 3:
            lab = np.vstack([lab, np.tile(lab[2:3], (H - 3, 1))])
    return np.asarray(lab, int)


STRIP_LENGTHS = [257, 513, 530, 1025, 1040, 2049, 4100]


def _strip_image(L, w, phase, kind, slotcol, band=2, inlay_at=None):
    """L x w image made of full-width bands of alternating labels 1/2 (all touch the border, so all unchanged); every band
    has a one-pixel slot (background) cut into its top row ('top') or bottom row ('bottom') whose ONLY contact with the
    neighbouring band is the single vertical pixel pair across the band boundary: with both contacts the slot touches two
    different unchanged objects (stays), without that pair it would be repainted.  Band boundaries fall on every row
    congruent to [phase] modulo [band], so with band = 2 and phase in {0, 1} every row of the image is such a seam."""
    lab = np.zeros((L, w), int)
    starts = list(range(phase, L, band))
    if phase:
        starts = [0] + starts
    for n, a in enumerate(starts):
        b = starts[n + 1] if n + 1 < len(starts) else L
        lab[a:b, :] = 1 + (n % 2)
        r = a if kind == "top" else b - 1
        if b - a >= 2 or kind == "top":
            lab[r, slotcol] = 0
    if inlay_at is not None:
        r, v = inlay_at
        if 0 < r < L - 1:
            lab[r, slotcol] = v
    return lab


def _strip_cases(ctx, lengths, widths, phases, kinds, orients):
    rng = ctx.rng
    cases = []
    for L in lengths:
        for phase in phases:
            for kind in kinds:
                for orient in orients:
                    w = int(rng.choice(widths))
                    band = 2
                    slotcol = int(rng.randint(1, w - 1))
                    inlay = None
                    if rng.rand() < 0.5:
                        # an inlaid object (label 3) instead of a background slot at a power-of-two row (+-1)
                        base = int(rng.choice([64, 128, 256, 512, 1024, 2048]))
                        r = base * int(rng.randint(1, max(2, L // base + 1))) + int(rng.choice([-1, 0, 1]))
                        inlay = (r, 3)
                    lab = _strip_image(L, w, phase, kind, slotcol, band, inlay)
                    if orient == "wide":
                        lab = np.ascontiguousarray(lab.T)
                    dt = str(rng.choice(["int64", "int32", "uint16", "uint8"]))
                    cases.append({"k": "one", "lab": lab.tolist(), "dt": dt, "strip": 1})
                    ctx.count("strip_%s_%s" % (orient, kind)); ctx.count("strip_len_%d" % L)
    return cases


def generate(ctx):
    rng = ctx.rng
    cases = []
    for lab in CORPUS:
        cases.append({"k": "one", "lab": lab, "dt": "int64"}); ctx.count("corpus")
    cdir = os.path.join(os.path.dirname(os.path.dirname(os.path.dirname(os.path.abspath(__file__)))), "corpus", "C08")
    if os.path.isdir(cdir):
        for name in sorted(os.listdir(cdir)):
            if name.endswith(".json"):
                with open(os.path.join(cdir, name)) as f:
                    c = json.load(f)
                cases.append({"k": "one", "lab": c["lab"], "dt": c.get("dt", "int64")}); ctx.count("corpus")
    sweeps = ctx.n([(3, 3, 3), (2, 3, 4)], [(3, 4, 3), (2, 4, 4)])
    for H, W, K in sweeps:
        total = K ** (H * W)
        for s in range(0, total, BATCH):
            cases.append({"k": "sweep", "H": H, "W": W, "K": K, "start": s, "n": min(BATCH, total - s)})
            ctx.count("sweep_batches")
        ctx.count("sweep_images", total)
    for _ in range(ctx.n(700, 6000)):
        lab = _rand_image(rng, ctx.n(26, 40))
        mx = int(lab.max())
        if mx <= 1 and rng.rand() < 0.6:
            dt = "bool"
        else:
            dt = str(rng.choice(["int64", "int32", "uint8", "uint16", "int64"]))
            if dt == "uint8" and mx > 255:
                dt = "int32"
        cases.append({"k": "one", "lab": lab.tolist(), "dt": dt}); ctx.count("random_" + dt)
    # every dtype x layout; label values at the dtype maximum (narrow types) / above 65535 (wide types)
    for dt in DTYPES:
        for layout in LAYOUTS:
            for rep in range(ctx.n(2, 8)):
                lab = _rand_image(rng, 12)
                if dt == "bool":
                    lab = (lab != 0).astype(int)
                elif dt in _DTMAX:
                    top = _DTMAX[dt]
                    if lab.max() > top:
                        lab = lab % (top + 1)
                    if rep % 2 == 0 and lab.max() > 0 and (top < 1000 or rep == 0):
                        lab = np.where(lab == lab.max(), top, lab)          # a label at the dtype maximum
                elif rep == 0 and layout in ("C", "strided") and lab.max() > 0:
                    lab = np.where(lab == lab.max(), int(rng.choice([65536, 70000, 100000])), lab)   # labels > 65535
                cases.append({"k": "one", "lab": lab.tolist(), "dt": dt, "layout": layout}); ctx.count("dtype_" + dt)
                ctx.count("layout_" + layout)
        # degenerate images in every dtype: no background, no foreground, 1x1, 1xN, Nx1
        v = 1 if dt == "bool" else min(_DTMAX.get(dt, 9), 9)
        for lab in ([[v]], [[0]], [[v, v, v], [v, v, v]], [[0, 0], [0, 0], [0, 0]], [[v, 0, v, 0, 1]], [[1], [0], [v]],
                    [[v, v, v], [v, 0, v], [v, v, v]], [[1, v], [v, 1]]):
            cases.append({"k": "one", "lab": lab, "dt": dt, "layout": str(rng.choice(LAYOUTS))}); ctx.count("degenerate")
    # mask and size_fn, separately and together
    for _ in range(ctx.n(500, 3000)):
        lab = _rand_image(rng, 16)
        H, W = lab.shape
        c = {"k": "one", "lab": lab.tolist(), "dt": str(rng.choice(["int64", "int32", "uint8", "uint16", "bool", "float64"])),
             "layout": str(rng.choice(LAYOUTS))}
        if c["dt"] == "bool":
            c["lab"] = (lab != 0).astype(int).tolist()
        elif c["dt"] == "uint8" and lab.max() > 255:
            c["dt"] = "int32"
        u = rng.rand()
        if u < 0.66:
            mk = rng.choice(["dense", "half", "all", "none", "fg", "box"])
            if mk == "dense":
                m = rng.rand(H, W) < 0.9
            elif mk == "half":
                m = rng.rand(H, W) < 0.5
            elif mk == "all":
                m = np.ones((H, W), bool)
            elif mk == "none":
                m = np.zeros((H, W), bool)
            elif mk == "fg":
                m = (lab != 0) | (rng.rand(H, W) < 0.7)
            else:
                m = np.zeros((H, W), bool); m[H // 4:H - H // 4, W // 4:W - W // 4] = True
            c["mask"] = m.astype(int).tolist(); ctx.count("mask_" + str(mk))
        if u > 0.33:
            c["size"] = [int(rng.choice([0, 1, 2, 4, 8, 1000])), int(rng.choice([0, 1, 2, 3, 6, 1000]))]; ctx.count("size_fn")
        cases.append(c)
    # thin and long images with a decisive single-pixel-pair contact on every row / column (chunk seams)
    if ctx.quick():
        cases += _strip_cases(ctx, [530, 1040, 2049], [3, 4, 5, 7, 12], [0, 1], ["top"], ["tall", "wide"])
        cases += _strip_cases(ctx, [4100], [3, 5], [0, 1], ["bottom"], ["tall", "wide"])
    else:
        cases += _strip_cases(ctx, STRIP_LENGTHS, list(range(3, 13)), [0, 1], ["top", "bottom"], ["tall", "wide"])
        for band in (3, 5, 7):
            for phase in range(band):
                L = int(rng.choice(STRIP_LENGTHS)); w = int(rng.randint(3, 13))
                lab = _strip_image(L, w, phase, str(rng.choice(["top", "bottom"])), int(rng.randint(1, w - 1)), band)
                if rng.rand() < 0.5:
                    lab = np.ascontiguousarray(lab.T)
                cases.append({"k": "one", "lab": lab.tolist(), "dt": "int64", "strip": 1}); ctx.count("strip_band_%d" % band)
    for n in ctx.n([120], [120, 200, 380]):
        cb = (np.indices((n, n)).sum(0) % 2)
        c = {"k": "one", "lab": cb.tolist(), "dt": "int32"}
        if n > MODEL_MAX_SIDE:
            # > 64K regions: implementation only (binary_fill_holes agreement, idempotence, dtype); the extracted
            # model's non-tail-recursive list code is super-linear at this size (minutes)
            c["nomodel"] = 1; ctx.count("model_skipped_large")
        cases.append(c); ctx.count("checkerboard")
    cb = (np.indices((60, 60)).sum(0) % 2)
    cb[0, :] = 1; cb[-1, :] = 1; cb[:, 0] = 1; cb[:, -1] = 1
    cases.append({"k": "one", "lab": cb.tolist(), "dt": "uint8"}); ctx.count("checkerboard")
    # bullseye with many rings
    n = ctx.n(41, 81)
    lab = np.zeros((n, n), int)
    for r in range(n // 2 + 1):
        lab[r:n - r, r:n - r] = [1, 0, 2, 0, 3, 3, 0][r % 7]
    cases.append({"k": "one", "lab": lab.tolist(), "dt": "int64"}); ctx.count("bullseye")
    return cases


def _sweep_images(case):
    H, W, K = case["H"], case["W"], case["K"]
    res = []
    for t in range(case["start"], case["start"] + case["n"]):
        d = []
        x = t
        for _ in range(H * W):
            d.append(x % K); x //= K
        res.append([d[r * W:(r + 1) * W] for r in range(H)])
    return res


def _images(case):
    return [case["lab"]] if case["k"] == "one" else _sweep_images(case)


# ------------------------------------------------------------------------------- implementation

DTYPES = ["bool", "int8", "uint8", "int16", "uint16", "int32", "uint32", "int64", "uint64", "float32", "float64"]
LAYOUTS = ["C", "F", "strided", "rev", "ro", "T"]
_DTMAX = {"bool": 1, "int8": 127, "uint8": 255, "int16": 32767, "uint16": 65535}


def _layout(a, layout):
    if layout == "F":
        return np.asfortranarray(a)
    if layout == "strided":
        big = np.zeros((a.shape[0] * 2 + 1, a.shape[1] * 3 + 2), a.dtype)
        big[1::2, 2::3] = a
        return big[1::2, 2::3]
    if layout == "rev":
        return np.ascontiguousarray(a[::-1, ::-1])[::-1, ::-1]
    if layout == "T":
        return np.ascontiguousarray(a.T).T
    a = np.ascontiguousarray(a)
    if layout == "ro":
        a.setflags(write=False)
    return a


def _size_fn(size):
    if size is None:
        return None
    tf, tb = size
    return lambda area, is_foreground: bool(area < (tf if is_foreground else tb))


def _impl_one(lab, dt, layout="C", mask=None, size=None):
    import scipy.ndimage as nd
    from centrosome import cpmorphology as M
    a = _layout(np.array(lab).astype(dt), layout)
    m = None if mask is None else _layout(np.array(mask).astype(bool), "F" if layout in ("F", "T") else "C")
    rec = {}
    real = M.__dict__.get("_c08_real_loop") or M.fill_labeled_holes_loop
    M.__dict__["_c08_real_loop"] = real

    def spy(i, j, idx, i_count, is_not_hole, adjacent_non_hole, to_do, lcount, to_do_count):
        rec["i"] = i.tolist(); rec["j"] = j.tolist(); rec["idx"] = idx.tolist(); rec["cnt"] = i_count.tolist()
        rec["lcount"] = int(lcount)
        r = real(i, j, idx, i_count, is_not_hole, adjacent_non_hole, to_do, lcount, to_do_count)
        rec["nh"] = [int(x != 0) for x in is_not_hole.tolist()]
        rec["anh"] = adjacent_non_hole.tolist()
        return r
    kw = {}
    if m is not None:
        kw["mask"] = m
    if size is not None:
        kw["size_fn"] = _size_fn(size)
    M.fill_labeled_holes_loop = spy
    try:
        before = a.copy()
        mbefore = None if m is None else m.copy()
        out = M.fill_labeled_holes(a, **kw)
    finally:
        M.fill_labeled_holes_loop = real
    bg = (a == 0) if m is None else ((a == 0) & m)
    bl, count = nd.label(bg, M.four_connect)
    flags = 0
    if out.dtype != a.dtype or out.shape != a.shape:
        flags |= 1
    again = M.fill_labeled_holes(a, **kw)                 # same call again in the same process
    if again.dtype != out.dtype or not np.array_equal(again, out):
        flags |= 16
    if not kw:
        out2 = M.fill_labeled_holes(out)
        if not np.array_equal(out2, out) or out2.dtype != out.dtype:
            flags |= 2
        if int(a.max()) <= 1:
            ref = nd.binary_fill_holes(a != 0, M.four_connect)
            if not np.array_equal(out != 0, ref):
                flags |= 4
    if not np.array_equal(a, before) or (m is not None and not np.array_equal(m, mbefore)):
        flags |= 8
    if m is not None and out.shape == a.shape and not np.array_equal(out[~m], a[~m]):
        flags |= 64
    outi = out.astype(np.int64)
    if not np.array_equal(outi.astype(out.dtype), out):
        flags |= 32                                       # non-integral / unrepresentable output value
    called = 1 if rec else 0
    return [outi.tolist(), bl.astype(np.int64).tolist(), int(count), called,
            rec.get("i", []), rec.get("j", []), rec.get("idx", []), rec.get("cnt", []),
            rec.get("nh", []), rec.get("anh", []), int(rec.get("lcount", int(a.astype(np.int64).max()))), 1, flags]


def _impl1(case):
    if case["k"] == "one":
        return {"r": [_impl_one(case["lab"], case["dt"], case.get("layout", "C"), case.get("mask"), case.get("size"))]}
    return {"r": [_impl_one(lab, "int64") for lab in _sweep_images(case)]}


def _impl_safe(case):
    try:
        return _impl1(case)
    except BaseException as e:      # noqa: same mapping as harness/worker.py
        if isinstance(e, (KeyboardInterrupt, SystemExit)):
            raise
        return {"exc": type(e).__name__, "msg": str(e)[:300]}


# -- parallel implementation workers (pattern of harness/props/c05.py) ------------------------------------------
# harness/worker.py calls impl(case) for the cases of its input file one after the other.  impl() looks ahead in that
# file and evaluates the next batch in a pool of forked processes (each has the staged package imported and evaluates
# runs of consecutive cases, so history-dependence between calls still shows).  Any trouble (a child dies or hangs, the
# case stream is not the file's) switches to plain sequential evaluation, so the core's localisation of crashes and
# hangs keeps working.
_PRE = {"cases": None, "pos": 0, "res": {}, "pool": None, "off": False}
_WORKERS = 5


def _case_cost(c):
    if c["k"] == "sweep":
        return 0.0005 * c["n"]
    return 0.001 + 4e-6 * len(c["lab"]) * len(c["lab"][0])


def _pool_off():
    _PRE["off"] = True
    p = _PRE["pool"]
    _PRE["pool"] = None
    if p is not None:
        try:
            for pr in list(getattr(p, "_processes", {}).values()):
                pr.kill()
            p.shutdown(wait=False, cancel_futures=True)
        except Exception:
            pass


def _lookahead(case):
    st = _PRE
    if st["off"]:
        return None
    try:
        if st["cases"] is None:
            ok = len(sys.argv) >= 5 and sys.argv[2] == "impl" and os.path.basename(sys.argv[3]).startswith("in_")
            if not ok:
                st["off"] = True
                return None
            with open(sys.argv[3]) as f:
                st["cases"] = json.load(f)
            if len(st["cases"]) < 64:
                st["off"] = True
                return None
        k = st["pos"]
        if k >= len(st["cases"]) or st["cases"][k] != case:
            _pool_off()
            return None
        if k not in st["res"]:
            import multiprocessing
            from concurrent.futures import ProcessPoolExecutor
            if st["pool"] is None:
                st["pool"] = ProcessPoolExecutor(_WORKERS, mp_context=multiprocessing.get_context("fork"))
            batch, cost = [], 0.0
            while k + len(batch) < len(st["cases"]) and cost < 12.0 and len(batch) < 4000:
                c = st["cases"][k + len(batch)]
                batch.append(c)
                cost += _case_cost(c)
            st["res"] = {}
            chunk = max(1, min(32, len(batch) // (4 * _WORKERS)))
            for n, r in enumerate(st["pool"].map(_impl_safe, batch, timeout=CASE_TIMEOUT, chunksize=chunk)):
                st["res"][k + n] = r
        st["pos"] = k + 1
        return st["res"].pop(k)
    except BaseException as e:
        if isinstance(e, (KeyboardInterrupt, SystemExit)):
            raise
        _pool_off()
        return None


def impl(case):
    r = _lookahead(case)
    if r is None:
        _PRE["pos"] += 1
        return _impl1(case)
    return r


def _bad(o):
    return (not isinstance(o, dict)) or "exc" in o or "crash" in o or "r" not in o


# ------------------------------------------------------------------------------- model side

_TR_OUT = str.maketrans({"[": "(", "]": ")", ",": None})
_TR_IN = str.maketrans({"(": "[", ")": "]", " ": ","})


def _run(ctx, entry, args):
    """ctx.run_model with a C-speed (json-based) encoder/decoder of the same wire format; needed for the
    half-million-image sweep (core.sx_dump / sx_parse are per-character Python)."""
    from harness import core
    if not args:
        return []
    exe = core.ensure_extracted(ctx)
    text = "\n".join(entry + " " + json.dumps(a).translate(_TR_OUT) for a in args) + "\n"
    env = dict(os.environ)
    env["OCAMLRUNPARAM"] = "s=32M"      # large minor heap: the extracted list code recurses deeply, and every minor
                                        # collection scans the whole stack
    r = subprocess.run(["bash", "-c", "ulimit -s unlimited 2>/dev/null; exec " + exe], input=text,
                       capture_output=True, text=True, timeout=3600, env=env)
    if r.returncode != 0:
        raise RuntimeError("model driver failed: " + r.stderr[-1000:])
    lines = r.stdout.splitlines()
    if len(lines) != len(args):
        raise RuntimeError("model driver: %d results for %d cases" % (len(lines), len(args)))
    ctx.model_runs += len(args)
    return [{"model_error": l[1:]} if l.startswith("!") else json.loads(l.translate(_TR_IN)) for l in lines]


def _arg_cost(a):
    try:
        img = a[0]
        return 40 + len(img) * len(img[0])
    except Exception:
        return 100


def _par(ctx, entry, args, nproc=5):
    """split a batch over several driver processes, balanced by image size (longest-processing-time first)"""
    if len(args) < 64:
        return _run(ctx, entry, args)
    from concurrent.futures import ThreadPoolExecutor
    order = sorted(range(len(args)), key=lambda k: -_arg_cost(args[k]))
    bins = [[] for _ in range(nproc)]
    load = [0] * nproc
    for k in order:
        b = load.index(min(load))
        bins[b].append(k); load[b] += _arg_cost(args[k])
    bins = [b for b in bins if b]
    with ThreadPoolExecutor(len(bins)) as ex:
        parts = list(ex.map(lambda b: _run(ctx, entry, [args[k] for k in b]), bins))
    res = [None] * len(args)
    for b, part in zip(bins, parts):
        for k, r in zip(b, part):
            res[k] = r
    return res


def _plain(c):
    return c["k"] != "one" or (c.get("mask") is None and c.get("size") is None)


def model(ctx, cases, outs):
    args, where, gargs, gwhere = [], [], [], []
    for k, (c, o) in enumerate(zip(cases, outs)):
        if _bad(o) or c.get("nomodel"):
            continue
        for n, (lab, r) in enumerate(zip(_images(c), o["r"])):
            if _plain(c):
                args.append([lab, r[1], r[2], r[:12]]); where.append((k, n))
            if c["k"] == "one":
                gargs.append([lab, [] if c.get("mask") is None else [c["mask"]], c.get("size") or [], r[1], r[2], r[:12]])
                gwhere.append((k, n))
    # the three passes run side by side; entry_label_ok = the labelling hypothesis of C08_fill_labeled_holes_correct_img,
    # tested on scipy's blabels and on the model's own
    from concurrent.futures import ThreadPoolExecutor
    with ThreadPoolExecutor(3) as ex:
        f1 = ex.submit(_par, ctx, "entry_fill_eq", args)
        f2 = ex.submit(_par, ctx, "entry_gen_eq", gargs)
        f3 = ex.submit(_par, ctx, "entry_label_ok", [a[:3] for a in args])
        res, gres, lres = f1.result(), f2.result(), f3.result()
    mouts = [[] for _ in cases]
    for (k, n), m, lo in zip(where, res, lres):
        mouts[k].append(m if lo == [1, 1] else ["labelling", lo])
    for (k, n), m in zip(gwhere, gres):
        if _plain(cases[k]):
            if m != 1:
                mouts[k][n] = ["gen", m]
        else:
            mouts[k].append([1, 1] if m == 1 else ["gen", m])
    return mouts


_FIELDS = ["out", "blabels", "count", "called", "i", "j", "idx", "i_count", "is_not_hole", "adjacent_non_hole",
           "lcount", "ok"]


def compare(case, out, m):
    if _bad(out):
        return "implementation raised/crashed: %s" % (str(out)[:300],)
    if case.get("nomodel"):
        return None
    imgs = _images(case)
    for n, (lab, r) in enumerate(zip(imgs, out["r"])):
        if n >= len(m) or m[n] != [1, 1]:
            which = "with scipy's blabels" if (n < len(m) and isinstance(m[n], list) and m[n][:1] == [0]) \
                else "(general model fill_gen: mask=%s size=%s)" % ("yes" if case.get("mask") is not None else "None", case.get("size")) \
                if (n < len(m) and isinstance(m[n], list) and m[n][:1] == ["gen"]) \
                else "(valid_labelling fails for [scipy's blabels, the model's label4] = %s)" % (m[n][1:],) \
                if (n < len(m) and isinstance(m[n], list) and m[n][:1] == ["labelling"]) \
                else "with the model's own flood-fill labelling"
            return "image %s: model (out, blabels, count, called, i, j, idx, i_count, is_not_hole, adjacent_non_hole, " \
                   "lcount) differs from the implementation %s: model says %s" % (
                       json.dumps(lab)[:400], which, str(m[n] if n < len(m) else None)[:100])
    return None


def explain(ctx, lab, r):
    """field-level difference for one image (used in messages only)"""
    m = _run(ctx, "entry_fill_bl", [[lab, r[1], r[2]]])[0]
    for name, a, b in zip(_FIELDS, m, r[:12]):
        if a != b:
            return "%s: model %s impl %s" % (name, str(a)[:200], str(b)[:200])
    return None


# ------------------------------------------------------------------------------- the property

_FLAGS = {1: "output dtype/shape differs from the input's", 2: "filling twice differs from filling once",
          4: "binary input disagrees with scipy.ndimage.binary_fill_holes (4-connected)",
          8: "an input array (labels or mask) was modified",
          16: "the same call repeated in the same process returned a different result",
          32: "output values are not exactly representable integers of the input dtype",
          64: "pixels outside the mask were changed"}


def check(ctx, cases, outs):
    res = [None] * len(cases)
    args, where = [], []
    for k, (c, o) in enumerate(zip(cases, outs)):
        if _bad(o):
            res[k] = "implementation raised/crashed on a valid label image: %s" % (str(o)[:300],)
            continue
        for n, (lab, r) in enumerate(zip(_images(c), o["r"])):
            if r[12]:
                msg = "; ".join(t for b, t in _FLAGS.items() if r[12] & b)
                res[k] = res[k] or "image %s: %s" % (json.dumps(lab)[:300], msg)
            if not _plain(c):
                ctx.count("checker_not_applicable_mask_or_size_fn")
            elif len(lab) * len(lab[0]) <= CHECK_MAX_PIX or c.get("strip"):
                args.append([lab, r[0]]); where.append((k, n, lab))
            else:
                ctx.count("checker_skipped_large")
    for (k, n, lab), v in zip(where, _par(ctx, "entry_check", args)):
        if v != 1 and res[k] is None:
            res[k] = "image %s: output violates Spec.FillHoles.fill_ok (unchanged = least set closed under R1-R3; " \
                     "every other region repainted with an unchanged object adjacent to its cluster); checker says %s" % (
                         json.dumps(lab)[:400], str(v)[:60])
    return res


def nontrivial(case, out):
    if _bad(out):
        return False
    return any(lab != r[0] for lab, r in zip(_images(case), out["r"]))


def kernel_crosscheck(ctx, cases, outs):
    idx = [k for k, c in enumerate(cases) if c["k"] == "one" and not _bad(outs[k])
           and len(c["lab"]) * len(c["lab"][0]) <= 30][:40]
    args = [[cases[k]["lab"], outs[k]["r"][0][1], outs[k]["r"][0][2]] for k in idx]
    exp = [outs[k]["r"][0][:12] for k in idx]
    r = ctx.coq_eval_eq("Model.FillHoles", "entry_fill_bl", args, exp, tag="fill")
    bad = [k for k, b in zip(idx, r) if b is not True]
    if bad:
        return "vm_compute evaluation of Model.FillHoles.entry_fill_bl differs from the implementation on case %d" % bad[0], len(idx)
    return None, len(idx)


def search_cases(ctx, rnd):
    rng = ctx.rng
    cases = []
    for _ in range(1500):
        H, W = int(rng.randint(1, 7)), int(rng.randint(1, 7))
        k = int(rng.choice([1, 2, 3, 4]))
        lab = rng.randint(0, k + 1, (H, W))
        cases.append({"k": "one", "lab": lab.tolist(), "dt": "int64"})
    for _ in range(300):
        cases.append({"k": "one", "lab": _rand_image(rng, 20).tolist(), "dt": "int64"})
    return cases


def shrink_candidates(case):
    if case["k"] == "sweep":
        for lab in _sweep_images(case):
            yield {"k": "one", "lab": lab, "dt": "int64"}
        return
    lab = case["lab"]
    H, W = len(lab), len(lab[0])
    mask = case.get("mask")

    def mk(newlab, newmask=mask, **over):
        c = {"k": "one", "lab": newlab, "dt": case["dt"]}
        for f in ("layout", "size", "strip"):
            if case.get(f) is not None:
                c[f] = case[f]
        if newmask is not None:
            c["mask"] = newmask
        for f, v in over.items():
            if v is None:
                c.pop(f, None)
            else:
                c[f] = v
        return c
    if H > 40:      # long strips: cut the tail, keep the rows before the decisive one in place
        for keep in (H // 2, (3 * H) // 4, H - 64, H - 8, H - 1):
            if 0 < keep < H:
                yield mk(lab[:keep], None if mask is None else mask[:keep])
    if W > 40:
        for keep in (W // 2, (3 * W) // 4, W - 64, W - 8, W - 1):
            if 0 < keep < W:
                yield mk([row[:keep] for row in lab], None if mask is None else [row[:keep] for row in mask])
    if case.get("layout", "C") != "C":
        yield mk(lab, layout=None)
    if mask is not None:
        yield mk(lab, None)
    if case.get("size") is not None:
        yield mk(lab, size=None)
    if case["dt"] != "int64":
        yield mk(lab, dt="int64")
    if H > 1:
        for r in range(H):
            yield mk(lab[:r] + lab[r + 1:], None if mask is None else mask[:r] + mask[r + 1:])
    if W > 1:
        for c in range(W):
            yield mk([row[:c] + row[c + 1:] for row in lab], None if mask is None else [row[:c] + row[c + 1:] for row in mask])
    vals = sorted(set(v for row in lab for v in row))
    for v in vals:
        if v > 1:
            w = max(x for x in [0] + vals if x < v)
            if w + 1 < v:
                yield mk([[w + 1 if x == v else x for x in row] for row in lab])
    n = 0
    for r in range(H):
        for c in range(W):
            if lab[r][c] != 0 and n < 12:
                n += 1
                m = [list(row) for row in lab]; m[r][c] = 0
                yield mk(m)


MANIFEST = {
    "level_text": (
        "Machine-checked proofs (Coq 8.16) about an executable Gallina model of fill_labeled_holes and "
        "fill_labeled_holes_loop. Image level: for every rectangular non-negative label image and every numbering of "
        "the 4-connected background components, the model terminates within its fuel and every output pixel is "
        "unchanged if its region is in the least set closed under the three rules and otherwise carries an unchanged "
        "object adjacent to its cluster (edge extraction, lexsort/dedupe/symmetrise, bincount/fwd_idx proved to yield "
        "the region adjacency graph). Graph level, for every region-adjacency graph and every stack order: when the first walk stops, "
        "is_not_hole marks exactly the least set closed under the three 'unchanged' rules; unchanged neighbours of "
        "changed regions are objects and a changed region touches at most one of them; the second walk labels every "
        "changed region with an unchanged object adjacent to its cluster (the unique one when there is only one); each "
        "region is pushed at most once. The model is tied to the code by exact equality of the returned image and of "
        "all arrays crossing the Python/C boundary (i, j, idx, i_count, is_not_hole, adjacent_non_hole) on every "
        "small image over a small alphabet plus random and structured images; the verified declarative checker "
        "fill_ok is evaluated on the implementation's output."),
    "level_note": (
        "Trusted: Coq kernel + vm_compute; extraction (ExtrOcamlBasic only) and the S-expression driver; the Python "
        "harness; scipy.ndimage.label as 'numbers the 4-components' (executable instance compared on every case); "
        "NumPy sort/unique/bincount semantics as modelled. The tie between model and code is differential."),
    "technique": "Coq proof over executable model + exact differential correspondence (extracted OCaml and vm_compute)",
    "design_ref": "DESIGN.md section 7, C08",
}
