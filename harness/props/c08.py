"""C08 - labelled hole filling repaints exactly the enclosed regions."""
import json
import os
import subprocess

import numpy as np

ID = "C08"
PROPS_FILE = "theories/Props/C08.v"
EXTRACT = ("theories/Extract/XC08.v", "c08",
           ["entry_fill", "entry_fill_bl", "entry_fill_eq", "entry_check", "entry_spec"])
PYX = {"_cpmorphology2.pyx": ["fill_labeled_holes_loop"]}
RULE = ("corpus of hand-drawn scenes (bullseyes, shared holes, multi-parent clusters, split labels) first; every "
        "image of a small shape over a small label alphabet (quick: all 3x3 over {0,1,2} and all 2x3 over {0,1,2,3}; "
        "thorough: all 3x4 over {0,1,2} = 531441 and all 2x4 over {0,1,2,3}) in batches of 48; random label images "
        "(shapes skewed to 1xN/Nx1/small, noise labels at several densities, nested rings, blobs relabelled by "
        "connected component, split and absent label numbers, many labels, multi-parent corridors) in bool/uint8/"
        "uint16/int32/int64; checkerboards (quick 120x120 > 7000 regions; thorough 200x200 = 20000 regions through the model and 380x380 > 64K regions against binary_fill_holes only); "
        "non-trivial = at least one region is repainted; distinct by hash of the case")
TRUSTED = [
    "modelled, not verified: scipy.ndimage.label (the model takes blabels/count as an argument; theorems assume "
    "only 'a numbering of the 4-connected background components'; the model's own flood fill label4 is compared "
    "with scipy's numbering on every case below 3000 pixels)",
    "modelled, not verified: NumPy np.unique / np.lexsort / np.bincount / fancy indexing as transcribed "
    "(merge sort + adjacent de-duplication, bincount as a fold, Indexes.fwd_idx as an exclusive prefix sum)",
    "the spy that wraps fill_labeled_holes_loop inside the staged cpmorphology module to observe i, j, idx, "
    "i_count, is_not_hole, adjacent_non_hole",
]
ASSUMPTIONS = ["labels are non-negative integers below 2^31 (uint32 casts in the wrapper are lossless)",
               "mask=None, size_fn=None (the observed call is fill_labeled_holes(labels))",
               "the image has at least one pixel (np.max of an empty array raises)"]
EXHAUSTIVE = {"quick": False, "thorough": True}
CASE_TIMEOUT = 120
BATCH = 48
MODEL_MAX_SIDE = 250
CHECK_MAX_PIX = 1200        # the verified spec checker is quadratic in the number of edges

CORPUS = [
    [[0]], [[1]], [[0, 0], [0, 0]], [[1, 0, 1]], [[1], [0], [1]],
    [[1, 1, 1], [1, 0, 1], [1, 1, 1]],
    [[1, 1, 2, 2], [1, 3, 0, 2], [1, 1, 2, 2]],                       # cluster with two parents
    [[1, 1, 1, 2, 2], [1, 3, 4, 0, 2], [1, 1, 1, 2, 2]],              # ... with a middle region
    [[1, 1, 1, 2, 2], [1, 0, 4, 3, 2], [1, 1, 1, 2, 2]],
    [[1, 1, 1, 2, 2, 2], [1, 3, 0, 4, 0, 2], [1, 1, 1, 2, 2, 2]],
    [[1, 1, 1, 1], [1, 0, 0, 1], [1, 1, 1, 1]],
    [[1, 1, 2, 2], [1, 0, 0, 2], [1, 1, 2, 2]],                       # hole shared by two objects: stays
    [[1, 1, 1, 1, 1], [1, 0, 0, 0, 1], [1, 0, 2, 0, 1], [1, 0, 0, 0, 1], [1, 1, 1, 1, 1]],   # bullseye
    [[1, 1, 1, 1, 1, 1, 1], [1, 0, 0, 0, 0, 0, 1], [1, 0, 2, 2, 2, 0, 1], [1, 0, 2, 0, 2, 0, 1],
     [1, 0, 2, 2, 2, 0, 1], [1, 0, 0, 0, 0, 0, 1], [1, 1, 1, 1, 1, 1, 1]],
    [[1, 1, 1, 1, 1], [1, 0, 1, 0, 1], [1, 1, 1, 1, 1]],               # two holes in one object
    [[1, 1, 1, 0, 2, 2, 2], [1, 0, 1, 0, 2, 1, 2], [1, 1, 1, 0, 2, 2, 2]],   # split label: piece of 1 inside 2
    [[0, 0, 0, 0, 0], [0, 1, 1, 1, 0], [0, 1, 0, 1, 0], [0, 1, 1, 1, 0], [0, 0, 0, 0, 0]],
    [[5, 5, 5], [5, 9, 5], [5, 5, 5]],                                # object in object, absent numbers
    [[1, 1, 1, 1, 1], [1, 2, 2, 2, 1], [1, 2, 0, 2, 1], [1, 2, 2, 2, 1], [1, 1, 1, 1, 1]],
    [[1, 1, 1, 1, 1], [1, 2, 3, 3, 1], [1, 2, 0, 3, 1], [1, 2, 2, 3, 1], [1, 1, 1, 1, 1]],
    [[0, 1, 0], [1, 0, 1], [0, 1, 0]],
    [[1, 0, 1], [0, 0, 0], [1, 0, 1]],
    [[1, 1, 1, 1, 1, 1], [1, 2, 2, 3, 3, 1], [1, 2, 0, 0, 3, 1], [1, 2, 2, 3, 3, 1], [1, 1, 1, 1, 1, 1]],
]


# ------------------------------------------------------------------------------- generation

def _rand_image(rng, big):
    u = rng.rand()
    if u < 0.25:
        H, W = (1, int(rng.randint(1, 12))) if rng.rand() < 0.5 else (int(rng.randint(1, 12)), 1)
        if rng.rand() < 0.5:
            H, W = int(rng.randint(1, 4)), int(rng.randint(1, 4))
    elif u < 0.8:
        H, W = int(rng.randint(2, 10)), int(rng.randint(2, 10))
    else:
        H, W = int(rng.randint(8, big)), int(rng.randint(8, big))
    kind = rng.choice(["noise", "noise", "rings", "bin", "blobs", "split", "corridor", "many"])
    if kind == "noise":
        k = int(rng.choice([1, 2, 3, 4, 6]))
        lab = rng.randint(0, k + 1, (H, W)) * (rng.rand(H, W) < rng.choice([0.4, 0.6, 0.8, 1.0]))
    elif kind == "bin":
        lab = (rng.rand(H, W) < rng.choice([0.3, 0.5, 0.6, 0.75])).astype(int)
    elif kind == "rings":
        lab = np.zeros((H, W), int)
        for r in range(min(H, W) // 2 + 1):
            v = int(rng.choice([0, 0, 1, 2, 3])) if r else int(rng.choice([0, 1, 2]))
            lab[r:H - r, r:W - r] = v
        if rng.rand() < 0.4 and H > 2 and W > 2:
            lab[rng.randint(0, H), rng.randint(0, W)] = int(rng.randint(0, 4))
    elif kind in ("blobs", "split", "many"):
        import scipy.ndimage as nd
        fg = rng.rand(H, W) < rng.choice([0.45, 0.6, 0.7])
        cc, n = nd.label(fg, nd.generate_binary_structure(2, 1) if rng.rand() < 0.5 else np.ones((3, 3), bool))
        if kind == "blobs":
            perm = rng.permutation(n) + 1
            lut = np.hstack([[0], perm * int(rng.choice([1, 1, 3]))])     # absent label numbers
        elif kind == "split":
            lut = np.hstack([[0], rng.randint(1, max(2, n // 2 + 1), n)])  # several components share a label
        else:
            lut = np.hstack([[0], rng.randint(1, 40, n)])
        lab = lut[cc]
    else:  # corridor: two outer objects, a chain of small regions between them
        W = max(W, 5)
        lab = np.ones((3, W), int)
        m = int(rng.randint(1, W - 1))
        lab[:, m:] = 2
        chain = rng.randint(0, 6, W - 2)
        lab[1, 1:W - 1] = chain
        if H > 3:
            lab = np.vstack([lab, np.tile(lab[2:3], (H - 3, 1))])
    return np.asarray(lab, int)


def generate(ctx):
    rng = ctx.rng
    cases = []
    for lab in CORPUS:
        cases.append({"k": "one", "lab": lab, "dt": "int64"}); ctx.count("corpus")
    cdir = os.path.join(os.path.dirname(os.path.dirname(os.path.dirname(os.path.abspath(__file__)))), "corpus", "C08")
    if os.path.isdir(cdir):
        for name in sorted(os.listdir(cdir)):
            if name.endswith(".json"):
                with open(os.path.join(cdir, name)) as f:
                    c = json.load(f)
                cases.append({"k": "one", "lab": c["lab"], "dt": c.get("dt", "int64")}); ctx.count("corpus")
    sweeps = ctx.n([(3, 3, 3), (2, 3, 4)], [(3, 4, 3), (2, 4, 4)])
    for H, W, K in sweeps:
        total = K ** (H * W)
        for s in range(0, total, BATCH):
            cases.append({"k": "sweep", "H": H, "W": W, "K": K, "start": s, "n": min(BATCH, total - s)})
            ctx.count("sweep_batches")
        ctx.count("sweep_images", total)
    for _ in range(ctx.n(700, 6000)):
        lab = _rand_image(rng, ctx.n(26, 40))
        mx = int(lab.max())
        if mx <= 1 and rng.rand() < 0.6:
            dt = "bool"
        else:
            dt = str(rng.choice(["int64", "int32", "uint8", "uint16", "int64"]))
            if dt == "uint8" and mx > 255:
                dt = "int32"
        cases.append({"k": "one", "lab": lab.tolist(), "dt": dt}); ctx.count("random_" + dt)
    for n in ctx.n([120], [120, 200, 380]):
        cb = (np.indices((n, n)).sum(0) % 2)
        c = {"k": "one", "lab": cb.tolist(), "dt": "int32"}
        if n > MODEL_MAX_SIDE:
            # > 64K regions: implementation only (binary_fill_holes agreement, idempotence, dtype); the extracted
            # model's non-tail-recursive list code is super-linear at this size (minutes)
            c["nomodel"] = 1; ctx.count("model_skipped_large")
        cases.append(c); ctx.count("checkerboard")
    cb = (np.indices((60, 60)).sum(0) % 2)
    cb[0, :] = 1; cb[-1, :] = 1; cb[:, 0] = 1; cb[:, -1] = 1
    cases.append({"k": "one", "lab": cb.tolist(), "dt": "uint8"}); ctx.count("checkerboard")
    # bullseye with many rings
    n = ctx.n(41, 81)
    lab = np.zeros((n, n), int)
    for r in range(n // 2 + 1):
        lab[r:n - r, r:n - r] = [1, 0, 2, 0, 3, 3, 0][r % 7]
    cases.append({"k": "one", "lab": lab.tolist(), "dt": "int64"}); ctx.count("bullseye")
    return cases


def _sweep_images(case):
    H, W, K = case["H"], case["W"], case["K"]
    res = []
    for t in range(case["start"], case["start"] + case["n"]):
        d = []
        x = t
        for _ in range(H * W):
            d.append(x % K); x //= K
        res.append([d[r * W:(r + 1) * W] for r in range(H)])
    return res


def _images(case):
    return [case["lab"]] if case["k"] == "one" else _sweep_images(case)


# ------------------------------------------------------------------------------- implementation

def _impl_one(lab, dt):
    import scipy.ndimage as nd
    from centrosome import cpmorphology as M
    a = np.array(lab).astype(dt)
    rec = {}
    real = M.__dict__.get("_c08_real_loop") or M.fill_labeled_holes_loop
    M.__dict__["_c08_real_loop"] = real

    def spy(i, j, idx, i_count, is_not_hole, adjacent_non_hole, to_do, lcount, to_do_count):
        rec["i"] = i.tolist(); rec["j"] = j.tolist(); rec["idx"] = idx.tolist(); rec["cnt"] = i_count.tolist()
        rec["lcount"] = int(lcount)
        r = real(i, j, idx, i_count, is_not_hole, adjacent_non_hole, to_do, lcount, to_do_count)
        rec["nh"] = [int(x != 0) for x in is_not_hole.tolist()]
        rec["anh"] = adjacent_non_hole.tolist()
        return r
    M.fill_labeled_holes_loop = spy
    try:
        before = a.copy()
        out = M.fill_labeled_holes(a)
    finally:
        M.fill_labeled_holes_loop = real
    bl, count = nd.label(a == 0, M.four_connect)
    out2 = M.fill_labeled_holes(out)
    flags = 0
    if out.dtype != a.dtype or out.shape != a.shape:
        flags |= 1
    if not np.array_equal(out2, out) or out2.dtype != out.dtype:
        flags |= 2
    if int(a.max()) <= 1:
        ref = nd.binary_fill_holes(a != 0, M.four_connect)
        if not np.array_equal(out != 0, ref):
            flags |= 4
    if not np.array_equal(a, before):
        flags |= 8
    called = 1 if rec else 0
    return [out.astype(np.int64).tolist(), bl.astype(np.int64).tolist(), int(count), called,
            rec.get("i", []), rec.get("j", []), rec.get("idx", []), rec.get("cnt", []),
            rec.get("nh", []), rec.get("anh", []), int(rec.get("lcount", int(a.astype(np.int64).max()))), 1, flags]


def impl(case):
    if case["k"] == "one":
        return {"r": [_impl_one(case["lab"], case["dt"])]}
    return {"r": [_impl_one(lab, "int64") for lab in _sweep_images(case)]}


def _bad(o):
    return (not isinstance(o, dict)) or "exc" in o or "crash" in o or "r" not in o


# ------------------------------------------------------------------------------- model side

_TR_OUT = str.maketrans({"[": "(", "]": ")", ",": None})
_TR_IN = str.maketrans({"(": "[", ")": "]", " ": ","})


def _run(ctx, entry, args):
    """ctx.run_model with a C-speed (json-based) encoder/decoder of the same wire format; needed for the
    half-million-image sweep (core.sx_dump / sx_parse are per-character Python)."""
    from harness import core
    if not args:
        return []
    exe = core.ensure_extracted(ctx)
    text = "\n".join(entry + " " + json.dumps(a).translate(_TR_OUT) for a in args) + "\n"
    r = subprocess.run(["bash", "-c", "ulimit -s unlimited 2>/dev/null; exec " + exe], input=text,
                       capture_output=True, text=True, timeout=3600)
    if r.returncode != 0:
        raise RuntimeError("model driver failed: " + r.stderr[-1000:])
    lines = r.stdout.splitlines()
    if len(lines) != len(args):
        raise RuntimeError("model driver: %d results for %d cases" % (len(lines), len(args)))
    ctx.model_runs += len(args)
    return [{"model_error": l[1:]} if l.startswith("!") else json.loads(l.translate(_TR_IN)) for l in lines]


def _par(ctx, entry, args, nproc=6):
    """split a big batch over several driver processes"""
    if len(args) < 4000:
        return _run(ctx, entry, args)
    from concurrent.futures import ThreadPoolExecutor
    step = (len(args) + nproc - 1) // nproc
    chunks = [args[s:s + step] for s in range(0, len(args), step)]
    with ThreadPoolExecutor(nproc) as ex:
        parts = list(ex.map(lambda c: _run(ctx, entry, c), chunks))
    return [x for p in parts for x in p]


def model(ctx, cases, outs):
    args, where = [], []
    for k, (c, o) in enumerate(zip(cases, outs)):
        if _bad(o) or c.get("nomodel"):
            continue
        for n, (lab, r) in enumerate(zip(_images(c), o["r"])):
            args.append([lab, r[1], r[2], r[:12]]); where.append((k, n))
    res = _par(ctx, "entry_fill_eq", args)
    mouts = [[] for _ in cases]
    for (k, n), m in zip(where, res):
        mouts[k].append(m)
    return mouts


_FIELDS = ["out", "blabels", "count", "called", "i", "j", "idx", "i_count", "is_not_hole", "adjacent_non_hole",
           "lcount", "ok"]


def compare(case, out, m):
    if _bad(out):
        return "implementation raised/crashed: %s" % (str(out)[:300],)
    if case.get("nomodel"):
        return None
    imgs = _images(case)
    for n, (lab, r) in enumerate(zip(imgs, out["r"])):
        if n >= len(m) or m[n] != [1, 1]:
            which = "with scipy's blabels" if (n < len(m) and isinstance(m[n], list) and m[n][:1] == [0]) \
                else "with the model's own flood-fill labelling"
            return "image %s: model (out, blabels, count, called, i, j, idx, i_count, is_not_hole, adjacent_non_hole, " \
                   "lcount) differs from the implementation %s: model says %s" % (
                       json.dumps(lab)[:400], which, str(m[n] if n < len(m) else None)[:100])
    return None


def explain(ctx, lab, r):
    """field-level difference for one image (used in messages only)"""
    m = _run(ctx, "entry_fill_bl", [[lab, r[1], r[2]]])[0]
    for name, a, b in zip(_FIELDS, m, r[:12]):
        if a != b:
            return "%s: model %s impl %s" % (name, str(a)[:200], str(b)[:200])
    return None


# ------------------------------------------------------------------------------- the property

_FLAGS = {1: "output dtype/shape differs from the input's", 2: "filling twice differs from filling once",
          4: "binary input disagrees with scipy.ndimage.binary_fill_holes (4-connected)",
          8: "the input array was modified"}


def check(ctx, cases, outs):
    res = [None] * len(cases)
    args, where = [], []
    for k, (c, o) in enumerate(zip(cases, outs)):
        if _bad(o):
            res[k] = "implementation raised/crashed on a valid label image: %s" % (str(o)[:300],)
            continue
        for n, (lab, r) in enumerate(zip(_images(c), o["r"])):
            if r[12]:
                msg = "; ".join(t for b, t in _FLAGS.items() if r[12] & b)
                res[k] = res[k] or "image %s: %s" % (json.dumps(lab)[:300], msg)
            if len(lab) * len(lab[0]) <= CHECK_MAX_PIX:
                args.append([lab, r[0]]); where.append((k, n, lab))
            else:
                ctx.count("checker_skipped_large")
    for (k, n, lab), v in zip(where, _par(ctx, "entry_check", args)):
        if v != 1 and res[k] is None:
            res[k] = "image %s: output violates Spec.FillHoles.fill_ok (unchanged = least set closed under R1-R3; " \
                     "every other region repainted with an unchanged object adjacent to its cluster); checker says %s" % (
                         json.dumps(lab)[:400], str(v)[:60])
    return res


def nontrivial(case, out):
    if _bad(out):
        return False
    return any(lab != r[0] for lab, r in zip(_images(case), out["r"]))


def kernel_crosscheck(ctx, cases, outs):
    idx = [k for k, c in enumerate(cases) if c["k"] == "one" and not _bad(outs[k])
           and len(c["lab"]) * len(c["lab"][0]) <= 30][:40]
    args = [[cases[k]["lab"], outs[k]["r"][0][1], outs[k]["r"][0][2]] for k in idx]
    exp = [outs[k]["r"][0][:12] for k in idx]
    r = ctx.coq_eval_eq("Model.FillHoles", "entry_fill_bl", args, exp, tag="fill")
    bad = [k for k, b in zip(idx, r) if b is not True]
    if bad:
        return "vm_compute evaluation of Model.FillHoles.entry_fill_bl differs from the implementation on case %d" % bad[0], len(idx)
    return None, len(idx)


def search_cases(ctx, rnd):
    rng = ctx.rng
    cases = []
    for _ in range(1500):
        H, W = int(rng.randint(1, 7)), int(rng.randint(1, 7))
        k = int(rng.choice([1, 2, 3, 4]))
        lab = rng.randint(0, k + 1, (H, W))
        cases.append({"k": "one", "lab": lab.tolist(), "dt": "int64"})
    for _ in range(300):
        cases.append({"k": "one", "lab": _rand_image(rng, 20).tolist(), "dt": "int64"})
    return cases


def shrink_candidates(case):
    if case["k"] == "sweep":
        for lab in _sweep_images(case):
            yield {"k": "one", "lab": lab, "dt": "int64"}
        return
    lab = case["lab"]
    H, W = len(lab), len(lab[0])
    dt = case["dt"]
    if H > 1:
        for r in range(H):
            yield {"k": "one", "lab": lab[:r] + lab[r + 1:], "dt": dt}
    if W > 1:
        for c in range(W):
            yield {"k": "one", "lab": [row[:c] + row[c + 1:] for row in lab], "dt": dt}
    vals = sorted(set(v for row in lab for v in row))
    for v in vals:
        if v > 1:
            w = max(x for x in [0] + vals if x < v)
            yield {"k": "one", "lab": [[(w + 1 if x == v else x) if w + 1 < v else x for x in row] for row in lab], "dt": dt}
    n = 0
    for r in range(H):
        for c in range(W):
            if lab[r][c] != 0 and n < 20:
                n += 1
                m = [list(row) for row in lab]; m[r][c] = 0
                yield {"k": "one", "lab": m, "dt": dt}
    if dt != "int64":
        yield {"k": "one", "lab": lab, "dt": "int64"}


MANIFEST = {
    "level_text": (
        "Machine-checked proofs (Coq 8.16) about an executable Gallina model of fill_labeled_holes and "
        "fill_labeled_holes_loop, for every region-adjacency graph and every stack order: when the first walk stops, "
        "is_not_hole marks exactly the least set closed under the three 'unchanged' rules; unchanged neighbours of "
        "changed regions are objects and a changed region touches at most one of them; the second walk labels every "
        "changed region with an unchanged object adjacent to its cluster (the unique one when there is only one); each "
        "region is pushed at most once. The model is tied to the code by exact equality of the returned image and of "
        "all arrays crossing the Python/C boundary (i, j, idx, i_count, is_not_hole, adjacent_non_hole) on every "
        "small image over a small alphabet plus random and structured images; the verified declarative checker "
        "fill_ok is evaluated on the implementation's output."),
    "level_note": (
        "Trusted: Coq kernel + vm_compute; extraction (ExtrOcamlBasic only) and the S-expression driver; the Python "
        "harness; scipy.ndimage.label as 'numbers the 4-components' (executable instance compared on every case); "
        "NumPy sort/unique/bincount semantics as modelled. The tie between model and code is differential."),
    "technique": "Coq proof over executable model + exact differential correspondence (extracted OCaml and vm_compute)",
    "design_ref": "DESIGN.md section 7, C08",
}
