"""C11 - thresholds depend only on masked pixels and respect range and band limits."""
import importlib.util
import math
import os
from fractions import Fraction

import numpy as np

ID = "C11"
PROPS_FILE = "theories/Props/C11.v"
EXTRACT = ("theories/Extract/XC11.v", "c11", ["entry_run", "entry_ref", "entry_check", "entry_fmul", "entry_otsu"])
PYX = {}
CASE_TIMEOUT = 120
METHODS = ["Otsu", "MoG", "Background", "RobustBackground", "RidlerCalvard", "Kapur", "MCT"]
MODS = ["Global", "Adaptive", "PerObject"]
BRACKET = ("Otsu", "RidlerCalvard", "MCT")
SUB = 256      # local thresholds handed to the extracted model per case (all of them for images up to 16x16)

RULE = ("images 12x12..48x48 of four kinds (uniform, bimodal, quantised to 8 levels, nearly dark) x mask density "
        "{0.5, 0.9, 1, None, blob} x 7 methods x 3 modifiers x range {(0,1), (0.1,0.6), random, one-sided/None for "
        "Global} x correction factor {0.5, 1, 2, 0.8, 1.3, random}; per case get_threshold is called twice on the "
        "image and once per perturbation (pixels outside the mask := 0 / 1 / noise), the raw thresholds are fetched "
        "from the staged get_global/adaptive/per_object_threshold and run through the extracted model of the "
        "REGENERATED get_threshold program (all pixels up to 256, else 256 sampled incl. extremes); per-object "
        "cases also perturb the pixels of the other objects; otsu cases: dyadic data through the Q model plus "
        "permutation / NaN / affine variants; non-trivial = at least 3 distinct masked values and (thr) at least "
        "one pixel outside the mask; distinct by hash")
TRUSTED = [
    "tools/gen_threshold_c11.py (Python ast -> Gallina program, band literals, access classes): fail-closed translator",
    "modelled, not verified: the numerical bodies of the seven methods, RectBivariateSpline, log/exp, "
    "scipy.ndimage.find_objects; they enter the model as the raw thresholds measured on the staged functions",
    "binary64 product modelled by Base.ThresholdNum.fmul (round-to-nearest-even of the exact product), "
    "cross-checked against the hardware product on every case and by entry_fmul samples",
    "otsu Q model vs floating-point otsu: compared at relative 1e-9 on dyadic data whose arg-min gap exceeds 1e-6",
]
ASSUMPTIONS = [
    "image values in [0,1], finite; 0 <= range_min <= range_max; correction factor > 0",
    "at least three distinct masked values (bracket clause)",
    "adaptive / per-object modes are called with both range limits (with None the code raises TypeError in "
    "Python 3; model and code are checked to reject alike)",
]
EXHAUSTIVE = {"quick": False, "thorough": False}


# ------------------------------------------------------------------ translator

def gen_files(ctx):
    p = os.path.join(os.path.dirname(os.path.dirname(os.path.dirname(os.path.abspath(__file__)))),
                     "tools", "gen_threshold_c11.py")
    spec = importlib.util.spec_from_file_location("gen_threshold_c11", p)
    mod = importlib.util.module_from_spec(spec)
    spec.loader.exec_module(mod)
    return {"theories/Gen/ThresholdC11.v": mod.translate(ctx.staged_source("centrosome/threshold.py"),
                                                         ctx.staged_source("centrosome/smooth.py"),
                                                         ctx.staged_source("centrosome/otsu.py"))}


# ------------------------------------------------------------------ generation

def _image(rng, H, W, kind):
    if kind == "uni":
        return rng.rand(H, W)
    if kind == "bimodal":
        return np.where(rng.rand(H, W) < 0.3, 0.7 + 0.1 * rng.randn(H, W), 0.2 + 0.05 * rng.randn(H, W)).clip(0, 1)
    if kind == "quant":
        return rng.randint(0, 8, (H, W)) / 8.0
    return rng.rand(H, W) * 0.05


def _mask(rng, H, W):
    u = rng.rand()
    if u < 0.12:
        return None
    if u < 0.24:
        return np.ones((H, W), bool)
    if u < 0.40:
        yy, xx = np.mgrid[0:H, 0:W]
        cy, cx, r = rng.uniform(0.3, 0.7) * H, rng.uniform(0.3, 0.7) * W, rng.uniform(0.3, 0.6) * min(H, W)
        return ((yy - cy) ** 2 + (xx - cx) ** 2) < r * r
    return rng.rand(H, W) < rng.choice([0.5, 0.7, 0.9])


def _labels(rng, H, W):
    lab = np.zeros((H, W), int)
    u = rng.rand()
    if u < 0.5:
        lab[2:H // 2, 2:W // 2] = 1
        lab[H // 2 + 1:H - 2, W // 2 + 1:W - 2] = 2
        if rng.rand() < 0.5:
            lab[1:H // 3, W // 2 + 2:W - 1] = 3
    else:
        n = int(rng.randint(1, 5))
        for k in range(1, n + 1):
            y0, x0 = int(rng.randint(0, H - 4)), int(rng.randint(0, W - 4))
            h, w = int(rng.randint(3, max(4, H // 2))), int(rng.randint(3, max(4, W // 2)))
            blk = lab[y0:y0 + h, x0:x0 + w]
            blk[blk == 0] = k
        if rng.rand() < 0.3:                      # an absent label number
            lab[lab == n] = n + 1
    return lab


def _thr_case(rng, method, mod, small=False):
    if method == "MoG":
        sizes = [12, 16, 20] if mod == 1 else [16, 20, 24, 32]
    else:
        sizes = [12, 16, 20, 24] if small else [12, 16, 20, 24, 32, 40, 48]
    H, W = int(rng.choice(sizes)), int(rng.choice(sizes))
    kind = str(rng.choice(["uni", "bimodal", "quant", "dark"]))
    img = _image(rng, H, W, kind)
    mask = _mask(rng, H, W)
    window = int(rng.choice([w for w in (4, 5, 6, 8, 10) if min(H, W) // w >= 2]))
    u = rng.rand()
    if u < 0.35:
        lo, hi = 0.0, 1.0
    elif u < 0.6:
        lo, hi = 0.1, 0.6
    elif u < 0.9:
        a, b = sorted(rng.rand(2).tolist())
        lo, hi = a * 0.5, min(1.0, b + 0.05)
    elif mod == 0:
        lo, hi = [(None, None), (None, float(rng.rand())), (float(rng.rand() * 0.3), None)][int(rng.randint(3))]
    else:
        lo, hi = [(None, None), (None, 1.0), (0.0, None)][int(rng.randint(3))]      # rejected alike
    u = rng.rand()
    cf = float(rng.choice([0.5, 1.0, 2.0, 0.8, 1.3])) if u < 0.7 else float(rng.uniform(0.3, 2.5))
    case = {"fn": "thr", "method": method, "mod": mod, "kind": kind, "img": img.tolist(),
            "mask": None if mask is None else mask.astype(int).tolist(),
            "labels": None, "lo": lo, "hi": hi, "cf": cf, "window": window,
            "pert": ["zero", "one", "noise"], "pseed": int(rng.randint(1 << 30))}
    if mod == 2 and rng.rand() < 0.8:
        case["labels"] = _labels(rng, H, W).tolist()
    return case


def _otsu_case(rng):
    n = int(rng.choice([2, 3, 5, 8, 17, 40, 100, 255, 256, 257, 300, 600]))
    bits = int(rng.choice([3, 6, 10, 16]))
    kind = str(rng.choice(["uni", "bimodal", "few"]))
    if kind == "uni":
        v = rng.randint(0, 1 << bits, n)
    elif kind == "bimodal":
        v = np.where(rng.rand(n) < 0.4, rng.normal(0.75, 0.08, n), rng.normal(0.25, 0.06, n)).clip(0, 1)
        v = np.round(v * ((1 << bits) - 1)).astype(int)
    else:
        v = rng.choice(rng.randint(0, 1 << bits, 4), n)
    return {"fn": "otsu", "ints": [int(x) for x in v], "bits": bits, "pseed": int(rng.randint(1 << 30)),
            "a2": int(rng.choice([-2, -1, 1, 2, 3])), "b": int(rng.randint(-8, 9)),
            "a": float(rng.uniform(0.2, 3.0)), "bf": float(rng.uniform(-1, 1))}


def _fmul_cases(rng, n):
    """binary64 product vs Base.ThresholdNum.fmul: random operands, the band constants, exact ties
    ((2^52+odd) * 1.5 has 54 significant bits ending in 1), gradual underflow"""
    cases = []
    for k in range(n):
        u = k % 6
        if u == 0:
            a, b = float(rng.rand()), float(rng.choice([0.7, 1.5, 0.5, 2.0, 0.8, 1.3]))
        elif u == 1:
            a, b = float(rng.rand()), float(rng.uniform(0.3, 2.5))
        elif u == 2:
            a = math.ldexp(float((1 << 52) + 2 * int(rng.randint(1 << 30)) + 1), int(rng.randint(-60, -50)))
            b = float(rng.choice([1.5, 0.75, 2.5, 1.25]))
        elif u == 3:
            a, b = math.ldexp(float(rng.rand()), int(rng.randint(-1074, -1000))), float(rng.uniform(0.3, 2.5))
        elif u == 4:
            a, b = math.ldexp(float(rng.randint(1, 1 << 20)), -1074), float(rng.choice([0.7, 1.5, 0.5, 0.25]))
        else:
            a, b = float(rng.randn() * 10), float(rng.randn())
        cases.append({"fn": "fmul", "a": a, "b": b})
    return cases


def generate(ctx):
    rng = ctx.rng
    cases = []
    reps = ctx.n(8, 48)
    for r in range(reps):
        for method in METHODS:
            for mod in (0, 1, 2):
                if method == "MoG" and mod == 1 and r % 3:
                    continue                      # MoG per block is slow: a third of the share
                cases.append(_thr_case(rng, method, mod))
    for _ in range(ctx.n(300, 3000)):
        cases.append(_otsu_case(rng))
    cases.extend(_fmul_cases(rng, ctx.n(300, 3000)))
    for c in cases:
        ctx.count(c["fn"] if c["fn"] != "thr" else "thr:%s:%s" % (MODS[c["mod"]], c["kind"]))
    return cases


# ------------------------------------------------------------------ implementation side

def _same(a, b):
    a, b = np.asarray(a), np.asarray(b)
    if a.shape != b.shape:
        return False
    return bool(np.array_equal(a, b))          # thresholds are finite; NaN would (rightly) compare unequal


def _impl_thr(case):
    import centrosome.threshold as T
    img = np.array(case["img"], float)
    mask = None if case["mask"] is None else np.array(case["mask"], bool)
    labels = None if case["labels"] is None else np.array(case["labels"], int)
    method, mod = case["method"], MODS[case["mod"]]
    lo, hi, cf, window = case["lo"], case["hi"], case["cf"], case["window"]

    def call(im):
        kw = dict(mask=None if mask is None else mask.copy(), threshold_range_min=lo, threshold_range_max=hi,
                  threshold_correction_factor=cf, adaptive_window_size=window)
        if labels is not None:
            kw["labels"] = labels.copy()
        return T.get_threshold(method, mod, im.copy(), **kw)

    l1, g1 = call(img)
    out = {"g": float(g1), "scalar": not isinstance(l1, np.ndarray)}
    l1b, g1b = call(img)
    out["det"] = bool(g1 == g1b) and _same(l1, l1b)
    # two-run non-interference: pixels outside the mask replaced
    ni = {}
    inmask = np.ones(img.shape, bool) if mask is None else mask
    out["n_out"] = int((~inmask).sum())
    prng = np.random.RandomState(case["pseed"])
    for p in case["pert"]:
        im2 = img.copy()
        if p == "zero":
            im2[~inmask] = 0.0
        elif p == "one":
            im2[~inmask] = 1.0
        else:
            im2[~inmask] = prng.rand(int((~inmask).sum()))
        l2, g2 = call(im2)
        ok = bool(g1 == g2) and _same(l1, l2)
        ni[p] = ok
        if not ok:
            d = np.argwhere(np.asarray(l1) != np.asarray(l2))
            out.setdefault("ni_detail", {})[p] = {"g": [float(g1), float(g2)],
                                                   "first_pixel": d[0].tolist() if d.size else None}
    out["ni"] = ni
    # raw thresholds from the staged callees
    mk = None if mask is None else mask.copy()
    raw_g = T.get_global_threshold(method, img.copy(), mk)
    out["raw_g"] = float(raw_g)
    vals = img[inmask]
    out["distinct"] = int(min(4, len(np.unique(vals))))
    out["vmin"], out["vmax"] = (float(vals.min()), float(vals.max())) if vals.size else (None, None)
    if mod == "Global":
        out["local"] = float(l1)
        return out
    if mod == "Adaptive":
        raw_l = T.get_adaptive_threshold(method, img.copy(), g1, mk, adaptive_window_size=window)
    else:
        raw_l = T.get_per_object_threshold(method, img.copy(), g1, mk,
                                           None if labels is None else labels.copy(), lo, hi)
        # per object: only that object's pixels matter (on the raw per-object thresholds; the final
        # ones also depend on the global threshold through the band)
        lab = labels
        if lab is None:
            lab = np.ones(img.shape, int)
            lab[~inmask] = 0
        po = {}
        for k in [int(x) for x in np.unique(lab) if x > 0][:3]:
            own = (lab == k) & inmask
            im2 = img.copy()
            im2[~own] = prng.rand(int((~own).sum()))
            r2 = T.get_per_object_threshold(method, im2, g1, mk, None if labels is None else labels.copy(), lo, hi)
            po[str(k)] = bool(np.array_equal(np.asarray(raw_l)[own], np.asarray(r2)[own]))
        out["po"] = po
    raw_l = np.asarray(raw_l, float)
    l1 = np.asarray(l1, float)
    out["shape_ok"] = bool(raw_l.shape == l1.shape == img.shape)
    lab0 = None
    if case["mod"] == 2 and labels is not None:
        lab0 = (labels == 0)
    # positions handed to the model: all, or a sample that contains the extremes of raw and final values
    n = raw_l.size
    if n <= SUB:
        idx = np.arange(n)
    else:
        fr, fl = raw_l.ravel(), l1.ravel()
        must = {int(np.argmin(fr)), int(np.argmax(fr)), int(np.argmin(fl)), int(np.argmax(fl))}
        if lab0 is not None:
            nz = np.flatnonzero(~lab0.ravel())
            if nz.size:
                must |= {int(nz[np.argmin(fl[nz])]), int(nz[np.argmax(fl[nz])])}
        rest = prng.permutation(n)[:SUB - len(must)]
        idx = np.array(sorted(must | set(int(x) for x in rest)))
    out["idx"] = idx.tolist()
    out["raw_l"] = raw_l.ravel()[idx].tolist()
    out["local_s"] = l1.ravel()[idx].tolist()
    out["lab0_s"] = None if lab0 is None else lab0.ravel()[idx].astype(int).tolist()
    # what the checker needs about ALL pixels: the claim is an interval claim, so the distinct values suffice
    claim = np.ones(img.shape, bool) if lab0 is None else ~lab0
    u = np.unique(l1[claim])
    out["n_claim"] = int(claim.sum())
    out["local_u"] = u.tolist() if u.size <= 64 else [float(u[0]), float(u[-1])] + prng.choice(u, 62).tolist()
    out["clamped"] = [int((l1[claim] == u[0]).sum()) if u.size else 0, int(u.size)]
    return out


def _impl_otsu(case):
    from centrosome.otsu import otsu, entropy, otsu3, entropy3
    scale = float(1 << case["bits"])
    x = np.array(case["ints"], float) / scale
    prng = np.random.RandomState(case["pseed"])
    t = float(otsu(x.copy()))
    out = {"t": t, "det": bool(t == float(otsu(x.copy())))}
    perm = prng.permutation(len(x))
    out["perm"] = bool(float(otsu(x[perm].copy())) == t)
    k = int(prng.randint(1, 6))
    pos = np.sort(prng.randint(0, len(x) + 1, k))
    xn = np.insert(x, pos, np.nan)
    out["nan"] = bool(float(otsu(xn.copy())) == t)
    # affine: power-of-two scale and dyadic shift are exact in binary64 -> exact equality
    a2, b = case["a2"], case["b"]
    a = 2.0 ** a2
    out["affine_exact"] = [float(otsu(a * x + b / 8.0)), a * t + b / 8.0]
    af, bf = case["a"], case["bf"]
    out["affine"] = [float(otsu(af * x + bf)), af * t + bf]
    out["minmax"] = [float(x.min()), float(x.max())]
    for name, f in (("entropy", entropy), ("otsu3", otsu3), ("entropy3", entropy3)):
        try:
            r0 = np.atleast_1d(np.asarray(f(x.copy()), float)).tolist()
            r1 = np.atleast_1d(np.asarray(f(x[perm].copy()), float)).tolist()
            r2 = np.atleast_1d(np.asarray(f(xn.copy()), float)).tolist()
        except Exception as e:           # outside the claim (the property speaks of the two-class cut); counted
            out[name] = {"skipped": type(e).__name__}
            continue
        same = lambda p, q: len(p) == len(q) and all(u == v or (u != u and v != v) for u, v in zip(p, q))
        out[name] = {"perm": same(r0, r1), "nan": same(r0, r2)}
    return out


def impl(case):
    if case["fn"] == "fmul":
        return {"p": float(np.float64(case["a"]) * np.float64(case["b"]))}
    return _impl_thr(case) if case["fn"] == "thr" else _impl_otsu(case)


# ------------------------------------------------------------------ model side

def _bad(o):
    return (not isinstance(o, dict)) or "exc" in o or "crash" in o


def _q(x):
    n, d = Fraction(float(x)).as_integer_ratio() if not isinstance(x, Fraction) else (x.numerator, x.denominator)
    return [n, d]


def _optq(x):
    return [] if x is None else [_q(x)]


def _finite(o):
    xs = [o["g"], o["raw_g"]]
    if o["scalar"]:
        xs.append(o["local"])
    else:
        xs += o["raw_l"] + o["local_s"] + o["local_u"]
    return all(math.isfinite(v) for v in xs)


def _run_arg(case, o):
    return [case["mod"], _q(case["cf"]), _q(o["raw_g"]), _optq(case["lo"]), _optq(case["hi"]),
            [] if o["scalar"] else [_q(v) for v in o["raw_l"]],
            [] if (o["scalar"] or o["lab0_s"] is None) else [o["lab0_s"]]]


def _rejected(case):
    return case["mod"] != 0 and (case["lo"] is None or case["hi"] is None)


def model(ctx, cases, outs):
    res = [None] * len(cases)
    ti = []
    args = []
    for k, (c, o) in enumerate(zip(cases, outs)):
        if c["fn"] != "thr":
            continue
        if _rejected(c):
            # the implementation raised before any raw threshold could be observed: run the model on dummies
            ti.append(k)
            args.append([c["mod"], _q(c["cf"]), _q(0.5), _optq(c["lo"]), _optq(c["hi"]), [_q(0.25)], []])
        elif not _bad(o):
            if not _finite(o):
                ctx.count("excluded_nonfinite")
                res[k] = "nonfinite"
                continue
            ti.append(k)
            args.append(_run_arg(c, o))
    # the interpreter on the regenerated program AND the specified closed form (Spec.ThresholdSpec.ref_run)
    for k, r, r2 in zip(ti, ctx.run_model("entry_run", args), ctx.run_model("entry_ref", args)):
        res[k] = [r, r2]
    oi = [k for k, c in enumerate(cases) if c["fn"] == "otsu" and not _bad(outs[k])]
    for k, r in zip(oi, ctx.run_model("entry_otsu", [cases[k]["ints"] for k in oi])):
        res[k] = r
        if _tied(r):
            ctx.count("otsu_argmin_illconditioned_not_compared")
    fi = [k for k, c in enumerate(cases) if c["fn"] == "fmul"]
    for k, r in zip(fi, ctx.run_model("entry_fmul", [[_q(cases[k]["a"]), _q(cases[k]["b"])] for k in fi])):
        res[k] = r
    return res


def _tied(m):
    best, second = _fr(m[1]), (None if m[2] == [] else _fr(m[2][0]))
    return second is not None and second - best <= Fraction(1, 10 ** 6) * max(best, Fraction(1, 10 ** 6))


def _fr(p):
    return Fraction(p[0], p[1])


def _cmp_run(out, m):
    if not (isinstance(m, list) and len(m) == 2):
        return "rejected the call: %s" % (str(m)[:200],)
    ml, mg = m
    if mg[0] != 0 or _fr(mg[1]) != Fraction(out["g"]):
        return "global threshold: implementation %r, model %s" % (out["g"], mg)
    if out["scalar"]:
        if ml[0] != 0 or _fr(ml[1]) != Fraction(out["local"]):
            return "local (scalar) threshold: implementation %r, model %s" % (out["local"], ml)
        return None
    if not out["shape_ok"]:
        return "raw and final local thresholds have different shapes"
    if ml[0] != 1 or len(ml[1]) != len(out["local_s"]):
        return "model local threshold is not an array of the same length"
    for i, (a, b) in enumerate(zip(ml[1], out["local_s"])):
        if _fr(a) != Fraction(b):
            return "local threshold at flat index %d (raw %r): implementation %r, model %s = %r" % (
                out["idx"][i], out["raw_l"][i], b, a, float(_fr(a)))
    return None


def compare(case, out, m):
    if case["fn"] == "fmul":
        if _bad(out) or not math.isfinite(out["p"]):
            return "binary64 product failed: %s" % (out,)
        return None if _fr(m) == Fraction(out["p"]) else "fmul %r * %r: hardware %r, model %r" % (
            case["a"], case["b"], out["p"], float(_fr(m)))
    if case["fn"] == "thr":
        if _rejected(case):
            if not (isinstance(out, dict) and out.get("exc") == "TypeError"):
                return "range limit None with an array modifier: expected TypeError, implementation gave %s" % (str(out)[:200],)
            return None if m == [[], []] else "model accepts a None range limit with an array modifier"
        if _bad(out):
            return "implementation raised/crashed: %s" % (str(out)[:300],)
        if m == "nonfinite":
            return None
        for which, mm in zip(("model of the regenerated program", "specified closed form"), m):
            d = _cmp_run(out, mm)
            if d:
                return "%s: %s" % (which, d)
        return None
    # otsu: Q model on the integer data; compare when the arg-min is well separated
    if _bad(out):
        return "otsu raised/crashed: %s" % (str(out)[:300],)
    if not (isinstance(m, list) and len(m) == 3):
        return "otsu model failed: %s" % (str(m)[:100],)
    t = _fr(m[0]) / (1 << case["bits"])
    if _tied(m):
        return None                                  # ill-conditioned arg-min; counted in model()
    if abs(Fraction(out["t"]) - t) > Fraction(1, 10 ** 9) * max(abs(t), Fraction(1, 1 << case["bits"])):
        return "otsu: implementation %r, Q model %r" % (out["t"], float(t))
    return None


# ------------------------------------------------------------------ the property on the implementation's output

def check(ctx, cases, outs):
    res = [None] * len(cases)
    ci, args = [], []
    bi, bargs = [], []
    for k, (c, o) in enumerate(zip(cases, outs)):
        if c["fn"] == "fmul":
            continue
        if c["fn"] == "thr":
            if _rejected(c):
                continue
            if _bad(o):
                res[k] = "get_threshold raised/crashed on a valid input: %s" % (str(o)[:300],)
                continue
            if not o["det"]:
                res[k] = "S4 determinism: two identical calls returned different thresholds"
                continue
            badp = [p for p, ok in o["ni"].items() if not ok]
            if badp:
                res[k] = "S1 non-interference: replacing pixels outside the mask (%s) changed the result: %s" % (
                    ",".join(badp), o.get("ni_detail"))
                continue
            badk = [p for p, ok in o.get("po", {}).items() if not ok]
            if badk:
                res[k] = "S1 per object: pixels outside object %s changed its raw per-object threshold" % ",".join(badk)
                continue
            if not _finite(o):
                continue
            if c["lo"] is not None and c["hi"] is not None and c["lo"] > c["hi"]:
                continue
            ts = [o["local"]] if o["scalar"] else o["local_u"]
            ci.append(k)
            args.append([_optq(c["lo"]), _optq(c["hi"]), _q(o["g"]), 0 if o["scalar"] else 1, [_q(t) for t in ts]])
            if c["method"] in BRACKET and o["distinct"] >= 3:
                bi.append(k)
                bargs.append([_optq(o["vmin"]), _optq(o["vmax"]), _q(o["raw_g"]), 0, []])
        else:
            if _bad(o):
                res[k] = "otsu raised/crashed: %s" % (str(o)[:300],)
                continue
            t = o["t"]
            if not o["det"]:
                res[k] = "S4 otsu: repeated call differs"
            elif not o["perm"]:
                res[k] = "S6 otsu is not invariant under a permutation of its data"
            elif not o["nan"]:
                res[k] = "S6 otsu is not invariant under insertion of NaNs"
            elif not (o["minmax"][0] <= t <= o["minmax"][1]):
                res[k] = "S5 otsu threshold %r outside [min, max] = %s" % (t, o["minmax"])
            elif o["affine_exact"][0] != o["affine_exact"][1] and len(set(c["ints"])) > 1 and not _illcond(ctx, c):
                res[k] = "S6 otsu(2^k x + b/8) = %r but 2^k otsu(x) + b/8 = %r" % tuple(o["affine_exact"])
            elif (abs(o["affine"][0] - o["affine"][1]) > 1e-9 * max(1.0, abs(o["affine"][1]))
                  and not _illcond(ctx, c)):
                res[k] = "S6 otsu(a x + b) = %r but a otsu(x) + b = %r" % tuple(o["affine"])
            else:
                for name in ("entropy", "otsu3", "entropy3"):
                    if "skipped" in o[name]:
                        ctx.count("%s_raised_%s" % (name, o[name]["skipped"]))
                    elif not o[name]["perm"] or not o[name]["nan"]:
                        res[k] = "S6 %s is not invariant under permutation / NaN insertion" % name
    for k, r in zip(ci, ctx.run_model("entry_check", args)):
        if r != 1:
            c, o = cases[k], outs[k]
            res[k] = ("S2/S3 range or band violated (Spec.ThresholdSpec.check_thresholds false): global %r, range "
                      "[%r, %r], local thresholds span [%r, %r], band [%r, %r]" % (
                          o["g"], c["lo"], c["hi"], o["local"] if o["scalar"] else min(o["local_u"]),
                          o["local"] if o["scalar"] else max(o["local_u"]), o["g"] * 0.7, o["g"] * 1.5))
    for k, r in zip(bi, ctx.run_model("entry_check", bargs)):
        if r != 1 and res[k] is None:
            o = outs[k]
            res[k] = "S5 bracket: raw %s threshold %r outside the masked intensities [%r, %r]" % (
                cases[k]["method"], o["raw_g"], o["vmin"], o["vmax"])
    return res


_ILL = {}


def _illcond(ctx, case):
    """the arg-min of the Q model is (nearly) tied: a rounding-level change may select another bin"""
    key = (tuple(case["ints"]),)
    if key not in _ILL:
        m = ctx.run_model("entry_otsu", [case["ints"]])[0]
        best, second = _fr(m[1]), (None if m[2] == [] else _fr(m[2][0]))
        _ILL[key] = _tied(m)
        if _ILL[key]:
            ctx.count("otsu_illconditioned_affine_skipped")
    return _ILL[key]


def nontrivial(case, out):
    if _bad(out):
        return False
    if case["fn"] == "thr":
        return (not _rejected(case)) and out["distinct"] >= 3 and out["n_out"] > 0
    if case["fn"] == "fmul":
        return False
    return len(set(case["ints"])) >= 3


def kernel_crosscheck(ctx, cases, outs):
    idx, args, exp = [], [], []
    for k, (c, o) in enumerate(zip(cases, outs)):
        if c["fn"] != "thr" or _bad(o) or _rejected(c) or not _finite(o):
            continue
        a = _run_arg(c, o)
        if not o["scalar"]:
            a[5] = a[5][:6]
            if a[6]:
                a[6] = [a[6][0][:6]]
        idx.append(k); args.append(a)
        if len(idx) >= 40:
            break
    # expected: what the extracted model says on the same (truncated) input - itself compared with the
    # implementation here, value by value (the representation of a rational is not canonical)
    exp = ctx.run_model("entry_run", args)
    for i, r in enumerate(exp):
        o = outs[idx[i]]
        want = [o["local"]] if o["scalar"] else o["local_s"][:6]
        got = [r[0][1]] if o["scalar"] else r[0][1]
        if [Fraction(x[0], x[1]) for x in got] != [Fraction(v) for v in want] or _fr(r[1][1]) != Fraction(o["g"]):
            return "extracted model differs from the implementation on a truncated case", len(idx)
    r = ctx.coq_eval_eq("Model.ThresholdRun", "entry_run", args, exp, tag="run")
    bad = [k for k, b in zip(idx, r) if b is not True]
    if bad:
        return "vm_compute evaluation of Model.ThresholdRun.entry_run differs from the extracted model / implementation on case %d" % bad[0], len(idx)
    return None, len(idx)


def search_cases(ctx, rnd):
    rng = ctx.rng
    cases = []
    for _ in range(2):
        for method in METHODS:
            for mod in (0, 1, 2):
                if method == "MoG" and mod == 1 and rnd % 2:
                    continue
                cases.append(_thr_case(rng, method, mod, small=True))
    for _ in range(60):
        cases.append(_otsu_case(rng))
    return cases


def shrink_candidates(case):
    if case["fn"] == "fmul":
        return
    if case["fn"] == "otsu":
        v = case["ints"]
        if len(v) > 2:
            h = len(v) // 2
            for s in (v[:h], v[h:], v[1:], v[:-1]):
                if len(s) >= 2:
                    yield dict(case, ints=s)
        return
    img = np.array(case["img"])
    H, W = img.shape
    w = case["window"]

    def crop(r0, r1, c0, c1):
        c = dict(case)
        c["img"] = img[r0:r1, c0:c1].tolist()
        if case["mask"] is not None:
            c["mask"] = np.array(case["mask"])[r0:r1, c0:c1].tolist()
        if case["labels"] is not None:
            c["labels"] = np.array(case["labels"])[r0:r1, c0:c1].tolist()
        return c
    if H // 2 >= 2 * w:
        yield crop(0, H // 2, 0, W)
        yield crop(H - H // 2, H, 0, W)
    if W // 2 >= 2 * w:
        yield crop(0, H, 0, W // 2)
        yield crop(0, H, W - W // 2, W)
    if H - 1 >= 2 * w:
        yield crop(0, H - 1, 0, W)
    if W - 1 >= 2 * w:
        yield crop(0, H, 0, W - 1)
    if len(case["pert"]) > 1:
        for p in case["pert"]:
            yield dict(case, pert=[p])
    if case["cf"] != 1.0:
        yield dict(case, cf=1.0)
    q = (np.round(img * 8) / 8.0)
    if not np.array_equal(q, img):
        yield dict(case, img=q.tolist())


MANIFEST = {
    "level_text": (
        "Machine-checked proof (Coq 8.16) about the body of get_threshold REGENERATED from threshold.py on every run "
        "(Python-ast translator into a small statement language with an interpreter): for every product function, "
        "modifier, raw threshold, correction factor and range the global threshold lies in the range "
        "(global_in_range) and every non-sentinel local threshold lies in the range and in the band "
        "[g*0.7, g*1.5] (local_in_band, local_in_band_exact); the band literals of the source are the "
        "specification's doubles (band_consts); every read of `image` in the twelve functions that receive "
        "(image, mask) is mask-respecting (access_crop_first, regenerated) and crop-first methods cannot "
        "distinguish images agreeing on the mask, through adaptive blocks and the per-object loop "
        "(crop_first_noninterference*); the two-class Otsu cut over Q is invariant under permutation and NaN "
        "insertion and is a mean of two data values (otsu_*). Tied to the code by exact comparison of "
        "get_threshold's (local, global) with the extracted interpreter fed with the raw thresholds of the staged "
        "callees (binary64 product modelled exactly), and by evaluating the verified checker, two-run "
        "non-interference, determinism, bracket and Otsu invariances on the implementation."),
    "level_note": (
        "Trusted: Coq kernel + vm_compute; extraction (ExtrOcamlBasic only) and the S-expression driver; the Python "
        "harness and the ast translator; NumPy/SciPy. Modelled, not verified: the numerical bodies of the seven "
        "methods, the spline, log/exp (they enter as measured raw thresholds); floating-point Otsu is compared with "
        "its Q model at 1e-9 on well-separated dyadic data."),
    "technique": "Coq proof over a regenerated program + exact differential correspondence + verified checker on outputs",
    "design_ref": "DESIGN.md section 7, C11",
}
